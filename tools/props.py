"""Per-property configuration of ./check: which Coq files hold the theorems, which correspondence
streams are run, through which view they are compared and which checker is applied."""

TIE_THEOREMS = ["tie_codes", "tie_codes_table", "tie_no_extra", "tie_codes_nodup", "tie_broadcast"]

EV = dict(stream="EV", module="RP.Glue.StreamEV")

HOOK_COMMITS = ["c3ab119"]
NOT_APPLICABLE = {}

NOTE_COMMON = ("Proved of the hand-written Gallina model (no axioms; Print Assumptions audited on every run); the model is tied to the code by the "
               "correspondence streams (real Rust code vs. extracted model on generated cases, compared through the property's view) and, for the "
               "event codes, by constants re-translated from the source. Trusted: Coq kernel + vm_compute, ExtrOcamlBasic extraction, harness, runner, check script.")


PROPS = {
    "C03": dict(
        vfiles=["Props/C03"],
        technique="Coq proof (case analysis over 16 kinds + lia on big-endian arithmetic) of decode(encode e) = e over the model; model tied to code by differential correspondence on generated events",
        level_text="Theorem C03_roundtrip: for every well-formed event of all 16 kinds (all field values, data payloads of any length equal to the declared u16 length) "
                   "decode (kind_of e) (encode e) = Val e, the packet is a non-error packet addressed to the receiver (broadcast for the hello announcements). "
                   "A universally quantified round-trip is exactly what a proof settles and sampling cannot.",
        level_note=NOTE_COMMON,
        streams=[dict(EV, view="view_C03", ok="ok_C03")],
        rule="stream EV: for each of the 16 kinds, events with boundary-biased field values (0, 1, max, max-1, byte-swapped patterns, uniform), every "
             "brightness/relay/message variant, data payloads of boundary and random sizes up to 65535 bytes with constant/coloured/random bytes; "
             "a case is non-trivial when it is a distinct event value (distinct case lines are counted)",
        assumptions=["MessageValue padding bytes are unspecified and masked to zero on the implementation side"],
    ),
}
