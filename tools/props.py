"""Per-property configuration of ./check: which Coq files hold the theorems, which correspondence
streams are run, through which view they are compared and which checker is applied."""

# further source ties: vo target -> theorems
TIE_EXTRA = {"Generated/TieCodes": ["tie_codes", "tie_codes_table", "tie_no_extra"], "Generated/TieNoDup": ["tie_codes_nodup"], "Generated/TieBroadcast": ["tie_broadcast"],
             "Generated/TieGuards": ["tie_guards"], "Generated/TieDecCodes": ["tie_decoder_codes"], "Generated/TieEncCodes": ["tie_encoder_codes"]}

EV = dict(stream="EV", module="RP.Glue.StreamEV")

DEC = dict(stream="DEC", module="RP.Glue.StreamDEC")
AMB = dict(stream="AMB", module="RP.Glue.StreamDEC")

USD = dict(stream="USD", module="RP.Glue.StreamFrame")
USE = dict(stream="USE", module="RP.Glue.StreamFrame")
CAD = dict(stream="CAD", module="RP.Glue.StreamFrame")
CAE = dict(stream="CAE", module="RP.Glue.StreamFrame")
RULE_USD = ("stream USD (byte string -> from_usart_frame): the empty string, all strings of length 1..3 over a 10-letter alphabet, random strings of every length "
            "0..=255, valid encodings of generated frames with typed mutations (declared length 0/1/7/8/9/20/255/+-1, appended bytes, truncation, at every position: "
            "truncate / inject 0x00 / flip a bit / overwrite with 0x00 or 0xff), COBS encodings of random 0..=20-byte (and a few long) bodies")
RULE_FR = ("streams USE/CAE (well-formed frame -> encoder -> decoder): all 8 flag combinations x both id kinds x ids {0,1,255,256,0xfff,0xa5a} x addresses with zero bytes x "
           "data lengths 0..=8, then random frames (two thirds fragment-shaped) with boundary-biased ids/addresses and 0x00/0xff runs in the data")
RULE_CAD = ("stream CAD (driver CAN frame -> from_bxcan_frame): all 8192 patterns of identifier bits 28..16 (flags, all 64 reserved-bit patterns, id nibble) x boundary and random "
            "addresses x data lengths 0..=8, multi-frame ids without data, standard ids and remote frames of every length, random extended ids")
FRG = dict(stream="FRG", module="RP.Glue.StreamPacket")
REA = dict(stream="REA", module="RP.Glue.StreamPacket")
BLD = dict(stream="BLD", module="RP.Glue.StreamPacket")
RULE_PKT = ("packets of every payload length 0..=64, 7k-1/7k/7k+1 for k in {36,37,255,256,257} (thorough: 4095,4096), 1785..=1800, 28664..=28672, and "
            "log-uniform random lengths; either error flag, boundary-biased addresses, constant/index-coloured/random bytes")
RULE_BLD = ("stream BLD: start frame announcing 1,2,3,256,257,4095,4096 or 1..12 frames (single or multi, either type; sometimes not a legal start frame) followed by 1..=40 frames "
            "drawn from {right next frame, duplicate, gap, id congruent mod 256, id = announced count, id beyond, other device, other error type, start frame, single-frame, "
            "non-multi, last-kinded continuation, random id, any data length}; plus complete 257- and 4096-frame reassemblies followed by surplus frames")
RCV = dict(stream="RCV", module="RP.Glue.StreamLink")
LNK = dict(stream="LNK", module="RP.Glue.StreamLink")
SND = dict(stream="SND", module="RP.Glue.StreamLink")
RULE_RCV = ("stream RCV (link, raw device script): for each of CAN / USART / serial port, a fault prefix built from the wire image of 0..=5 packets with frame-level faults (drop, duplicate, swap, "
            "truncate mid-packet, foreign address, flipped error type, start flag flipped, random id, multi flag flipped) and byte-level faults (bit flip, length byte 0 / 255 / +-1, zero inside the body, "
            "arbitrary raw link frames, non-zero line noise, would-block answers; on CAN standard-id, remote, random frames and overrun reports), optionally an interrupted packet of the probes' device, "
            "then two probe packets; plus the scripts of the repaired defects F1/F2/F5/F6; every poll's result and the tokens left are observed, on the implementation also the heap held")
RULE_LNK = ("stream LNK (link, packets, schedule): 1..=8 packets of mixed sizes (single-frame, 8/9/14/15 bytes, 200..400 bytes, thorough: 28672 bytes) written by the real sender into an always-ready "
            "device; the recorded wire image is replayed to the receiver with 'no data yet' answers inserted by 6 gap patterns (none, before every byte/frame, periodic, random)")
RULE_SND = ("stream SND (link, packet, device answers): USART would-block 0..=50 times before each byte and scripts that stop accepting early; CAN would-block runs, a displaced report at every frame index, "
            "scripts that end early; serial port 1-byte writes, short writes of random sizes, interruptions, an io error or a zero-length write at a random write index, flush failure")
PRO = dict(stream="PRO", module="RP.Glue.StreamProto")
EXC = dict(stream="EXC", module="RP.Glue.StreamProto")
RULE_PRO = ("stream PRO (own address, history of up to 60 operations): own address in {0, 1, 0xfffe, 0xffff, random}; register (own-address or capture-all handler, optionally transmitting 1-2 packets "
            "to other devices / broadcast), remove (live, already removed, never issued id), tick with a scripted link answer (packet to own / broadcast / foreign address, data or error packet; "
            "'nothing received'; every InterfaceError constructor), send_packet (own / broadcast / other destination) with scripted link answers; handlers log (id, label, packet)")
RULE_EXC = ("stream EXC (one exchange call): all 16 requested kinds x both capture modes x single/multi reply; request to own / broadcast / other address with 0..3 registered handlers; queues of 0..12 "
            "incoming packets (matching encodings addressed to own / broadcast / another device, another kind, error packets, truncated encodings, garbage) optionally containing or ending in "
            "'nothing received' or a link error; send answers incl. errors; the trace of send / wait / get events is recorded by the mock link and the wait closure")
E2E = dict(stream="E2E", module="RP.Glue.StreamE2E")
RULE_E2E = ("stream E2E (two nodes): for each link, node A (own address broadcast / 1 / random) sends 1..=8 events of random kinds (field values boundary-biased, data events up to 300 bytes, so single- and "
            "multi-frame packets) addressed to B, to broadcast, to A itself or elsewhere, through Protocol::send_packet over the real sender; the recorded wire image is replayed with 5 gap patterns to "
            "B's real receiver under Protocol::tick until the link is dry; B has 0..=4 logging handlers (own-address / capture-all), own address possibly equal to A's or broadcast")
RULE_DEC = ("stream DEC (decoder kind, packet): every decoder x every payload length 0..=70 with the kind's code in place and tag-like bytes; "
            "valid encodings from an independent layout table, each perturbed (error flag, every code 0..=0x12/0xffff, length +-1, truncation at a random "
            "point, bit flip, foreign decoder, every variant tag and flag byte 0..=255, 32-bit message tags incl. >= 256, non-zero padding, declared data "
            "length 0/1/+-1/near 65535); data events declaring up to 65535 bytes; random packets against random decoders; distinct case lines are counted")
RULE_EV = ("stream EV: for each of the 16 kinds, events with boundary-biased and tag-like field values, every brightness/relay/message variant, data payloads of "
           "boundary and random sizes up to 65535 bytes; distinct case lines are counted")
RULE_AMB = ("stream AMB: packets of stream DEC (each offered to all 16 decoders) and encodings of generated events of every kind with tag-like field values "
            "(offered to all 16 decoders: the 16 x 16 encoder/decoder matrix); distinct case lines are counted")

HOOK_COMMITS = ["c3ab119"]

# first number of a checker's output (decimal) -> what it means
CLAUSES = {
    1: "C03: decoded value differs from the event sent / C05: decoder panicked", 2: "C03: error packet produced / C05: decoder hangs", 3: "C03: packet not addressed to the receiver / C05: value outside the domain (INVALID)",
    4: "C03: own encoding rejected", 5: "C03: decoder panicked", 6: "C03: observation unparsable",
    10: "C05: value outside the kind's domain", 11: "C05: value of another kind", 12: "C05: error packet accepted", 13: "C05: wrong event code accepted",
    14: "C05: accepted length is not the layout's", 15: "C05: not stable under re-encoding", 16: "C05: unknown variant tag / non-boolean byte materialised",
    20: "C05: reported rejection reason does not apply", 21: "C05: unknown error value",
    30: "C11: decoder disagrees with the reference decoder", 31: "C11: packet is not the published layout",
    41: "C12: two kinds accept the same packet", 42: "C12: another kind accepts the encoding of an event",
    50: "C04: accepted frame is not well-formed", 51: "C04: re-encoding / reassembly of an accepted frame panics", 52: "C04: decoder panicked / hangs",
    60: "C09: not the COBS encoding of the documented header + data", 61: "C09: delimiter byte emitted", 62: "C09: longer than 14 bytes", 63: "C09: decode(encode f) <> f", 64: "C09: encoder failed",
    65: "C09: decoded fields differ from the layout", 66: "C09: valid encoding rejected", 67: "C09: size mismatch accepted", 68: "C09: decoder panicked",
    70: "C08: not an extended data frame", 71: "C08: identifier layout", 72: "C08: payload differs from the data bytes", 73: "C08: decode(encode f) <> f", 74: "C08: encoder failed",
    75: "C08: decoded fields differ from the layout", 76: "C08: frame wrongly rejected", 77: "C08: frame that must be rejected was accepted", 78: "C08: decoder panicked", 79: "C08: accepted although the layout demands a panic-free reject",
    80: "C10: not the documented frame sequence", 81: "C10: fragmentation failed",
    90: "C02: observation malformed", 91: "C02: path (0 direct, 1 CAN, 2 USART) did not rebuild the packet exactly at the last frame",
    100: "C07: add_frame panicked", 101: "C07: accepted a frame that is not the exact next one", 102: "C07: rejected the exact next frame", 103: "C07: reported reason does not apply",
    104: "C07: state / accounting / build differs from the reference", 109: "C07: surplus observation", 110: "C07: reassembly started by a non-start frame", 111: "C07: initial state wrong", 112: "C07: start frame rejected", 113: "C07: wrong rejection of a non-start frame", 114: "C07: new() panicked",
    120: "C06: a poll panicked / hung / over-read", 121: "C06: the second probe packet was not delivered intact as the last result", 122: "C06: before it: neither probe 1 intact nor an error (altered / merged delivery)",
    130: "C13: spurious error / panic", 131: "C13: delivered sequence differs from the packets sent", 132: "C13: polls do not end with 'nothing received'", 133: "C13: the sender failed", 134: "C13: a poll reported 'nothing received' although the device had not answered 'no data yet' (complete data was waiting)",
    140: "C19: heap exceeds 96 + 40 * frames announced for the packet in flight (held, announced, heap, tokens left)", 141: "C19: heap above the absolute bound, or not released after a delivery / reassembly error (class, heap, tokens left)", 142: "C19: heap grew without bound inside a poll that never returned (peak, before, tokens left)",
    150: "C14/C15: see property (C14: USART bytes differ; C15: tick dispatch differs from the model on the same table)", 151: "C14: CAN frames handed over / result differ", 152: "C14: bytes on the link are not a prefix of the frames' bytes",
    153: "C14: success reported although bytes are missing", 154: "C14: flush failure swallowed", 155: "C14: serial result differs", 156: "C14: observation malformed",
    160: "C16: send_packet routing differs", 170: "C17: id of a registered handler handed out again", 171: "C17: registration failed", 172: "C17: remove result wrong", 173: "C17: delivery does not reach exactly the live handlers",
    180: "C18: send error not returned before the wait callback", 181: "C18: result / trace / queue differ from the first-match (all-matches) scan", 182: "C18: send panicked", 183: "C18: an exchange on a protocol object with a history differs from the same exchange on the model (something was carried over)",
    190: "C01: registration count", 191: "C01: a send failed", 192: "C01: a tick failed", 193: "C01: number of deliveries (got, expected)", 194: "C01: wrong handler, order, packet or decoded value (offending log entry follows)", 195: "C01: the sender failed",
    3054: "unparsable case or observation",
}
NOT_APPLICABLE = {}

NOTE_COMMON = ("Proved of the hand-written Gallina model (no axioms; Print Assumptions audited on every run); the model is tied to the code by the "
               "correspondence streams (real Rust code vs. extracted model on generated cases, compared through the property's view) and, for the "
               "event codes, by constants re-translated from the source. Trusted: Coq kernel + vm_compute, ExtrOcamlBasic extraction, harness, runner, check script.")


PROPS = {
    "C01": dict(
        vfiles=["Props/C01"],
        technique="Coq proof by composition: sender routing (C16) + senders' wire image (C14/C13_sender_wire) + link transparency under every schedule (C13) + dispatch (C15) + event round trip (C03), for all three links; correspondence with the full real stack on both ends",
        level_text="Theorems C01_usart / C01_serial / C01_can: for every finite sequence of well-formed events (packets up to 4096 frames), all pairs of node addresses, every handler table of the receiver and every "
                   "polling schedule of the link, the receiver's handler log is exactly (transmitted event x selected handlers) in order, once each; every tick returns Ok; every delivered packet decodes to the event sent.",
        level_note=NOTE_COMMON + " An event addressed to the sender's own address is looped back locally and not transmitted (C16); the sender node has no local handlers in the theorem.",
        streams=[dict(E2E, view="view_C01", ok="ok_C01")],
        rule=RULE_E2E,
        assumptions=["serial port: 'no data yet' only between link frames, as the property states", "data events larger than 28666 payload bytes (more than 4096 frames) are outside the quantifier"],
    ),
    "C02": dict(
        vfiles=["Props/C02"],
        technique="Coq proof by induction on the frame index with the invariant 'the builder holds the first k frames of the fragmentation' (no bound below the 12-bit id limit), composed with the CAN/USART round-trip theorems for fragment-shaped frames; correspondence on boundary-size packets through all three paths",
        level_text="Theorems C02_direct (for every packet of 0..=28672 bytes: every state before the last frame reports frames left > 0 and MissingFrames, the last frame gives frames left = 0 "
                   "and build = the original packet), C02_via_can and C02_via_usart (encoding and decoding every frame of the fragmentation returns the same frame list). C02_checker_accepts_model: the extracted checker provably accepts the model's observations.",
        level_note=NOTE_COMMON,
        streams=[dict(REA, view="view_C02", ok="ok_C02")],
        rule="stream REA: " + RULE_PKT + "; each packet goes through to_frames and the direct / CAN-codec / USART-codec paths into a fresh PacketBuilder, frames_left observed after every frame, build probed before the last frame",
    ),
    "C06": dict(
        vfiles=["Props/C06"],
        technique="Coq proof: receivers as token automata over device scripts; one link frame = one builder step (induction over the body bytes); the builder step preserves a receiver invariant and never panics on any bytes (uses the C04 totality theorems); resynchronisation holds after ANY prior state (start frames are never continuations); harness loop related to the flat run by a bridge lemma; correspondence on fault scripts",
        level_text="Theorems C06_resync_frames (after ANY receiver state, two back-to-back packets: second intact, first intact or dropped with errors), C06_step_safe_bytes / C06_step_safe_can, "
                   "C06_usart / C06_serial / C06_can (any sequence of whole link frames, noise and would-block answers, then two packets: no panic, no hang, probe results of the demanded shape, receiver empty). C06_checker_accepts_model_usart / _serial / _can: the extracted checker provably accepts the model's observation of every such script.",
        level_note=NOTE_COMMON + " Devices are scripts (lists of answers); 'blocking forever' is the explicit outcome Hang of the model; over-reading is observed by the mock devices (spin limit).",
        streams=[dict(RCV, view="view_C06", ok="ok_C06")],
        rule=RULE_RCV,
    ),
    "C13": dict(
        vfiles=["Props/C13"],
        technique="Coq proof: schedule insensitivity of the USART automaton (would-block tokens anywhere change only the number of 'nothing received' results), gap lemmas for CAN / serial port, frames-on-the-wire lemma composed with the reassembly theorem for packet sequences, bridge to the harness loop; correspondence through the real sender and receiver under gap patterns",
        level_text="Theorems C13_usart (every schedule inserting 'no data yet' between any two bytes), C13_serial, C13_can (between link frames), C13_serial_interrupted (additionally EINTR at any point, inside frames too), C13_serial_other_failure and C13_can_overrun (the other 'no data yet' answers: a read failing with another io error, an overrun report): the polls return exactly the packets sent, in order, "
                   "otherwise only 'nothing received', and the receiver ends empty; C13_sender_wire ties the wire image to the senders' encoders; C13_polls_run relates the harness loop to the automaton.",
        level_note=NOTE_COMMON,
        streams=[dict(LNK, view="view_C13", ok="ok_C13")],
        rule=RULE_LNK,
    ),
    "C14": dict(
        vfiles=["Props/C14"],
        technique="Coq proof by induction over the device's answer list for each emission loop (block! retry, write_all, displaced report), against independently stated expectations; correspondence on scripted back-pressure, the encoded frames being taken from the implementation's own fragmentation and codecs",
        level_text="Theorems C14_usart / C14_usart_blocks (each byte exactly once, in order, under any would-block pattern; blocks rather than returns early), C14_can / C14_can_props (frames handed over once each, "
                   "in order, up to the first displaced report, which is returned), C14_serial (prefix property, Ok only if everything written and flushed, short writes and interruptions absorbed). C14_checker_accepts_model_can/_usart/_serial: the extracted checker provably accepts the model's observations.",
        level_note=NOTE_COMMON + " The emission loops are verified relative to fragmentation (C10) and the frame codecs (C08/C09): encoded frames are an input.",
        streams=[dict(SND, view="view_C14", ok="ok_C14")],
        rule=RULE_SND,
        assumptions=["hard write errors on USART are discarded by the code; the property demands error propagation only for the serial port and CAN (DESIGN.md section 9.3)"],
    ),
    "C15": dict(
        vfiles=["Props/C15"], tie_extra=["Generated/TieBroadcast"],
        technique="Coq proof: handle_packet characterised as a filter-map over the key-sorted registry (induction on the table), tick by case analysis on the link answer; correspondence on operation histories with logging handlers, the table being rebuilt from the ids the implementation returned",
        level_text="Theorems C15_tick (one get; packet delivered unmodified, once, in key order, to every handler if own/broadcast else to the capture-all handlers only; handlers' transmissions reach the link in order; "
                   "'nothing received' = Ok without calls; any other link error returned without calls; a handler's own-addressed sends are delivered, nested, once to every handler), C15_quiet, C15_selection, C15_handler_sends; for every table, own address (incl. 0xffff) and link answer. C15_checker_accepts_model: the extracted checker provably accepts the model's observations.",
        level_note=NOTE_COMMON + " Handler closures are modelled as scripts (label, capture flag, packets they send when invoked by a top-level dispatch; a send to the own address re-enters the dispatcher, one level deep); handlers that mutate the registry while being dispatched are outside the model.",
        streams=[dict(PRO, view="view_C15", ok="ok_C15")],
        rule=RULE_PRO,
    ),
    "C16": dict(
        vfiles=["Props/C16"], tie_extra=["Generated/TieBroadcast"],
        technique="Coq proof by case analysis on destination vs own address vs broadcast over the model of send_packet, using the handle_packet characterisation; correspondence on operation histories",
        level_text="Theorems C16_send (own address: every local handler once, not on the link, Ok; own = broadcast address: also transmitted and the link answer returned; other destination: transmitted once, "
                   "unmodified, no handler, link answer returned), C16_every_handler_once, C16_nested (the same rule for sends made by a handler from inside a dispatch) and C16_transmit. C16_checker_accepts_model: the extracted checker provably accepts the model's observations.",
        level_note=NOTE_COMMON,
        streams=[dict(PRO, view="view_C16", ok="ok_C16")],
        rule=RULE_PRO,
    ),
    "C17": dict(
        vfiles=["Props/C17"],
        technique="Coq proof: registry as key-sorted association list refining a finite set; get_next_handler_id returns the least free id (induction over the sorted keys), insert/remove change exactly one key and leave all other lookups unchanged; sortedness is an invariant of every history; correspondence on register/remove/deliver histories",
        level_text="Theorems C17_step (register: returned id is not registered - the least free one -, all other handlers unchanged; remove: exactly that handler goes, others unchanged; unknown id: 'no such handler', nothing changes), "
                   "C17_history (the invariant holds after every finite history), C17_only_live_invoked (a removed handler is never invoked). C17_checker_accepts_model: the extracted checker provably accepts the model's observations.",
        level_note=NOTE_COMMON + " BTreeMap is modelled as a key-sorted association list; the u32 id counter cannot overflow with fewer than 2^32 live handlers.",
        streams=[dict(PRO, view="view_C17", ok="ok_C17")],
        rule=RULE_PRO,
    ),
    "C18": dict(
        vfiles=["Props/C18"],
        technique="Coq proof by induction over the queue of incoming results (non-matching prefix skipped, first match / first 'nothing received' / first error decides), composed with the send_packet model; correspondence with an independently written queue scan as checker",
        level_text="Theorems C18_routing (request routed like a send; a send error returns before the wait callback), C18_single (first matching packet in arrival order, nothing after it consumed; dry link = timeout; "
                   "link error propagated), C18_multi (all matches in order, link drained), for all 16 kinds and both capture modes. C18_checker_accepts_model: the extracted checker provably accepts the model's observations.",
        level_note=NOTE_COMMON,
        streams=[dict(EXC, view="view_C18", ok="ok_C18"), dict(PRO, view="view_C18_PRO", ok="ok_C18_PRO")],
        rule=RULE_EXC,
    ),
    "C19": dict(
        vfiles=["Props/C19"],
        technique="Coq proof of the bookkeeping (receiver invariant over every traffic prefix: held <= announced <= 4096, released on delivery / reassembly error, body buffer <= announced length <= 255); heap bytes measured by a counting allocator after every poll and checked against 96 + 40 * announced(model)",
        level_text="Theorems C19_bound_bytes / C19_bound_can (after any prefix of any traffic the receiver holds at most the announced frame count <= 4096), C19_released, C19_body_bound; C19_bound_tokens_usart / _serial / _can (the same bound after every poll of EVERY raw device script: truncated link frames, faults inside frames, any arrangement of tokens); C19_checker_accepts_model_usart / _serial / _can: the extracted checker provably accepts the model's observation of every such script. "
                   "PARTIAL for bytes: the allocator (Vec capacities, size_of::<Frame>() = 18) is outside the model; the check measures live heap after every poll and compares it with the proved bound on held frames.",
        level_note=NOTE_COMMON + " Heap bytes are measured, not proved.",
        streams=[dict(RCV, view="view_C19", ok="ok_C19")],
        rule=RULE_RCV,
        assumptions=["amortised Vec growth: capacity <= max(4, 2*len) frames of 18 bytes plus the builder and one link-frame buffer: at most 96 + 40 * announced bytes"],
    ),
    "C07": dict(
        vfiles=["Props/C07"],
        technique="Coq proof: add_frame characterised against the independent predicate 'accepts' (iff), rejection reasons against reject_reason_applies, invariant wf_builder preserved over every finite history by induction, build characterised; correspondence + reference reassembler on generated histories",
        level_text="Theorems C07_accept_iff, C07_reject_reason, C07_no_panic, C07_new, C07_invariant (for EVERY finite history of well-formed frames after a start frame: 1 <= accepted <= announced <= 4096, "
                   "frames_left = announced - accepted without underflow), C07_build (complete iff exactly the announced number was accepted; payload = in-order concatenation). C07_checker_accepts_model: the extracted checker provably accepts the model's observations.",
        level_note=NOTE_COMMON,
        streams=[dict(BLD, view="view_C07", ok="ok_C07")],
        rule=RULE_BLD,
    ),
    "C10": dict(
        vfiles=["Props/C10"],
        technique="Coq proof that the index-arithmetic model of to_frames (as-u16 truncations, checked subtraction, checked slices) equals an independently written structural 7-byte chunker for all payloads up to 28672 bytes; correspondence frame-by-frame",
        level_text="Theorems C10_to_frames_spec (to_frames p = the reference fragmenter, never panics, for every packet up to 28672 bytes) and corollaries C10_single, C10_count, C10_multi_frame, "
                   "C10_chunks_concat, C10_frames_good (every frame well-formed, first data byte = low id byte, right id kind).",
        level_note=NOTE_COMMON,
        streams=[dict(FRG, view="view_C10", ok="ok_C10")],
        rule="stream FRG: " + RULE_PKT + "; the full frame list is compared field by field",
    ),
    "C03": dict(
        vfiles=["Props/C03"],
        technique="Coq proof (case analysis over 16 kinds + lia on big-endian arithmetic) of decode(encode e) = e over the model; model tied to code by differential correspondence on generated events",
        level_text="Theorem C03_roundtrip: for every well-formed event of all 16 kinds (all field values, data payloads of any length equal to the declared u16 length) "
                   "decode (kind_of e) (encode e) = Val e, the packet is a non-error packet addressed to the receiver (broadcast for the hello announcements). "
                   "A universally quantified round-trip is exactly what a proof settles and sampling cannot.",
        level_note=NOTE_COMMON,
        streams=[dict(EV, view="view_C03", ok="ok_C03")],
        rule="stream EV: for each of the 16 kinds, events with boundary-biased field values (0, 1, max, max-1, byte-swapped patterns, uniform), every "
             "brightness/relay/message variant, data payloads of boundary and random sizes up to 65535 bytes with constant/coloured/random bytes; "
             "a case is non-trivial when it is a distinct event value (distinct case lines are counted)",
        assumptions=["MessageValue padding bytes are unspecified and masked to zero on the implementation side"],
    ),
    "C04": dict(
        vfiles=["Props/C04"],
        technique="Coq proof: the COBS decoder model (crate automaton with bounded destination) only outputs bytes, the length guards discharge every checked index, accepted frames satisfy wf_frame; CAN side via the arithmetic layout theorem; correspondence on malformed byte strings and all driver frame shapes",
        level_text="Theorems C04_usart_total (every byte string of any length: value or error, never a panic; accepted frames are well-formed), C04_can_total (every driver-"
                   "constructible CAN frame), C04_reencode (a well-formed frame re-encodes for both links and enters reassembly without a panic; the stream also builds a small packet completed around every accepted frame), C04_checker_accepts_model(_can) (the extracted checkers provably accept the model's observations).",
        level_note=NOTE_COMMON + " The cobs crate is modelled by hand (Model/Cobs.v) and exercised through the codec by the streams.",
        streams=[dict(USD, view="view_C04_USD", ok="ok_C04_USD"), dict(CAD, view="view_C04_CAD", ok="ok_C04_CAD")],
        rule=RULE_USD + "; " + RULE_CAD,
        assumptions=["'without failure' = re-encoding and feeding to reassembly never panic (reassembly may reject with an error value)"],
    ),
    "C08": dict(
        vfiles=["Props/C08"],
        technique="Coq proof: shifts/masks rewritten to div/mod (N.shiftr_div_pow2, N.land_ones, disjoint lor = +), flag x nibble combinations by a 128-point vm_compute sweep lifted with forallb_forall, lia; correspondence on all 8192 upper-bit patterns",
        level_text="Theorems C08_encode_layout (identifier = ne*2^28+st*2^27+mf*2^26+(id/256)*2^16+addr, extended data frame, payload = data bytes), C08_decode_layout (for every "
                   "driver-constructible frame the decoder equals the arithmetic layout), C08_reserved_ignored, C08_rejects, C08_roundtrip (for every fragment-shaped frame), C08_checker_accepts_model_encode/_decode.",
        level_note=NOTE_COMMON,
        streams=[dict(CAE, view="view_C08_CAE", ok="ok_C08_CAE"), dict(CAD, view="view_C08_CAD", ok="ok_C08_CAD")],
        rule=RULE_FR + "; " + RULE_CAD,
    ),
    "C09": dict(
        vfiles=["Props/C09"],
        technique="Coq proof: COBS round trip by induction over the input generalised over the current run and block-boundary state; header bits by a 128-point sweep; layout and size-mismatch theorems; correspondence on generated frames and COBS-encoded bodies",
        level_text="Theorems C09_layout, C09_roundtrip (decode(encode f) = f, no zero byte, length = dlen + 6), C09_length_bound (<= 14), C09_decode_all (every 5..13-byte body), "
                   "C09_size_mismatch, C09_cobs_roundtrip, C09_checker_accepts_model_encode/_decode.",
        level_note=NOTE_COMMON + " The cobs crate is modelled by hand (Model/Cobs.v).",
        streams=[dict(USE, view="view_C09_USE", ok="ok_C09_USE"), dict(USD, view="view_C09_USD", ok="ok_C09_USD")],
        rule=RULE_FR + "; " + RULE_USD,
    ),
    "C05": dict(
        vfiles=["Props/C05"], tie_extra=["Generated/TieGuards"],
        technique="Coq proof by case analysis over the 16 decoders and the shape of the payload (sub-value decoders characterised by lemmas), against an independently written specification of lengths and rejection reasons; correspondence on generated malformed and valid packets",
        level_text="Theorem C05_exact: for every kind and every packet of bytes the decoder returns a value or an error value (never panics); a value only for a "
                   "non-error packet with the kind's code and exactly the layout's length, in the domain and stable under re-encoding; every reported rejection "
                   "reason truly applies. Quantifies over all payload lengths and bytes, which no finite sample covers.",
        level_note=NOTE_COMMON + " On the implementation side the raw repr(C) image of a decoded MessageValue is inspected before it is matched on (INVALID if tag > 3 or Bool byte > 1).",
        streams=[dict(DEC, view="view_C05", ok="ok_C05")],
        rule=RULE_DEC,
        assumptions=["BcmValue::Binary decodes any non-zero flag byte as true: inside the domain and stable under re-encoding, so not a violation (DESIGN.md section 9.1)"],
    ),
    "C11": dict(
        vfiles=["Props/C11"], tie_extra=["Generated/TieCodes", "Generated/TieEncCodes", "Generated/TieBroadcast"],
        technique="Coq proof that every encoder equals an independently written table-driven layout serialiser, and that an independently written strict reference decoder inverts that layout (so the decoders agree with it); event codes re-translated from the source and the tie re-proved each run; correspondence on generated events/packets",
        level_text="Theorems C11_encode_layout (encode e = layout_encode e for every well-formed event), C11_codes (the code table), C11_ref_sound and C11_decode_agrees "
                   "(whenever the reference decoder accepts a packet, the decoder returns the same value). Generated/TieCodes.v re-proves on every run that the event "
                   "code constants in src/event/event_code.rs are that table.",
        level_note=NOTE_COMMON,
        streams=[dict(EV, view="view_C11_EV", ok="ok_C11_EV"), dict(DEC, view="view_C11_DEC", ok="ok_C11_DEC")],
        rule=RULE_EV + "; " + RULE_DEC,
        assumptions=["MessageValue padding bytes are unspecified and masked to zero on the implementation side", "little-endian host for the MessageValue image"],
    ),
    "C12": dict(
        vfiles=["Props/C12"], tie_extra=["Generated/TieNoDup", "Generated/TieDecCodes"],
        technique="Coq proof: acceptance by any decoder forces the packet's leading code to equal the kind's code, and the code table is injective (also re-proved NoDup over the constants re-read from the source); correspondence on the 16-decoder acceptance vector",
        level_text="Theorems C12_unique (for ANY packet at most one of the 16 decoders returns a value), C12_cross (the encoding of an event is rejected with an error "
                   "value by each of the 15 other decoders), C12_codes_injective, C12_checker_accepts_model_packets/_events (the extracted checker provably accepts the model's flags); Generated/TieNoDup.v re-proves pairwise distinctness of the codes as the source states them.",
        level_note=NOTE_COMMON,
        streams=[dict(AMB, view="view_C12", ok="ok_C12")],
        rule=RULE_AMB,
        assumptions=["a decoder that panics or materialises an invalid value counts as a failure of C12's classification too"],
    ),
}
