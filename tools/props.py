"""Per-property configuration of ./check: which Coq files hold the theorems, which correspondence
streams are run, through which view they are compared and which checker is applied."""

TIE_THEOREMS = ["tie_codes", "tie_codes_table", "tie_no_extra", "tie_codes_nodup", "tie_broadcast"]

EV = dict(stream="EV", module="RP.Glue.StreamEV")

DEC = dict(stream="DEC", module="RP.Glue.StreamDEC")
AMB = dict(stream="AMB", module="RP.Glue.StreamDEC")

RULE_DEC = ("stream DEC (decoder kind, packet): every decoder x every payload length 0..=70 with the kind's code in place and tag-like bytes; "
            "valid encodings from an independent layout table, each perturbed (error flag, every code 0..=0x12/0xffff, length +-1, truncation at a random "
            "point, bit flip, foreign decoder, every variant tag and flag byte 0..=255, 32-bit message tags incl. >= 256, non-zero padding, declared data "
            "length 0/1/+-1/near 65535); data events declaring up to 65535 bytes; random packets against random decoders; distinct case lines are counted")
RULE_EV = ("stream EV: for each of the 16 kinds, events with boundary-biased and tag-like field values, every brightness/relay/message variant, data payloads of "
           "boundary and random sizes up to 65535 bytes; distinct case lines are counted")
RULE_AMB = ("stream AMB: packets of stream DEC (each offered to all 16 decoders) and encodings of generated events of every kind with tag-like field values "
            "(offered to all 16 decoders: the 16 x 16 encoder/decoder matrix); distinct case lines are counted")

HOOK_COMMITS = ["c3ab119"]
NOT_APPLICABLE = {}

NOTE_COMMON = ("Proved of the hand-written Gallina model (no axioms; Print Assumptions audited on every run); the model is tied to the code by the "
               "correspondence streams (real Rust code vs. extracted model on generated cases, compared through the property's view) and, for the "
               "event codes, by constants re-translated from the source. Trusted: Coq kernel + vm_compute, ExtrOcamlBasic extraction, harness, runner, check script.")


PROPS = {
    "C03": dict(
        vfiles=["Props/C03"],
        technique="Coq proof (case analysis over 16 kinds + lia on big-endian arithmetic) of decode(encode e) = e over the model; model tied to code by differential correspondence on generated events",
        level_text="Theorem C03_roundtrip: for every well-formed event of all 16 kinds (all field values, data payloads of any length equal to the declared u16 length) "
                   "decode (kind_of e) (encode e) = Val e, the packet is a non-error packet addressed to the receiver (broadcast for the hello announcements). "
                   "A universally quantified round-trip is exactly what a proof settles and sampling cannot.",
        level_note=NOTE_COMMON,
        streams=[dict(EV, view="view_C03", ok="ok_C03")],
        rule="stream EV: for each of the 16 kinds, events with boundary-biased field values (0, 1, max, max-1, byte-swapped patterns, uniform), every "
             "brightness/relay/message variant, data payloads of boundary and random sizes up to 65535 bytes with constant/coloured/random bytes; "
             "a case is non-trivial when it is a distinct event value (distinct case lines are counted)",
        assumptions=["MessageValue padding bytes are unspecified and masked to zero on the implementation side"],
    ),
    "C05": dict(
        vfiles=["Props/C05"],
        technique="Coq proof by case analysis over the 16 decoders and the shape of the payload (sub-value decoders characterised by lemmas), against an independently written specification of lengths and rejection reasons; correspondence on generated malformed and valid packets",
        level_text="Theorem C05_exact: for every kind and every packet of bytes the decoder returns a value or an error value (never panics); a value only for a "
                   "non-error packet with the kind's code and exactly the layout's length, in the domain and stable under re-encoding; every reported rejection "
                   "reason truly applies. Quantifies over all payload lengths and bytes, which no finite sample covers.",
        level_note=NOTE_COMMON + " On the implementation side the raw repr(C) image of a decoded MessageValue is inspected before it is matched on (INVALID if tag > 3 or Bool byte > 1).",
        streams=[dict(DEC, view="view_C05", ok="ok_C05")],
        rule=RULE_DEC,
        assumptions=["BcmValue::Binary decodes any non-zero flag byte as true: inside the domain and stable under re-encoding, so not a violation (DESIGN.md section 9.1)"],
    ),
    "C11": dict(
        vfiles=["Props/C11"], tie=True,
        technique="Coq proof that every encoder equals an independently written table-driven layout serialiser, and that an independently written strict reference decoder inverts that layout (so the decoders agree with it); event codes re-translated from the source and the tie re-proved each run; correspondence on generated events/packets",
        level_text="Theorems C11_encode_layout (encode e = layout_encode e for every well-formed event), C11_codes (the code table), C11_ref_sound and C11_decode_agrees "
                   "(whenever the reference decoder accepts a packet, the decoder returns the same value). Generated/Tie.v re-proves on every run that the event "
                   "code constants in src/event/event_code.rs are that table.",
        level_note=NOTE_COMMON,
        streams=[dict(EV, view="view_C11_EV", ok="ok_C11_EV"), dict(DEC, view="view_C11_DEC", ok="ok_C11_DEC")],
        rule=RULE_EV + "; " + RULE_DEC,
        assumptions=["MessageValue padding bytes are unspecified and masked to zero on the implementation side", "little-endian host for the MessageValue image"],
    ),
    "C12": dict(
        vfiles=["Props/C12"], tie=True,
        technique="Coq proof: acceptance by any decoder forces the packet's leading code to equal the kind's code, and the code table is injective (also re-proved NoDup over the constants re-read from the source); correspondence on the 16-decoder acceptance vector",
        level_text="Theorems C12_unique (for ANY packet at most one of the 16 decoders returns a value), C12_cross (the encoding of an event is rejected with an error "
                   "value by each of the 15 other decoders), C12_codes_injective; Generated/Tie.v re-proves pairwise distinctness of the codes as the source states them.",
        level_note=NOTE_COMMON,
        streams=[dict(AMB, view="view_C12", ok="ok_C12")],
        rule=RULE_AMB,
        assumptions=["a decoder that panics or materialises an invalid value counts as a failure of C12's classification too"],
    ),
}
