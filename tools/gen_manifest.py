#!/usr/bin/env python3
"""writes MANIFEST.json from tools/props.py so the two never drift apart"""
import json, os, sys
ROOT = os.path.join(os.path.dirname(os.path.abspath(__file__)), "..")
sys.path.insert(0, os.path.dirname(os.path.abspath(__file__)))
import props as P

ALL = ["C%02d" % i for i in range(1, 20)]
checks = []
for pid in ALL:
    if pid not in P.PROPS:
        continue
    c = P.PROPS[pid]
    checks.append(dict(
        property_id=pid,
        quick_cmd="./check %s quick" % pid,
        thorough_cmd="./check %s thorough" % pid,
        evidence_file="evidence/%s.json" % pid,
        replay_cmd_template="./check %s --replay {path}" % pid,
        engine="coq-model+correspondence",
        level_claimed=dict(category="proof", text=c["level_text"], design_ref=c.get("design_ref", "DESIGN.md sections 6 (theorems) and 7 (readings)")),
        level_note=c["level_note"],
        technique=c["technique"],
    ))
na = [dict(property_id=pid, reason=P.NOT_APPLICABLE.get(pid, "not yet claimed in this revision: model and correspondence stream for it are still being built (see DESIGN.md section 12)"))
      for pid in ALL if pid not in P.PROPS]
m = dict(
    version=1,
    setup_cmd="./setup.sh",
    hooks=dict(
        guard="ross_protocol_verif",
        enable="cargo feature: the harness crate depends on ross-protocol (path /repo) with features [\"std\", \"ross_protocol_verif\"]; the feature swaps the bxCAN register driver in src/interface/can.rs for a scriptable stand-in",
        baseline_off_cmd="cd /repo && cargo test --workspace --no-fail-fast --offline",
        source_commits=P.HOOK_COMMITS,
        add_only=True,
    ),
    engines=[dict(name="coq-model+correspondence", path="/verif/coq, /verif/harness, /verif/runner, /verif/check",
                  serves_properties=[c["property_id"] for c in checks],
                  kind_free_text="Coq 8.16.1 theorems over a hand-written executable Gallina model of the library; the model is extracted to OCaml and "
                                 "compared with the real Rust code on generated cases through per-property views; per-property checkers (extracted from the "
                                 "specification) search the implementation's observations for a failing input; event-code constants are re-translated from the "
                                 "source and the tie re-proved on every run")],
    checks=checks,
    notes="All checks rebuild the harness against /repo's working tree on every run. Known findings: known_findings.json (7 defects repaired by fix: commits).",
    not_applicable=na,
)
json.dump(m, open(os.path.join(ROOT, "MANIFEST.json"), "w"), indent=1)
print("MANIFEST.json: %d checks, %d not claimed" % (len(checks), len(na)))
