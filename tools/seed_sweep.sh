#!/bin/bash
# runs every quick check on the unchanged tree under several seeds: any non-zero exit is a false alarm of the machinery
cd "$(dirname "$0")/.."
for seed in "$@"; do
  for p in C01 C02 C03 C04 C05 C06 C07 C08 C09 C10 C11 C12 C13 C14 C15 C16 C17 C18 C19; do
    o=$(VERIF_SEED=$seed ./check $p quick 2>&1); rc=$?
    echo -e "seed=$seed\t$p\trc=$rc\t$(echo "$o" | grep -E 'VIOLATION|INTERNAL' | head -1)"
  done
done
