#!/bin/bash
# seedtest.sh <patch.diff> <prop> [<prop>...] : apply a seeded change to /repo, run the quick checks, undo it.
patch="$1"; shift
cd /repo || exit 2
if [ -n "$(git status --porcelain --untracked-files=no)" ]; then echo "/repo not clean"; exit 2; fi
git apply "$patch" || { echo "patch does not apply"; exit 2; }
trap 'git -C /repo checkout -- . ' EXIT
cd /verif
for p in "$@"; do
  out=$(./check "$p" quick 2>&1); rc=$?
  echo "== $p rc=$rc $(echo "$out" | grep -E 'VIOLATION|INTERNAL|KNOWN' | head -3)"
done
