#!/bin/bash
# seedtest.sh <patch.diff> <prop> [<prop>...] : run quick checks against a scratch copy of /repo with the seeded change applied
# (RP_REPO), so that /repo itself is never touched.
patch="$1"; shift
cd "$(dirname "$0")/.."
scratch=/tmp/rp-seedtest-$$
rm -rf $scratch; mkdir -p $scratch
git -C /repo archive HEAD | tar -x -C $scratch
cp /repo/Cargo.lock $scratch/ 2>/dev/null
( cd $scratch && git init -q . && git apply "$patch" ) || { echo "patch does not apply"; rm -rf $scratch; exit 2; }
trap 'rm -rf '$scratch'; rm -rf build/cargo-target-* build/harness-*' EXIT
for p in "$@"; do
  out=$(RP_REPO=$scratch ./check "$p" quick 2>&1); rc=$?
  echo "== $p rc=$rc $(echo "$out" | grep -E 'VIOLATION|INTERNAL|KNOWN' | head -3)"
done
