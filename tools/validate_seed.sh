#!/bin/bash
# validate_seed.sh <dir with patch.diff demo.rs meta.json> : confirm in a scratch worktree that the change compiles, keeps the 51 tests
# passing, and that the demonstration fails with it and passes without it.  Prints one summary line.
d="$1"; wt=/tmp/wt-validate-$$
git -C /repo worktree add -q --detach $wt HEAD || exit 2
trap 'git -C /repo worktree remove --force '$wt' 2>/dev/null' EXIT
cd $wt; export CARGO_TARGET_DIR=$wt/target CARGO_NET_OFFLINE=true
feat=$(python3 -c "
import json,re,sys
m=json.load(open('$d/meta.json')); c=m.get('demo_cmd','')
f=re.search(r'--features\s+\"?([a-z_ ]+?)\"?(\s+--|\s*$)', c)
print(f.group(1).strip() if f else '')")
fa=""; [ -n "$feat" ] && fa="--features"
mkdir -p tests; cp "$d/demo.rs" tests/demo.rs
clean=$(cargo test --offline $fa "$feat" --test demo 2>&1 | grep -E "^test result" | head -1)
git apply "$d/patch.diff" || { echo "PATCH-FAILS"; exit 1; }
b1=$(cargo build --offline 2>&1 | grep -cE "^error")
b2=$(cargo build --offline --features "std ross_protocol_verif" 2>&1 | grep -cE "^error")
rm tests/demo.rs
suite=$(cargo test --workspace --no-fail-fast --offline 2>&1 | grep -E "^test result" | head -1)
cp "$d/demo.rs" tests/demo.rs
mut=$(cargo test --offline $fa "$feat" --test demo 2>&1 | grep -E "^test result" | head -1)
echo "clean-demo: $clean | build-errors: $b1/$b2 | suite-with-change: $suite | demo-with-change: $mut"
