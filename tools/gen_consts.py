#!/usr/bin/env python3
"""Constants translator (tie 2): re-reads the event code table and the broadcast address from the
Rust source and writes coq/Generated/SourceConsts.v.  Generated/TieCodes.v / TieNoDup.v / TieBroadcast.v then re-prove that these
are the constants the model and the specification use, and that the codes are pairwise distinct."""
import re, sys, os

REPO = os.environ.get("RP_REPO", "/repo")
OUT = os.path.join(os.path.dirname(os.path.abspath(__file__)), "..", "coq", "Generated", "SourceConsts.v")

ORDER = ["BOOTLOADER_HELLO", "PROGRAMMER_HELLO", "PROGRAMMER_START_FIRMWARE_UPGRADE", "ACK", "DATA", "CONFIGURATOR_HELLO",
         "BCM_CHANGE_BRIGHTNESS", "BUTTON_PRESSED", "BUTTON_RELEASED", "INTERNAL_SYSTEM_TICK", "PROGRAMMER_START_CONFIG_UPGRADE",
         "PROGRAMMER_SET_DEVICE_ADDRESS", "MESSAGE", "BCM_ANIMATE_BRIGHTNESS", "RELAY_SET_VALUE", "GATEWAY_DISCOVER"]

def parse_int(s):
    s = s.replace("_", "").strip()
    return int(s, 16) if s.lower().startswith("0x") else int(s)

def main():
    problems = []
    consts = {}
    src = open(os.path.join(REPO, "src/event/event_code.rs")).read()
    for m in re.finditer(r"pub\s+const\s+([A-Z0-9_]+)_EVENT_CODE\s*:\s*u16\s*=\s*([0-9a-fA-Fx_]+)\s*;", src):
        consts[m.group(1)] = parse_int(m.group(2))
    vals = []
    for name in ORDER:
        if name not in consts:
            problems.append("event code constant %s_EVENT_CODE not found as an integer literal" % name)
            vals.append(None)
        else:
            vals.append(consts[name])
    extra = sorted(set(consts) - set(ORDER))
    psrc = open(os.path.join(REPO, "src/protocol.rs")).read()
    m = re.search(r"pub\s+const\s+BROADCAST_ADDRESS\s*:\s*u16\s*=\s*([0-9a-fA-Fx_]+)\s*;", psrc)
    bcast = parse_int(m.group(1)) if m else None
    if bcast is None:
        problems.append("BROADCAST_ADDRESS not found as an integer literal")
    lines = ["(* GENERATED on every run by tools/gen_consts.py from /repo/src/event/event_code.rs and /repo/src/protocol.rs - do not edit *)",
             "Require Import RP.Model.Base.",
             "(* None = the constant is not written as an integer literal (not tied; the correspondence streams still cover it) *)",
             "Definition source_codes : list (option N) := [%s]." % "; ".join(("Some %d" % v) if v is not None else "None" for v in vals),
             "Definition source_extra_codes : list N := [%s]." % "; ".join(str(consts[k]) for k in extra),
             "Definition source_broadcast : option N := %s." % (("Some %d" % bcast) if bcast is not None else "None"),
             "(* problems: %s *)" % ("; ".join(problems) if problems else "none"), ""]
    text = "\n".join(lines)
    old = open(OUT).read() if os.path.exists(OUT) else None
    if old != text:
        os.makedirs(os.path.dirname(OUT), exist_ok=True)
        open(OUT, "w").write(text)
    for p in problems:
        print("gen_consts: " + p, file=sys.stderr)
    return 0

if __name__ == "__main__":
    sys.exit(main())
