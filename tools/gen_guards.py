#!/usr/bin/env python3
"""Translator (tie 3): re-reads, for each of the 16 ConvertPacket implementations in /repo/src/event/*.rs, the FIRST size
guard of try_from_packet (`packet.data.len() != N` / `< N`), the event-code constant the decoder compares with and the one
the encoder emits, and writes coq/Generated/SourceGuards.v.  A construct that is not in the recognised form is written as
None and is simply not tied (the correspondence streams still cover it); a recognised one must equal the model's table
(Generated/TieGuards.v, re-proved on every run)."""
import re, os, sys
REPO = os.environ.get("RP_REPO", "/repo")
OUT = os.path.join(os.path.dirname(os.path.abspath(__file__)), "..", "coq", "Generated", "SourceGuards.v")
STRUCTS = ["BootloaderHelloEvent", "ProgrammerHelloEvent", "ProgrammerStartFirmwareUpgradeEvent", "AckEvent", "DataEvent", "ConfiguratorHelloEvent",
           "BcmChangeBrightnessEvent", "ButtonPressedEvent", "ButtonReleasedEvent", "SystemTickEvent", "ProgrammerStartConfigUpgradeEvent",
           "ProgrammerSetDeviceAddressEvent", "MessageEvent", "BcmAnimateBrightnessEvent", "RelaySetValueEvent", "GatewayDiscoverEvent"]
CODES = ["BOOTLOADER_HELLO", "PROGRAMMER_HELLO", "PROGRAMMER_START_FIRMWARE_UPGRADE", "ACK", "DATA", "CONFIGURATOR_HELLO",
         "BCM_CHANGE_BRIGHTNESS", "BUTTON_PRESSED", "BUTTON_RELEASED", "INTERNAL_SYSTEM_TICK", "PROGRAMMER_START_CONFIG_UPGRADE",
         "PROGRAMMER_SET_DEVICE_ADDRESS", "MESSAGE", "BCM_ANIMATE_BRIGHTNESS", "RELAY_SET_VALUE", "GATEWAY_DISCOVER"]

def strip_comments(s):
    s = re.sub(r"//[^\n]*", "", s)
    return re.sub(r"/\*.*?\*/", "", s, flags=re.S)

def expr_value(e):
    e = e.strip()
    e = re.sub(r"size_of::<\s*MessageValue\s*>\(\)", "8", e)
    if re.fullmatch(r"[0-9x_a-fA-F+\s]+", e):
        try:
            return sum(int(t.strip().replace("_", ""), 0) for t in e.split("+"))
        except ValueError:
            return None
    return None

def main():
    src = ""
    d = os.path.join(REPO, "src", "event")
    for f in sorted(os.listdir(d)):
        if f.endswith(".rs"):
            src += strip_comments(open(os.path.join(d, f)).read()) + "\n"
    guards, dcodes, ecodes = [], [], []
    for name in STRUCTS:
        m = re.search(r"impl\s+ConvertPacket<\s*%s\s*>\s+for\s+%s\s*\{(.*?)\n\}" % (name, name), src, re.S)
        g = dc = ec = None
        if m:
            body = m.group(1)
            mt = re.search(r"fn\s+try_from_packet\b(.*?)fn\s+to_packet\b(.*)", body, re.S)
            if mt:
                dec, enc = mt.group(1), mt.group(2)
                mg = re.search(r"if\s+packet\.data\.len\(\)\s*(!=|<)\s*([^\{]+?)\s*\{\s*return\s+Err\(\s*ConvertPacketError::WrongSize\s*\)", dec)
                # only the FIRST guard of the function counts, and only if nothing but whitespace precedes it after the signature
                if mg and re.fullmatch(r"\s*\([^)]*\)\s*->\s*Result<[^{]*\{\s*", dec[:mg.start()]):
                    v = expr_value(mg.group(2))
                    if v is not None:
                        g = (mg.group(1) == "!=", v)
                md = re.findall(r"!=\s*([A-Z_]+)_EVENT_CODE", dec)
                if len(md) == 1 and md[0] in CODES:
                    dc = CODES.index(md[0])
                me = re.findall(r"to_be_bytes\(\s*([A-Z_]+)_EVENT_CODE\s*\)", enc)
                if len(me) == 1 and me[0] in CODES:
                    ec = CODES.index(me[0])
        guards.append(g); dcodes.append(dc); ecodes.append(ec)
    def opt(x, f):
        return "None" if x is None else "Some %s" % f(x)
    lines = ["(* GENERATED on every run by tools/gen_guards.py from /repo/src/event/*.rs - do not edit *)",
             "Require Import RP.Model.Base.",
             "(* first size guard of each decoder: (true, n) = 'len != n', (false, n) = 'len < n'; None = not in the recognised form *)",
             "Definition source_guards : list (option (bool * nat)) := [%s]." % "; ".join(opt(g, lambda g: "(%s, %d%%nat)" % ("true" if g[0] else "false", g[1])) for g in guards),
             "(* index (in kind order) of the event-code constant each decoder compares with / each encoder emits *)",
             "Definition source_decoder_codes : list (option nat) := [%s]." % "; ".join(opt(c, lambda c: "%d%%nat" % c) for c in dcodes),
             "Definition source_encoder_codes : list (option nat) := [%s]." % "; ".join(opt(c, lambda c: "%d%%nat" % c) for c in ecodes), ""]
    text = "\n".join(lines)
    old = open(OUT).read() if os.path.exists(OUT) else None
    if old != text:
        open(OUT, "w").write(text)
    n = sum(1 for x in guards + dcodes + ecodes if x is not None)
    print("gen_guards: %d of 48 constructs recognised" % n, file=sys.stderr)
    return 0

if __name__ == "__main__":
    sys.exit(main())
