#!/bin/bash
# runs every thorough check once and prints a timing / verdict table
cd "$(dirname "$0")/.."
for p in C01 C02 C03 C04 C05 C06 C07 C08 C09 C10 C11 C12 C13 C14 C15 C16 C17 C18 C19; do
  s=$(date +%s); o=$(./check $p thorough 2>&1); rc=$?; e=$(date +%s)
  echo -e "$p\trc=$rc\t$((e-s))s\t$(echo "$o" | grep -E 'VIOLATION|INTERNAL|\[check\] C' | tail -1)"
done
