#!/bin/bash
# matrix.sh <out.tsv> [seed dirs...] : run every quick check against every seeded change, each applied to a scratch copy of /repo
# (RP_REPO), so that /repo itself is not touched.  PROPS="C03 C11" restricts the columns.  One line per (seed, property): rc and the VIOLATION line.
out="$1"; shift
cd "$(dirname "$0")/.."; VROOT=$(pwd)
scratch=/tmp/rp-matrix-$$
for d in "$@"; do
  rm -rf $scratch; mkdir -p $scratch
  git -C /repo archive HEAD | tar -x -C $scratch
  cp /repo/Cargo.lock $scratch/ 2>/dev/null
  ( cd $scratch && git init -q . && git apply "$d/patch.diff" ) || { echo -e "$d\tPATCH-FAILS" >> $out; continue; }
  for p in ${PROPS:-C01 C02 C03 C04 C05 C06 C07 C08 C09 C10 C11 C12 C13 C14 C15 C16 C17 C18 C19}; do
    o=$(RP_REPO=$scratch ./check $p quick 2>&1); rc=$?
    echo -e "$(basename $(dirname $d))/$(basename $d)\t$p\t$rc\t$(echo "$o" | grep -E 'VIOLATION|INTERNAL' | head -1 | sed 's/replay=[^ ]*//')" >> $out
  done
done
rm -rf $scratch $VROOT/build/cargo-target-* $VROOT/build/harness-*
