#!/bin/bash
# final_targets.sh <out.tsv> <seed dirs...> : for every seeded change run the quick check of the property it was written against (plus, for
# changes known to be reported by a neighbouring property, those as well), each against a scratch copy of /repo with the patch applied (RP_REPO).
out="$1"; shift
cd "$(dirname "$0")/.."; VROOT=$(pwd)
scratch=/tmp/rp-final-$$
for d in "$@"; do
  prop=$(python3 -c "import json;print(json.load(open('$d/meta.json'))['property'])")
  extra=$(python3 -c "
import json;m=json.load(open('$d/meta.json'));print(' '.join(m.get('also_check',[])))")
  rm -rf $scratch; mkdir -p $scratch
  git -C /repo archive HEAD | tar -x -C $scratch
  cp /repo/Cargo.lock $scratch/ 2>/dev/null
  ( cd $scratch && git init -q . && git apply "$d/patch.diff" ) || { echo -e "$d\tPATCH-FAILS" >> $out; continue; }
  for p in $prop $extra; do
    o=$(RP_REPO=$scratch ./check $p quick 2>&1); rc=$?
    echo -e "$(basename $(dirname $d))/$(basename $d)\t$p\t$rc\t$(echo "$o" | grep -E 'VIOLATION|INTERNAL' | head -1 | sed 's/replay=[^ ]*//')" >> $out
  done
done
rm -rf $scratch $VROOT/build/cargo-target-* $VROOT/build/harness-*
