#!/usr/bin/env python3
"""collect_seeds.py <matrix.tsv>... : copy the validated seeded changes from seeded_staging/ into seeded/<id>/ (patch.diff, demo.rs,
meta.json) and write seeded/MATRIX.md from the matrix files produced by tools/matrix.sh."""
import json, os, sys, shutil, collections
ROOT = os.path.join(os.path.dirname(os.path.abspath(__file__)), "..")
ST = os.path.join(ROOT, "seeded_staging")
OUT = os.path.join(ROOT, "seeded")
PROPS = ["C%02d" % i for i in range(1, 20)]
cells = collections.defaultdict(dict)
for f in sys.argv[1:]:
    for line in open(f):
        parts = line.rstrip("\n").split("\t")
        if len(parts) < 3 or not parts[1].startswith("C"):
            continue
        seed, prop, rc = parts[0], parts[1], parts[2]
        msg = parts[3] if len(parts) > 3 else ""
        cells[seed][prop] = ("V" if "VIOLATION" in msg and "no-failing-input-found" not in msg else "d" if "no-failing-input-found" in msg else "!" if rc not in ("0", "1") else ".")
os.makedirs(OUT, exist_ok=True)
rows = []
for grp in sorted(os.listdir(ST)):
    if grp in ("R", "Z") or not os.path.isdir(os.path.join(ST, grp)):
        continue
    for m in sorted(os.listdir(os.path.join(ST, grp))):
        d = os.path.join(ST, grp, m)
        if not os.path.exists(os.path.join(d, "patch.diff")):
            continue
        sid = "%s-%s" % (grp, m)
        meta = json.load(open(os.path.join(d, "meta.json")))
        o = os.path.join(OUT, sid)
        os.makedirs(o, exist_ok=True)
        shutil.copy(os.path.join(d, "patch.diff"), o)
        shutil.copy(os.path.join(d, "demo.rs"), o)
        row = cells.get("%s/%s" % (grp, m), {})
        meta_out = dict(
            id=sid,
            property_broken=meta.get("property"),
            summary=meta.get("summary"),
            needs_to_manifest=meta.get("needs_to_manifest"),
            files_changed=meta.get("files_changed"),
            demo_cmd=meta.get("demo_cmd"),
            author="independent sub-agent given only the property text and a scratch worktree of /repo",
            validated=dict(
                how="tools/validate_seed.sh in a scratch worktree of /repo HEAD: demo passes on the clean checkout; patch applies; cargo build and cargo build --features 'std ross_protocol_verif' succeed; "
                    "cargo test --workspace --no-fail-fast --offline passes 51/51 with the change; demo fails with the change",
                result="confirmed"),
            checks=dict(
                how="tools/matrix.sh: every quick check run with RP_REPO pointing at a scratch copy of /repo with the patch applied (V = VIOLATION with a failing input, d = VIOLATION ... no-failing-input-found, . = exit 0)",
                reported_with_failing_input=[p for p in PROPS if row.get(p) == "V"],
                reported_without_failing_input=[p for p in PROPS if row.get(p) == "d"],
                silent=[p for p in PROPS if row.get(p) == "."],
                not_run=[p for p in PROPS if p not in row or row.get(p) == "!"]),
        )
        json.dump(meta_out, open(os.path.join(o, "meta.json"), "w"), indent=1)
        rows.append((sid, meta.get("property"), row, (meta.get("summary") or "")[:90]))
with open(os.path.join(OUT, "MATRIX.md"), "w") as f:
    f.write("# Seeded changes x quick checks\n\nFull rows were produced by tools/matrix.sh in `vp run` snapshots of /verif taken while the checks were still being strengthened (an off-target cell may predate a later strengthening); the cell of the property each change was written against - and of the neighbouring property named in its meta.json `also_check`, where the alarm belongs to that property - and every harmless row were re-run at /verif commit %s (tools/final_targets.sh, tools/matrix.sh).\n\n" % os.environ.get("MATRIX_COMMIT", "(see git log)") + "V = VIOLATION with a failing input as replay; d = VIOLATION ... no-failing-input-found (correspondence no longer checks, no failing input found); "
            ". = exit 0; blank = not run. The column 'breaks' is the property the change was written against.\n\n")
    f.write("| seed | breaks | " + " | ".join(p[1:] for p in PROPS) + " | change |\n|---|---|" + "---|" * len(PROPS) + "---|\n")
    for sid, prop, row, summ in rows:
        f.write("| %s | %s | %s | %s |\n" % (sid, prop, " | ".join(row.get(p, " ") for p in PROPS), summ.replace("|", "/")))
# ---- harmless rewrites (must stay silent) and patches against the repository's own history
H = os.path.join(OUT, "harmless"); os.makedirs(H, exist_ok=True)
hnotes = {"h1": "to_frames: `len <= 8` written as `len < 9`", "h2": "a decoder's size and error-type guards swapped (both reject; the order is not observable through the properties' views)",
          "h3": "USART decoder: the two halves of the size condition reordered", "h4": "USART receiver body loop `while len < n` written as `for _ in 0..n`"}
hrows = []
for h in sorted(os.listdir(os.path.join(ST, "Z")), key=lambda x: int(x[1:])):
    d = os.path.join(ST, "Z", h); o = os.path.join(H, h); os.makedirs(o, exist_ok=True)
    shutil.copy(os.path.join(d, "patch.diff"), o)
    meta = json.load(open(os.path.join(d, "meta.json"))) if os.path.exists(os.path.join(d, "meta.json")) else {"summary": hnotes.get(h, "")}
    row = cells.get("Z/%s" % h, {})
    meta_out = dict(id="harmless-" + h, summary=meta.get("summary"), why_harmless=meta.get("why_harmless"), files_changed=meta.get("files_changed"),
                    author="hand-written" if h in hnotes else "independent sub-agent given the 19 property texts and a scratch worktree of /repo, asked for risky-looking but property-preserving rewrites",
                    checks=dict(how="tools/matrix.sh (every quick check, RP_REPO = scratch copy with the patch)", alarms=[p for p in PROPS if row.get(p) in ("V", "d")],
                                silent=[p for p in PROPS if row.get(p) == "."], not_run=[p for p in PROPS if p not in row or row.get(p) == "!"]))
    json.dump(meta_out, open(os.path.join(o, "meta.json"), "w"), indent=1)
    hrows.append((h, row, (meta.get("summary") or "")[:110]))
with open(os.path.join(OUT, "MATRIX.md"), "a") as f:
    f.write("\n# Harmless rewrites x quick checks (every cell must be `.`)\n\n| rewrite | " + " | ".join(p[1:] for p in PROPS) + " | change |\n|---|" + "---|" * len(PROPS) + "---|\n")
    for h, row, summ in hrows:
        f.write("| %s | %s | %s |\n" % (h, " | ".join(row.get(p, " ") for p in PROPS), summ.replace("|", "/").replace("\n", " ")))
R = os.path.join(OUT, "history"); os.makedirs(R, exist_ok=True)
for fn in sorted(os.listdir(os.path.join(ST, "R"))):
    shutil.copy(os.path.join(ST, "R", fn), R)
open(os.path.join(R, "README.md"), "w").write("""# Patches against the repository's own history

Applied to a scratch copy of /repo (never to /repo itself) with tools/seedtest.sh.

* `revert_F1.diff` .. `revert_F7.diff` - the reverse of each `fix:` commit (F2's no longer applies on top of F1).
  Reported again by: F1 -> C04 C06; F3, F4 -> C05; F5 -> C06 C19; F6 -> C06 C19; F7 -> C14.
* `code_renumber.diff` - one event code renumbered to a free value: C11 (failing input), C12 (divergence only: the
  codes stay distinct), C03 silent.
* `code_equal.diff` - two event codes made equal: C11 and C12 with failing inputs (and the NoDup tie no longer proves).
* `guard_lt.diff` - a decoder's size guard relaxed: C05 (failing input; the size-guard tie no longer proves).
""")
print("seeds:", len(rows), "harmless:", len(hrows))
