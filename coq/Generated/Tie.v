(* Tie.v - re-proved on every run against the constants as /repo's source states them now. *)
Require Import RP.Model.Base RP.Model.Packet RP.Model.Events RP.Generated.SourceConsts.

(* the event codes in the source are the ones the model and the published table use, in kind order *)
Theorem tie_codes : source_codes = map code all_kinds.
Proof. reflexivity. Qed.
Theorem tie_codes_table : source_codes = [0; 1; 2; 3; 4; 5; 6; 7; 8; 9; 10; 11; 12; 13; 14; 15].
Proof. reflexivity. Qed.
(* no further event code constants exist *)
Theorem tie_no_extra : source_extra_codes = [].
Proof. reflexivity. Qed.
(* pairwise distinct, as the source now states them *)
Theorem tie_codes_nodup : NoDup source_codes.
Proof. repeat constructor; cbn; intuition discriminate. Qed.
Theorem tie_broadcast : source_broadcast = BROADCAST.
Proof. reflexivity. Qed.
