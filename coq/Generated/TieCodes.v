(* TieCodes.v - re-proved on every run against the constants as /repo's source states them now.
   A constant that is not written as an integer literal is None and is not tied. *)
Require Import RP.Model.Base RP.Model.Packet RP.Model.Events RP.Generated.SourceConsts.

Definition opt_is (o: option N) (m: N) : bool := match o with None => true | Some x => x =? m end.
Fixpoint somes (l: list (option N)) : list N := match l with [] => [] | Some x :: t => x :: somes t | None :: t => somes t end.

(* the event codes in the source are the ones the model and the published table use, in kind order *)
Theorem tie_codes : length source_codes = 16%nat /\ forallb (fun om => opt_is (fst om) (snd om)) (combine source_codes (map code all_kinds)) = true.
Proof. split; reflexivity. Qed.
Theorem tie_codes_table : forallb (fun om => opt_is (fst om) (snd om)) (combine source_codes [0; 1; 2; 3; 4; 5; 6; 7; 8; 9; 10; 11; 12; 13; 14; 15]) = true.
Proof. reflexivity. Qed.
(* no further event code constants exist *)
Theorem tie_no_extra : source_extra_codes = [].
Proof. reflexivity. Qed.
