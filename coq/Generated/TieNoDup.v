(* TieNoDup.v - re-proved on every run against the constants as /repo's source states them now.
   A constant that is not written as an integer literal is None and is not tied. *)
Require Import RP.Model.Base RP.Model.Packet RP.Model.Events RP.Generated.SourceConsts.

Definition opt_is (o: option N) (m: N) : bool := match o with None => true | Some x => x =? m end.
Fixpoint somes (l: list (option N)) : list N := match l with [] => [] | Some x :: t => x :: somes t | None :: t => somes t end.

(* pairwise distinct, as the source now states them *)
Theorem tie_codes_nodup : NoDup (somes source_codes).
Proof. repeat constructor; cbn; intuition discriminate. Qed.
