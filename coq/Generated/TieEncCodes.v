(* TieEncCodes.v - re-proved on every run against the size guards and code constants as /repo's source states them now.
   A construct the translator did not recognise is None and is not tied. *)
Require Import RP.Model.Base RP.Model.Packet RP.Model.Events RP.Lemmas.EventsExact RP.Generated.SourceGuards.

Definition guard_eqb (a b: bool * nat) : bool := Bool.eqb (fst a) (fst b) && (snd a =? snd b)%nat.
Definition opt_ok {A} (eqb: A -> A -> bool) (o: option A) (m: A) : bool := match o with None => true | Some x => eqb x m end.

(* encoder k emits the k-th event code constant *)
Theorem tie_encoder_codes : length source_encoder_codes = 16%nat /\
  forallb (fun om => opt_ok Nat.eqb (fst om) (snd om)) (combine source_encoder_codes (seq 0 16)) = true.
Proof. split; reflexivity. Qed.
