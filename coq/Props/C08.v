(* C08 - CAN frame codec follows the identifier bit layout and round-trips. *)
Require Import RP.Model.Base RP.Model.Packet RP.Model.Frame RP.Spec.CanLayout RP.Lemmas.FrameCan.

(* encode: extended data frame, identifier = ne*2^28 + st*2^27 + mf*2^26 + (id/256)*2^16 + addr, payload = data bytes *)
Theorem C08_encode_layout : forall f, wf_frame f = true ->
  to_bxcan f = Val (mkCF true false (can_id_spec f) (f_dlen f) (firstn (N.to_nat (f_dlen f)) (f_data f))).
Proof. exact to_bxcan_layout. Qed.

(* decode: for every driver-constructible frame (all 2^29 extended ids, all payloads of 0..=8 bytes,
   standard ids, remote frames) the decoder is the arithmetic layout can_spec_decode *)
Theorem C08_decode_layout : forall c, wf_canframe c = true -> from_bxcan c = can_spec_decode c.
Proof. exact from_bxcan_layout. Qed.

Theorem C08_reserved_ignored : forall c c', wf_canframe c = true -> wf_canframe c' = true ->
  cf_ext c' = cf_ext c -> cf_remote c' = cf_remote c -> cf_data c' = cf_data c ->
  cf_id c' / 67108864 = cf_id c / 67108864 -> (cf_id c' / 65536) mod 16 = (cf_id c / 65536) mod 16 -> cf_id c' mod 65536 = cf_id c mod 65536 ->
  from_bxcan c' = from_bxcan c.
Proof. exact from_bxcan_reserved. Qed.

Theorem C08_rejects : forall c, wf_canframe c = true ->
  (cf_ext c = false -> from_bxcan c = Fail FrameIsStandard) /\
  (cf_ext c = true -> cf_remote c = true -> from_bxcan c = Fail FrameIsRemote) /\
  (cf_ext c = true -> cf_remote c = false -> (cf_id c / 67108864) mod 2 = 1 -> cf_data c = [] -> from_bxcan c = Fail FrameIdMissing).
Proof. exact from_bxcan_rejects. Qed.

(* decode(encode f) = f for every frame that fragmentation can produce *)
Theorem C08_roundtrip : forall f, wf_frame f = true -> fragment_shaped f = true ->
  exists c, to_bxcan f = Val c /\ wf_canframe c = true /\ from_bxcan c = Val f.
Proof. exact bxcan_roundtrip. Qed.

Example C08_nonvacuous :
  wf_frame (mkF true false true false 1365 21845 8 [85; 85; 85; 85; 85; 85; 85; 85]) = true /\
  fragment_shaped (mkF true false true false 1365 21845 8 [85; 85; 85; 85; 85; 85; 85; 85]) = true /\
  to_bxcan (mkF true false true false 1365 21845 8 [85; 85; 85; 85; 85; 85; 85; 85]) = Val (mkCF true false 335893845 8 [85; 85; 85; 85; 85; 85; 85; 85]) /\
  wf_canframe (mkCF true false 536870911 3 [1; 2; 3]) = true.
Proof. repeat split; reflexivity. Qed.

(* the extracted checkers accept the model's observations: for every well-formed frame (encode side) and every driver-constructible CAN frame (decode side) *)
Require Import RP.Glue.Wire RP.Glue.StreamFrame RP.Lemmas.GlueLemmas.
Theorem C08_checker_accepts_model_encode : forall f, wf_frame f = true -> ok_C08_CAE (show_frame f) (run_CAE (show_frame f)) = [].
Proof. exact ok_C08_CAE_accepts_model. Qed.
Theorem C08_checker_accepts_model_decode : forall c, wf_canframe c = true -> ok_C08_CAD (show_can c) (run_CAD (show_can c)) = [].
Proof. exact ok_C08_CAD_accepts_model. Qed.
