(* C02 - fragmentation followed by in-order reassembly returns the original packet (3 frame paths). *)
Require Import RP.Model.Base RP.Model.Packet RP.Model.Frame RP.Spec.Frag RP.Lemmas.PacketLemmas RP.Lemmas.Reasm RP.Lemmas.FragWf.

(* direct path: the frames of p, fed in order into a fresh reassembler: every state before the last
   frame reports frames left > 0 and build = MissingFrames; at the last frame frames left = 0 and
   build = p (error flag, address and every payload byte).  No well-formedness needed. *)
Theorem C02_direct : forall p, small p ->
  exists f0 rest b0 bs, to_frames p = Val (f0 :: rest) /\ builder_new f0 = Val b0 /\ feed_trace b0 rest = Val bs /\
    (forall b, In b (removelast (b0 :: bs)) -> exists n, frames_left b = Val n /\ 0 < n /\ build b = Fail MissingFrames) /\
    frames_left (last (b0 :: bs) b0) = Val 0 /\ build (last (b0 :: bs) b0) = Val p.
Proof.
  intros p Hs. destruct (reasm_direct p Hs) as [f0 [rest [b0 [bs [H1 H2]]]]].
  exists f0, rest, b0, bs. rewrite to_frames_spec by assumption. rewrite H1. split; [reflexivity|exact H2].
Qed.

(* CAN and USART paths: encoding every frame and decoding it again gives back the same frame list,
   so reassembly proceeds exactly as on the direct path *)
Theorem C02_via_can : forall p, wf_packet p = true -> small p ->
  exists fs, to_frames p = Val fs /\ via_can fs = Val fs.
Proof. intros p Hw Hs. exists (frag_spec p). split; [apply to_frames_spec; assumption|apply via_can_id; assumption]. Qed.

Theorem C02_via_usart : forall p, wf_packet p = true -> small p ->
  exists fs, to_frames p = Val fs /\ via_usart fs = Val fs.
Proof. intros p Hw Hs. exists (frag_spec p). split; [apply to_frames_spec; assumption|apply via_usart_id; assumption]. Qed.

Example C02_nonvacuous : small (mkP true 65535 (repeat 7 100)) /\ wf_packet (mkP true 65535 (repeat 7 100)) = true.
Proof. split; [unfold small; cbn; lia|reflexivity]. Qed.

(* the extracted checker accepts the model's observation (frames left after every frame, early-build probes, rebuilt packet, on the
   direct, CAN and USART paths) of every well-formed packet of up to 4096 frames *)
Require Import RP.Glue.Wire RP.Glue.StreamPacket RP.Lemmas.GlueLemmas.
Theorem C02_checker_accepts_model : forall p, wf_packet p = true -> small p -> ok_C02 (show_packet p) (run_REA (show_packet p)) = [].
Proof. exact ok_C02_accepts_model. Qed.
