(* C04 - frame decoders never crash on untrusted input; accepted frames are well-formed. *)
Require Import RP.Model.Base RP.Model.Packet RP.Model.Cobs RP.Model.Frame RP.Lemmas.FrameUsart RP.Lemmas.FrameCan.

(* any byte string of ANY length (malformed COBS, truncated runs, embedded zeros, oversized or
   inconsistent declared lengths included) *)
Theorem C04_usart_total : forall enc, bytes enc = true ->
  from_usart enc <> Panic /\ from_usart enc <> Hang /\ (forall f, from_usart enc = Val f -> wf_frame f = true /\ f_last f = f_st f).
Proof. exact from_usart_total. Qed.

(* any CAN frame constructible through the driver API *)
Theorem C04_can_total : forall c, wf_canframe c = true ->
  from_bxcan c <> Panic /\ from_bxcan c <> Hang /\ (forall f, from_bxcan c = Val f -> wf_frame f = true /\ f_last f = f_st f).
Proof. exact from_bxcan_total. Qed.

(* a well-formed frame can be re-encoded for either link and fed to reassembly without a panic *)
Theorem C04_reencode : forall f, wf_frame f = true ->
  to_usart f <> Panic /\ to_bxcan f <> Panic /\ builder_new f <> Panic /\ (forall b, add_frame b f <> Panic).
Proof.
  intros f Hwf. destruct (wf_frame_parts f Hwf) as [Hd [Hi [Ha [Hl [Hb Hz]]]]]. repeat split.
  - rewrite usart_layout by assumption. discriminate.
  - rewrite to_bxcan_layout by assumption. discriminate.
  - unfold builder_new. destruct (negb (f_st f)); [discriminate|]. destruct (f_last f); [|discriminate].
    assert (E: (f_id f + 1 <? 65536) = true) by lia. rewrite E. discriminate.
  - intros b. unfold add_frame.
    repeat match goal with |- context [if ?c then _ else _] => destruct c end; discriminate.
Qed.

(* the witnesses of the repaired defects F1/F2 are rejected with error values in the model *)
Example C04_nonvacuous :
  from_usart [5; 1; 2] = Fail CobsError /\ from_usart [4; 1; 0; 2; 1] = Fail CobsError /\
  from_usart ([26; 224; 1; 1; 1; 20] ++ repeat 1 20) = Fail WrongSize /\
  from_usart [] = Fail CobsError /\
  from_usart [14; 165; 85; 85; 85; 8; 85; 85; 85; 85; 85; 85; 85; 85] = Val (mkF true false true false 1365 21845 8 [85; 85; 85; 85; 85; 85; 85; 85]).
Proof. repeat split; reflexivity. Qed.

(* the extracted checker accepts the model's observation for every byte string *)
Require Import RP.Glue.Wire RP.Glue.StreamFrame RP.Lemmas.GlueLemmas.
Theorem C04_checker_accepts_model : forall bs, bytes bs = true -> ok_C04_USD bs (run_USD bs) = [].
Proof. exact ok_C04_USD_accepts_model. Qed.
Theorem C04_checker_accepts_model_can : forall c, wf_canframe c = true -> ok_C04_CAD (show_can c) (run_CAD (show_can c)) = [].
Proof. exact ok_C04_CAD_accepts_model. Qed.
