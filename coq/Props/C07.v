(* C07 - reassembly accepts only the exact next frame of the same packet. *)
Require Import RP.Model.Base RP.Model.Packet RP.Lemmas.Builder.

(* accepted <-> non-start multi-frame continuation of the same error type and address whose id is the
   next expected one and below the announced count; acceptance appends exactly that frame *)
Theorem C07_accept_iff : forall b f, wf_builder b ->
  (accepts b f -> add_frame b f = Val (push_frame b f)) /\
  (forall b', add_frame b f = Val b' -> accepts b f /\ b' = push_frame b f).
Proof. exact add_frame_accept_iff. Qed.

(* every rejection carries a reason that truly applies (the state is unchanged: no new state is returned) *)
Theorem C07_reject_reason : forall b f r, wf_builder b -> add_frame b f = Fail r -> reject_reason_applies b f r = true.
Proof. exact add_frame_reject_reason. Qed.

Theorem C07_no_panic : forall b f, add_frame b f <> Panic /\ add_frame b f <> Hang.
Proof. exact add_frame_no_panic. Qed.

(* a reassembly is started only by a start frame carrying a last-frame id, announcing id + 1 frames *)
Theorem C07_new : forall f,
  (forall b, builder_new f = Val b -> f_st f = true /\ f_last f = true /\ b = mkB (negb (f_ne f)) (f_id f + 1) (f_addr f) [f]) /\
  (f_st f = true -> f_last f = true -> f_id f < 4096 -> builder_new f = Val (mkB (negb (f_ne f)) (f_id f + 1) (f_addr f) [f])) /\
  (forall r, builder_new f = Fail r -> r = OutOfOrder /\ (f_st f = false \/ f_last f = false)).
Proof. exact builder_new_spec. Qed.

(* invariant over EVERY finite history of well-formed frames offered after a start frame *)
Theorem C07_invariant : forall f0 b0 fs, wf_frame f0 = true -> builder_new f0 = Val b0 -> Forall (fun f => wf_frame f = true) fs ->
  let b := offers b0 fs in
  wf_builder b /\ frames_left b = Val (b_exp b - nlen (b_frames b)) /\ nlen (b_frames b) + (b_exp b - nlen (b_frames b)) = b_exp b.
Proof.
  intros f0 b0 fs Hf0 Hn Hfs b. assert (Hw: wf_builder b) by (apply offers_wf; [eapply builder_new_wf; eassumption|assumption]).
  split; [exact Hw|]. apply frames_left_spec. exact Hw.
Qed.

(* completion only with exactly the announced number of frames (otherwise MissingFrames, repeatably:
   build is a function of the state); the payload is the in-order concatenation of the accepted payloads *)
Theorem C07_build : forall b, wf_builder b ->
  (nlen (b_frames b) = b_exp b -> build b = Val (mkP (b_err b) (b_addr b) (concat (map payload_of (b_frames b))))) /\
  (nlen (b_frames b) <> b_exp b -> build b = Fail MissingFrames).
Proof. exact build_spec. Qed.

Example C07_nonvacuous :
  let f0 := mkF true true true true 2 7 8 [2; 1; 1; 1; 1; 1; 1; 1] in
  let f1 := mkF true false true false 1 7 8 [1; 2; 2; 2; 2; 2; 2; 2] in
  wf_frame f0 = true /\ wf_frame f1 = true /\
  (exists b0, builder_new f0 = Val b0 /\ accepts b0 f1 /\ add_frame b0 f0 = Fail OutOfOrder /\ build b0 = Fail MissingFrames).
Proof.
  cbv zeta. split; [reflexivity|]. split; [reflexivity|]. eexists. split; [reflexivity|]. split; [|split; reflexivity].
  unfold accepts. repeat split.
Qed.

(* the extracted checker (an independent reference reassembler built from accepts / payload_of) accepts the model's observation of
   every history of well-formed frames *)
Require Import RP.Glue.Wire RP.Glue.StreamPacket RP.Lemmas.GlueLemmas.
Theorem C07_checker_accepts_model : forall case f0 fs, parse_frames case = Some (f0 :: fs, []) -> ok_C07 case (run_BLD case) = [].
Proof. exact ok_C07_accepts_model. Qed.
