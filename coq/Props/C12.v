(* C12 - a packet is never ambiguous between event kinds. *)
Require Import RP.Model.Base RP.Model.Packet RP.Model.Events RP.Lemmas.EventsExact.

(* for ANY packet (no well-formedness needed) at most one of the sixteen decoders returns a value *)
Theorem C12_unique : forall (k1 k2 : kind) (p : packet) (e1 e2 : event),
  decode k1 p = Val e1 -> decode k2 p = Val e2 -> k1 = k2.
Proof. exact unique_kind. Qed.

(* the encoding of an event of one kind is rejected, with an error value, by each of the 15 others *)
Theorem C12_cross : forall (e : event) (k : kind),
  wf_event e = true -> k <> kind_of e -> exists r, decode k (encode e) = Fail r.
Proof. exact cross_rejected. Qed.

(* the table of codes is injective: what the two theorems rest on *)
Theorem C12_codes_injective : forall k1 k2, code k1 = code k2 -> k1 = k2.
Proof. exact code_inj. Qed.

(* non-vacuity: a packet that one decoder does accept *)
Example C12_nonvacuous : decode KAck (mkP false 7 [0; 3; 1; 2]) = Val (Ack 7 258) /\ decode KGatewayDiscover (mkP false 7 [0; 3; 1; 2]) = Fail CWrongEventType.
Proof. split; reflexivity. Qed.

(* the extracted checker accepts the model's sixteen flags: for every packet (at most one acceptance) and for every well-formed event (only its own kind accepts) *)
Require Import RP.Glue.Wire RP.Glue.StreamEV RP.Glue.StreamDEC RP.Lemmas.GlueLemmas.
Theorem C12_checker_accepts_model_packets : forall p, ok_C12 (0 :: show_packet p) (run_AMB (0 :: show_packet p)) = [].
Proof. exact ok_C12_accepts_model_packets. Qed.
Theorem C12_checker_accepts_model_events : forall e, wf_event e = true -> ok_C12 (1 :: event_fields e) (run_AMB (1 :: event_fields e)) = [].
Proof. exact ok_C12_accepts_model_events. Qed.
