(* C05 - event decoders never crash on untrusted packets and accept only exact encodings. *)
Require Import RP.Model.Base RP.Model.Packet RP.Model.Events RP.Spec.EventLayout RP.Lemmas.EventsC05.

(* For every one of the 16 decoders and every packet made of bytes (any length, either flag):
   the decoder returns a value or an error value; a value is returned only for a non-error packet
   that carries the kind's code and has exactly the length the published layout of that value
   requires and whose variant tag / boolean byte is a known one (tag_unknown = false), the value is in
   the kind's domain and survives re-encoding; and whatever rejection
   reason is reported is one that truly applies (reason_applies is defined in Spec/EventLayout.v,
   independently of the decoders). *)
Theorem C05_exact : forall (k : kind) (p : packet), wf_packet p = true ->
  decode k p <> Panic /\ decode k p <> Hang /\
  (forall e, decode k p = Val e ->
     wf_event e = true /\ kind_of e = k /\ p_err p = false /\ code_of p = Some (code k) /\
     length (p_data p) = layout_len e /\ tag_unknown k p = false /\ decode k (encode e) = Val e) /\
  (forall r, decode k p = Fail r -> reason_applies k r p = true).
Proof. exact decode_exact. Qed.

(* non-vacuity: accepted, rejected for each of the four reasons (the witnesses of the repaired
   defects F3/F4 are among them: a 3-byte data packet, message tag 7, Bool byte 5) *)
Example C05_nonvacuous :
  wf_packet (mkP false 9 [0; 4; 0; 1; 0; 2; 170; 187]) = true /\
  decode KData (mkP false 9 [0; 4; 0; 1; 0; 2; 170; 187]) = Val (Data 9 1 2 [170; 187]) /\
  decode KData (mkP false 9 [0; 4; 0]) = Fail CWrongSize /\
  decode KData (mkP true 9 [0; 4; 0; 1; 0; 0]) = Fail CWrongType /\
  decode KAck (mkP false 9 [0; 4; 0; 1]) = Fail CWrongEventType /\
  decode KMessage (mkP false 9 [0; 12; 0; 1; 0; 2; 7; 0; 0; 0; 1; 0; 0; 0]) = Fail CUnknownEnumVariant /\
  decode KMessage (mkP false 9 [0; 12; 0; 1; 0; 2; 3; 0; 0; 0; 5; 0; 0; 0]) = Fail CUnknownEnumVariant.
Proof. repeat split; reflexivity. Qed.

(* the extracted checker ok_C05 accepts the model's observation for every decoder and every packet of bytes *)
Require Import RP.Glue.Wire RP.Glue.StreamDEC RP.Lemmas.GlueLemmas.
Theorem C05_checker_accepts_model : forall k p, wf_packet p = true -> ok_C05 (code k :: show_packet p) (run_DEC (code k :: show_packet p)) = [].
Proof. exact ok_C05_accepts_model. Qed.
