(* C01 - end to end: sent events reach the peer's handlers intact, once, in order. *)
Require Import RP.Model.Base RP.Model.Packet RP.Model.Events RP.Model.Frame RP.Model.Links RP.Model.Protocol RP.Spec.Frag
  RP.Lemmas.OnFrame RP.Lemmas.LinkGeneric RP.Lemmas.LinkUsart RP.Lemmas.LinkSerialCan RP.Lemmas.LinkTheorems RP.Lemmas.ProtocolLemmas RP.Lemmas.EndToEnd.

(* Node A (address ownA) sends the events es in order; the packets it transmits are sent_by ownA es
   (an event addressed to the sender's own address is looped back locally and not transmitted, unless
   ownA is the broadcast address - C16).  Their wire image (C14 / C13_sender_wire) reaches node B under
   ANY polling schedule; B ticks once per poll.  Then B's handler log is, in order and exactly once
   each, (handler, packet) for every transmitted packet and every handler selected by C15's rule (all
   handlers if the packet is addressed to ownB or broadcast, else the capture-all ones); every tick
   returns Ok; and every delivered packet decodes to the event that was sent.  Nothing else is delivered
   (`deliveries` also lists, nested after a handler's entry, what that handler of B itself sends to B's own address - C15_tick;
   there is none when B's handlers do not do that: C15_quiet). *)
Definition e2e (M: machine) (fuel: nat) (s: list (tok M)) (ownA ownB: N) (tblB: table) (es: list event) : Prop :=
  i_sent (snd (send_all ownA (map encode es) (mkI [] [] []))) = sent_by ownA es /\
  Forall (fun r => r = Val tt) (fst (send_all ownA (map encode es) (mkI [] [] []))) /\
  snd (ticks ownB tblB (map gres_of (map fst (fst (polls M fuel None s))))) = concat (map (deliveries ownB tblB) (sent_by ownA es)) /\
  Forall (fun r => r = Val tt) (fst (ticks ownB tblB (map gres_of (map fst (fst (polls M fuel None s)))))) /\
  Forall (fun p => exists e, In e es /\ p = encode e /\ decode (kind_of e) p = Val e) (sent_by ownA es).

Theorem C01_usart : forall es ownA ownB tblB s fuel,
  Forall (fun e => wf_event e = true) es -> Forall small (sent_by ownA es) ->
  no_rderr s -> bytes_of s = wire_packets (sent_by ownA es) -> (length s < fuel)%nat ->
  e2e usart fuel s ownA ownB tblB es.
Proof.
  intros es ownA ownB tblB s fuel Hw Hs Hn Hb Hf. apply end_to_end; [exact Hw|].
  destruct (transparent_usart (sent_by ownA es) s fuel (sent_by_wf ownA es Hw) Hs Hn Hb Hf) as [H _]. exact H.
Qed.

Theorem C01_serial : forall es ownA ownB tblB its fuel,
  Forall (fun e => wf_event e = true) es -> Forall small (sent_by ownA es) ->
  map snd its = concat (map frag_spec (sent_by ownA es)) ->
  let s := concat (map (gapped STO frames_tokens_serial) its) in (length s < fuel)%nat ->
  e2e serial fuel s ownA ownB tblB es.
Proof.
  intros es ownA ownB tblB its fuel Hw Hs Hi s Hf. apply end_to_end; [exact Hw|].
  destruct (transparent_serial (sent_by ownA es) its fuel (sent_by_wf ownA es Hw) Hs Hi Hf) as [H _]. exact H.
Qed.

Theorem C01_can : forall es ownA ownB tblB its fuel,
  Forall (fun e => wf_event e = true) es -> Forall small (sent_by ownA es) ->
  map snd its = concat (map frag_spec (sent_by ownA es)) ->
  let s := concat (map (gapped CWB frames_tokens_can) its) in (length s < fuel)%nat ->
  e2e can fuel s ownA ownB tblB es.
Proof.
  intros es ownA ownB tblB its fuel Hw Hs Hi s Hf. apply end_to_end; [exact Hw|].
  destruct (transparent_can (sent_by ownA es) its fuel (sent_by_wf ownA es Hw) Hs Hi Hf) as [H _]. exact H.
Qed.

(* non-vacuity: three events from node 1 to node 2 over USART with would-block answers mid-frame;
   B has an own-address handler and a capture-all handler; the event for node 9 reaches only the latter *)
Example C01_nonvacuous :
  let es := [Ack 2 1; ButtonPressed 9 1 3; ProgrammerHello 1] in
  let tblB := [(0, mkH 10 false []); (1, mkH 11 true [])] in
  let s := [UWB] ++ map UB (firstn 3 (wire_packets (sent_by 1 es))) ++ [UWB; UWB] ++ map UB (skipn 3 (wire_packets (sent_by 1 es))) in
  snd (ticks 2 tblB (map gres_of (map fst (fst (polls usart 100 None s))))) =
  [(0, 10, encode (Ack 2 1)); (1, 11, encode (Ack 2 1)); (1, 11, encode (ButtonPressed 9 1 3)); (0, 10, encode (ProgrammerHello 1)); (1, 11, encode (ProgrammerHello 1))].
Proof. vm_compute. reflexivity. Qed.
