(* C10 - fragmentation produces exactly the documented frame sequence. *)
Require Import RP.Model.Base RP.Model.Packet RP.Model.Frame RP.Spec.Frag RP.Spec.CanLayout RP.Lemmas.PacketLemmas RP.Lemmas.Reasm RP.Lemmas.FragWf.

(* the code's fragmentation equals the independently written fragmenter (and never panics) for
   every packet of 0..=28672 payload bytes, any address, either error flag *)
Theorem C10_to_frames_spec : forall p, small p -> to_frames p = Val (frag_spec p).
Proof. exact to_frames_spec. Qed.

(* corollaries about the reference fragmenter, each stated separately *)
Theorem C10_single : forall p, (length (p_data p) <= 8)%nat ->
  frag_spec p = [mkF (negb (p_err p)) true false true 0 (p_addr p) (nlen (p_data p)) (pad8 (p_data p))].
Proof. exact frag_spec_single. Qed.

Theorem C10_count : forall p, (8 < length (p_data p))%nat -> length (frag_spec p) = ((length (p_data p) + 6) / 7)%nat.
Proof.
  intros p H. rewrite frag_spec_multi by assumption. rewrite map_length, seq_length. apply chunks7_length. lia.
Qed.

(* frame i of a multi-frame packet: id byte then the i-th 7-byte chunk, first frame = start + index of the
   last frame, the others their own index; address and error type copied *)
Theorem C10_multi_frame : forall p i, (8 < length (p_data p))%nat -> (i < (length (p_data p) + 6) / 7)%nat ->
  let m := ((length (p_data p) + 6) / 7)%nat in
  let c := firstn 7 (skipn (7 * i) (p_data p)) in
  nth i (frag_spec p) (sframe p) =
    mkF (negb (p_err p)) (i =? 0)%nat true (i =? 0)%nat (if (i =? 0)%nat then N.of_nat (m - 1) else N.of_nat i) (p_addr p)
        (nlen c + 1) (pad8 ((if (i =? 0)%nat then N.of_nat (m - 1) mod 256 else N.of_nat i mod 256) :: c)).
Proof.
  intros p i H Hi m c. rewrite frag_spec_multi by assumption.
  assert (Hl: length (chunks7 (length (p_data p)) (p_data p)) = m) by (apply chunks7_length; lia).
  rewrite Hl. rewrite (nth_indep _ _ (mframe p m (chunks7 (length (p_data p)) (p_data p)) 0)) by (rewrite map_length, seq_length; exact Hi).
  rewrite (map_nth (mframe p m _) (seq 0 m) 0%nat i). rewrite seq_nth by exact Hi. cbn [Nat.add].
  unfold mframe. rewrite chunks7_nth by lia. reflexivity.
Qed.

(* the chunks are the payload in order *)
Theorem C10_chunks_concat : forall d, concat (chunks7 (length d) d) = d.
Proof. intros d. apply chunks7_concat. lia. Qed.

(* every frame is well-formed (<= 8 data bytes, unused bytes zero, id < 4096), its first data byte
   is the low byte of its id when multi-frame, and it carries the right id kind *)
Theorem C10_frames_good : forall p, wf_packet p = true -> small p ->
  Forall (fun f => wf_frame f = true /\ fragment_shaped f = true /\ f_last f = f_st f) (frag_spec p).
Proof. exact frag_spec_good. Qed.

Example C10_nonvacuous :
  to_frames (mkP false 21845 [1; 2; 3; 4; 5; 6; 7; 8; 9; 10]) =
  Val [mkF true true true true 1 21845 8 [1; 1; 2; 3; 4; 5; 6; 7]; mkF true false true false 1 21845 4 [1; 8; 9; 10; 0; 0; 0; 0]].
Proof. reflexivity. Qed.

(* the extracted checker ok_C10 accepts the model's observation for every packet of up to 28672 bytes *)
Require Import RP.Glue.Wire RP.Glue.StreamPacket RP.Lemmas.GlueLemmas.
Theorem C10_checker_accepts_model : forall p, small p -> ok_C10 (show_packet p) (run_FRG (show_packet p)) = [].
Proof. exact ok_C10_accepts_model. Qed.
