(* C11 - event encodings are the published byte layouts, and decoders read exactly those. *)
Require Import RP.Model.Base RP.Model.Packet RP.Model.Events RP.Spec.EventLayout RP.Lemmas.EventsLayout.

(* encode side: for every value of every kind the encoder emits exactly the published layout
   (code, fields in documented order and big-endian widths, documented sub-encodings, receiver address) *)
Theorem C11_encode_layout : forall e : event, wf_event e = true -> encode e = layout_encode e.
Proof. exact encode_layout. Qed.

(* the codes are the fixed table 0x0000-0x000f in kind order (the source constants are tied to this
   table by Generated/TieCodes.v, re-proved on every run) *)
Theorem C11_codes : map code all_kinds = [0; 1; 2; 3; 4; 5; 6; 7; 8; 9; 10; 11; 12; 13; 14; 15].
Proof. reflexivity. Qed.

(* the reference decoder accepts exactly published encodings of well-formed values ... *)
Theorem C11_ref_sound : forall k p e, ref_decode k p = Some e -> wf_event e = true /\ kind_of e = k /\ p = layout_encode e.
Proof. exact ref_decode_sound. Qed.

(* ... and on every packet it accepts the decoder extracts the same value *)
Theorem C11_decode_agrees : forall k p e, ref_decode k p = Some e -> decode k p = Val e.
Proof. exact decode_agrees_ref. Qed.

Example C11_nonvacuous :
  ref_decode KBcmAnimate (mkP false 513 [0; 13; 1; 2; 9; 0; 1; 134; 160; 5; 1; 2; 3; 4; 5]) = Some (BcmAnimate 513 258 9 100000 (RgbwB 1 2 3 4 5)) /\
  ref_decode KMessage (mkP false 1 [0; 12; 0; 2; 0; 3; 1; 0; 0; 0; 52; 18; 0; 0]) = Some (Message 1 2 3 (MU16 4660)).
Proof. split; reflexivity. Qed.

(* the extracted encode-side checker accepts the model's observation for every well-formed event *)
Require Import RP.Glue.Wire RP.Glue.StreamEV RP.Glue.StreamDEC RP.Lemmas.GlueLemmas.
Theorem C11_checker_accepts_model : forall e, wf_event e = true -> ok_C11_EV (event_fields e) (run_EV (event_fields e)) = [].
Proof. exact ok_C11_EV_accepts_model. Qed.
