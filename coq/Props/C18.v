(* C18 - exchange returns the first (or all) matching replies in arrival order. *)
Require Import RP.Model.Base RP.Model.Packet RP.Model.Events RP.Model.Protocol RP.Lemmas.Registry RP.Lemmas.ProtocolLemmas.

(* the request is routed exactly like an ordinary send; a send error is returned before the wait callback runs *)
Theorem C18_routing : forall own t p cap k i,
  match send_packet own t p i with
  | (Val _, log, i1) => exists r tr i2, exchange1 own t p cap k i = (r, log, TWait :: tr, i2) /\
                                        drain1 (S (length (i_gets i1))) own cap k i1 [TWait] = (r, TWait :: tr, i2)
  | (Fail e, log, i1) => exchange1 own t p cap k i = (Fail e, log, [], i1)
  | _ => True
  end.
Proof.
  intros own t p cap k i. unfold exchange1. destruct (send_packet own t p i) as [[[u|e| |] log] i1]; try exact I; try reflexivity.
  destruct i1 as [gs ss st].
  assert (G: forall fuel i tr0 r tr i2, drain1 fuel own cap k i tr0 = (r, tr, i2) -> exists tl, tr = tr0 ++ tl).
  { induction fuel as [|f IH]; intros j tr0 r tr i2 H; cbn [drain1] in H.
    - inversion H; subst. exists []. rewrite app_nil_r. reflexivity.
    - destruct (iget j) as [[q| |c] j'].
      + destruct (matches own cap k q).
        * inversion H; subst. eexists. reflexivity.
        * apply IH in H. destruct H as [tl ->]. eexists. rewrite <- app_assoc. reflexivity.
      + inversion H; subst. eexists. reflexivity.
      + inversion H; subst. eexists. reflexivity. }
  destruct (drain1 (S (length (i_gets (mkI gs ss st)))) own cap k (mkI gs ss st) [TWait]) as [[r tr] i2] eqn:Ed.
  destruct (G _ _ _ _ _ _ Ed) as [tl ->]. exists r, tl, i2. split; reflexivity.
Qed.

(* single-reply form: the first packet, in arrival order, that is addressed to the device or to broadcast (or to
   anyone when capturing all) and decodes as the requested kind is returned and nothing after it is consumed;
   a dry link is a timeout; a link error is propagated *)
Theorem C18_single : forall own cap k pre gs ss st tr fuel, Forall (nomatch own cap k) pre -> (length pre + length gs < fuel)%nat ->
  match gs with
  | GPacket q :: rest => forall e, matches own cap k q = Some e ->
      drain1 fuel own cap k (mkI (pre ++ gs) ss st) tr = (Val e, tr ++ map TGet pre ++ [TGet (GPacket q)], mkI rest ss st)
  | GNone :: rest => drain1 fuel own cap k (mkI (pre ++ gs) ss st) tr = (Fail PTimeout, tr ++ map TGet pre ++ [TGet GNone], mkI rest ss st)
  | GErr c :: rest => drain1 fuel own cap k (mkI (pre ++ gs) ss st) tr = (Fail (PInterface c), tr ++ map TGet pre ++ [TGet (GErr c)], mkI rest ss st)
  | [] => drain1 fuel own cap k (mkI (pre ++ gs) ss st) tr = (Fail PTimeout, tr ++ map TGet pre ++ [TGet GNone], mkI [] ss st)
  end.
Proof. exact drain1_spec. Qed.

(* multi-reply form: all matching packets in order; the link is drained to the first 'nothing received' or error *)
Theorem C18_multi : forall own cap k pre gs ss st fuel, only_packets pre -> (length pre + length gs < fuel)%nat ->
  match gs with
  | GErr c :: rest => drainN fuel own cap k (mkI (pre ++ gs) ss st) [TWait] [] = (Fail (PInterface c), [TWait] ++ map TGet pre ++ [TGet (GErr c)], mkI rest ss st)
  | GNone :: rest => drainN fuel own cap k (mkI (pre ++ gs) ss st) [TWait] [] = (Val (matched own cap k pre), [TWait] ++ map TGet pre ++ [TGet GNone], mkI rest ss st)
  | [] => drainN fuel own cap k (mkI (pre ++ gs) ss st) [TWait] [] = (Val (matched own cap k pre), [TWait] ++ map TGet pre ++ [TGet GNone], mkI [] ss st)
  | GPacket _ :: _ => True
  end.
Proof. exact drainN_spec. Qed.

Example C18_nonvacuous :
  let ack := mkP false 5 [0; 3; 0; 9] in let other := mkP false 6 [0; 3; 0; 9] in let wrong := mkP false 5 [0; 15; 0; 9] in
  exchange1 5 [] (mkP false 8 [1]) false KAck (mkI [GPacket other; GPacket wrong; GPacket ack; GPacket ack] [] []) =
    (Val (Ack 5 9), [], [TWait; TGet (GPacket other); TGet (GPacket wrong); TGet (GPacket ack)], mkI [GPacket ack] [] [mkP false 8 [1]]) /\
  exchange1 5 [] (mkP false 8 [1]) true KAck (mkI [GPacket other; GPacket ack] [] []) =
    (Val (Ack 6 9), [], [TWait; TGet (GPacket other)], mkI [GPacket ack] [] [mkP false 8 [1]]) /\
  exchange1 5 [] (mkP false 8 [1]) false KAck (mkI [GPacket other] [] []) = (Fail PTimeout, [], [TWait; TGet (GPacket other); TGet GNone], mkI [] [] [mkP false 8 [1]]) /\
  exchange1 5 [] (mkP false 8 [1]) false KAck (mkI [GPacket ack] [41] []) = (Fail (PInterface 41), [], [], mkI [GPacket ack] [] [mkP false 8 [1]]).
Proof. repeat split; reflexivity. Qed.

(* the extracted checker (an independent scan of the queue) accepts the model's observation of every exchange *)
Require Import RP.Glue.Wire RP.Glue.StreamLink RP.Glue.StreamProto RP.Lemmas.GlueLemmas.
Theorem C18_checker_accepts_model : forall case own cap k multi p t gs ans,
  exc_split case = Some (own, cap, k, multi, p, t, gs, ans) -> ok_C18 case (run_EXC case) = [].
Proof. exact ok_C18_accepts_model. Qed.
(* ... and of every exchange made on a protocol object with a history (PRO stream: the exchange is compared with the model on the table rebuilt from returned ids) *)
Theorem C18_history_checker_accepts_model : forall case own ops, pro_split case = Some (own, ops) -> ok_C18_PRO case (run_PRO case) = [].
Proof. exact ok_C18_PRO_accepts_model. Qed.
