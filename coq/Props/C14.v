(* C14 - senders put byte-exact frames on the link, in order, even under back-pressure. *)
Require Import RP.Model.Base RP.Model.Packet RP.Model.Cobs RP.Model.Frame RP.Model.Links RP.Lemmas.Senders.

(* USART: would-block any number of times before any byte: every byte of every link frame (delimiter,
   length byte, encoded frame) is written exactly once, in order; if the device stops accepting, the
   sender blocks having written exactly the accepted prefix (it never returns early) *)
Theorem C14_usart : forall encs ans, no_wfail ans -> (length (concat (map link_bytes encs)) <= accepts_in ans)%nat ->
  exists rest, usart_send encs ans = Val (concat (map link_bytes encs), rest).
Proof. exact usart_send_exact. Qed.
Theorem C14_usart_blocks : forall xs ans, no_wfail ans ->
  ((length xs <= accepts_in ans)%nat -> exists rest, uwrite_all xs ans = Val (xs, rest) /\ no_wfail rest) /\
  ((accepts_in ans < length xs)%nat -> uwrite_all xs ans = Hang).
Proof. exact uwrite_all_spec. Qed.

(* CAN: the k-th answer that is not would-block decides the k-th frame; frames are handed over once each, in
   order, up to and including the first displaced report, which is returned as MailboxFull *)
Theorem C14_can : forall cfs ans, can_send cfs ans = can_expect cfs (outcomes ans).
Proof. exact can_send_spec. Qed.
Theorem C14_can_props : forall cfs outs,
  let '(sent, r) := can_expect cfs outs in
  (exists rest, cfs = sent ++ rest) /\
  (r = Val tt -> sent = cfs /\ ~ In TDisplaced (firstn (length cfs) outs)) /\
  (In TDisplaced (firstn (length cfs) outs) -> r = Fail SMailboxFull).
Proof. exact can_expect_props. Qed.

(* serial port: short writes of any positive size and interruptions are absorbed; what reaches the device is
   always a prefix of the frames' bytes; Ok only if everything was written and flushed; failures are returned *)
Theorem C14_serial : forall encs ans fl,
  let '(w, r) := serial_send encs ans fl in
  (exists rest, wire encs = w ++ rest) /\
  (r = Val tt -> w = wire encs /\ fl = true) /\
  (no_pbad ans -> w = wire encs /\ r = if fl then Val tt else Fail SFlush).
Proof. exact serial_send_spec. Qed.

(* non-vacuity: one byte per write (the situation of the repaired defect F7), an interruption, a flush failure *)
Example C14_nonvacuous :
  serial_send [[11; 2; 3]] [PW 1; PInt; PW 1; PW 1; PW 1; PW 1] true = ([0; 3; 11; 2; 3], Val tt) /\
  serial_send [[11; 2; 3]] [PW 1; PErr] true = ([0], Fail SWrite) /\
  serial_send [[11; 2; 3]] [] false = ([0; 3; 11; 2; 3], Fail SFlush) /\
  usart_send [[7]] [WWB; WWB; WAccept; WWB; WAccept; WAccept] = Val ([0; 1; 7], []) /\
  usart_send [[7]] [WWB; WAccept] = Hang.
Proof. repeat split; reflexivity. Qed.

(* the extracted checker (an independent statement of what must be on the link) accepts the model's observation of every case, on each link *)
Require Import RP.Glue.Wire RP.Glue.StreamLink RP.Lemmas.GlueLemmas.
Theorem C14_checker_accepts_model_can : forall case p encs fl ans cfs,
  snd_split case = Some (0, p, encs, fl, ans) -> cans_of encs = Some cfs -> ok_C14 case (run_SND case) = [].
Proof. exact ok_C14_can_accepts_model. Qed.
Theorem C14_checker_accepts_model_usart : forall case p encs fl ans,
  snd_split case = Some (1, p, encs, fl, ans) -> ok_C14 case (run_SND case) = [].
Proof. exact ok_C14_usart_accepts_model. Qed.
Theorem C14_checker_accepts_model_serial : forall case p encs fl ans,
  snd_split case = Some (2, p, encs, fl, ans) -> ok_C14 case (run_SND case) = [].
Proof. exact ok_C14_serial_accepts_model. Qed.
