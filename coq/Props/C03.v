(* C03 - every event survives encode -> decode unchanged. *)
Require Import RP.Model.Base RP.Model.Packet RP.Model.Events RP.Lemmas.EventsRT.

Theorem C03_roundtrip : forall e : event, wf_event e = true ->
  decode (kind_of e) (encode e) = Val e /\ p_err (encode e) = false /\ p_addr (encode e) = recv_of e.
Proof. exact roundtrip. Qed.

(* the hypothesis is satisfiable by non-trivial values (a 3-byte data event, a message, an animation) *)
Example C03_nonvacuous :
  wf_event (Data 513 65535 3 [0; 255; 7]) = true /\ wf_event (Message 1 2 3 (MU32 4294967295)) = true /\
  wf_event (BcmAnimate 7 8 9 100000 (RgbwB 1 2 3 4 5)) = true.
Proof. repeat split; reflexivity. Qed.

(* the check's own oracle cannot reject an implementation that behaves like the model: the extracted checker
   ok_C03, applied to the model's observation for ANY well-formed event, reports no failing clause *)
Require Import RP.Glue.Wire RP.Glue.StreamEV RP.Lemmas.GlueLemmas.
Theorem C03_checker_accepts_model : forall e, wf_event e = true -> ok_C03 (event_fields e) (run_EV (event_fields e)) = [].
Proof. exact ok_C03_accepts_model. Qed.
