(* C17 - handler ids are unique and removal removes exactly one handler. *)
Require Import RP.Model.Base RP.Model.Packet RP.Model.Events RP.Model.Protocol RP.Lemmas.Registry RP.Lemmas.ProtocolLemmas.

(* one operation against the registry, whatever history produced it (key-sorted = BTreeMap order):
   register: the id returned is not the id of any registered handler (it is the least free id), every other
   handler stays registered unchanged and the new one is found under its id;
   remove: a registered id is unregistered and all others stay unchanged; an unknown id reports
   'no such handler' and changes nothing *)
Theorem C17_step : forall t o, sorted (keys t) ->
  sorted (keys (fst (reg_step t o))) /\
  match o with
  | OAdd h => exists id, snd (reg_step t o) = RId id /\ ~ In id (keys t) /\ (forall x, x < id -> In x (keys t)) /\
                (forall x, In x (keys (fst (reg_step t o))) <-> x = id \/ In x (keys t)) /\
                lookup id (fst (reg_step t o)) = Some h /\ (forall x, x <> id -> lookup x (fst (reg_step t o)) = lookup x t)
  | ORemove id =>
      (In id (keys t) -> snd (reg_step t o) = ROk /\ (forall x, In x (keys (fst (reg_step t o))) <-> In x (keys t) /\ x <> id) /\
                         (forall x, x <> id -> lookup x (fst (reg_step t o)) = lookup x t)) /\
      (~ In id (keys t) -> snd (reg_step t o) = RNoSuch /\ fst (reg_step t o) = t)
  end.
Proof. exact reg_step_spec. Qed.

(* the invariant the step theorem needs holds after every finite history, starting from the empty registry *)
Theorem C17_history : forall ops, sorted (keys (fst (reg_run [] ops))).
Proof. intros ops. apply reg_run_sorted. constructor. Qed.

(* a removed (or never registered) handler is never invoked: only live ids appear in a delivery *)
Theorem C17_only_live_invoked : forall own t p owned i e, In e (fst (handle_packet own t p owned i)) -> In (fst (fst e)) (keys t).
Proof. exact log_ids_live. Qed.

Example C17_nonvacuous :
  let h := mkH 1 false [] in
  snd (reg_run [] [OAdd h; OAdd h; OAdd h; ORemove 1; OAdd h; ORemove 7]) = [RId 0; RId 1; RId 2; ROk; RId 1; RNoSuch].
Proof. reflexivity. Qed.

(* the extracted checker accepts the model's observations of every operation history (the table it rebuilds from the returned ids is the model's) *)
Require Import RP.Glue.Wire RP.Glue.StreamLink RP.Glue.StreamProto RP.Lemmas.GlueLemmas.
Theorem C17_checker_accepts_model : forall case own ops, pro_split case = Some (own, ops) -> ok_C17 case (run_PRO case) = [].
Proof. exact ok_C17_accepts_model. Qed.
