(* C13 - each link is transparent to packet sequences under every polling schedule. *)
Require Import RP.Model.Base RP.Model.Packet RP.Model.Cobs RP.Model.Frame RP.Model.Links RP.Spec.Frag
  RP.Lemmas.PacketLemmas RP.Lemmas.FragWf RP.Lemmas.OnFrame RP.Lemmas.LinkGeneric RP.Lemmas.LinkUsart RP.Lemmas.LinkSerialCan RP.Lemmas.LinkTheorems RP.Lemmas.Senders RP.Lemmas.SenderReceiver.

(* what the senders put on the link for a packet (C14 proves the emission loops write exactly this):
   the link frames of the fragmentation, encoded by the frame codecs *)
Theorem C13_sender_wire : forall p, wf_packet p = true -> small p ->
  to_frames p = Val (frag_spec p) /\
  mapM to_usart (frag_spec p) = Val (map enc_of (frag_spec p)) /\
  mapM to_bxcan (frag_spec p) = Val (map can_of (frag_spec p)) /\
  concat (map link_bytes (map enc_of (frag_spec p))) = wire_frames (frag_spec p).
Proof. exact sender_wire. Qed.

(* USART: the device may report 'no data yet' any number of times between ANY two bytes; the polls
   return exactly the packets sent, in order, and otherwise only 'nothing received'; the receiver ends empty *)
Theorem C13_usart : forall ps s fuel, Forall wfp ps -> Forall small ps -> no_rderr s -> bytes_of s = wire_packets ps -> (length s < fuel)%nat ->
  filter notnone (map fst (fst (polls usart fuel None s))) = map RPacket ps /\ snd (polls usart fuel None s) = None /\
  (forall r, In r (map fst (fst (polls usart fuel None s))) -> r = RNone \/ exists p, In p ps /\ r = RPacket p).
Proof. exact transparent_usart. Qed.

(* serial port and CAN: 'no data yet' any number of times between link frames *)
Theorem C13_serial : forall ps its fuel, Forall wfp ps -> Forall small ps -> map snd its = concat (map frag_spec ps) ->
  let s := concat (map (gapped STO frames_tokens_serial) its) in (length s < fuel)%nat ->
  filter notnone (map fst (fst (polls serial fuel None s))) = map RPacket ps /\ snd (polls serial fuel None s) = None.
Proof. exact transparent_serial. Qed.

(* ... and the serial port's reads may additionally be interrupted (EINTR: read_exact retries) any number of times at ANY point, inside
   link frames too: s' is any script that becomes the gapped one when its interrupt answers are dropped *)
Theorem C13_serial_interrupted : forall ps its fuel s', Forall wfp ps -> Forall small ps -> map snd its = concat (map frag_spec ps) ->
  drop_sint s' = concat (map (gapped STO frames_tokens_serial) its) -> (length s' < fuel)%nat ->
  filter notnone (map fst (fst (polls serial fuel None s'))) = map RPacket ps /\ snd (polls serial fuel None s') = None.
Proof. exact transparent_serial_interrupted. Qed.

Theorem C13_can : forall ps its fuel, Forall wfp ps -> Forall small ps -> map snd its = concat (map frag_spec ps) ->
  let s := concat (map (gapped CWB frames_tokens_can) its) in (length s < fuel)%nat ->
  filter notnone (map fst (fst (polls can fuel None s))) = map RPacket ps /\ snd (polls can fuel None s) = None.
Proof. exact transparent_can. Qed.

(* the harness loop returns the emissions of the automaton's flat run, then one or two 'nothing received' *)
Theorem C13_polls_run : forall (M: machine), mexh M (idle M) = RNone ->
  forall fuel s b rs bf, (length s < fuel)%nat -> run M (idle M) b s = (rs, idle M, bf) ->
  exists k, (1 <= k <= 2)%nat /\ map fst (fst (polls M fuel b s)) = rs ++ repeat RNone k /\ snd (polls M fuel b s) = bf.
Proof. exact polls_run. Qed.

Example C13_nonvacuous :
  let p := mkP false 7 [1; 2; 3; 4; 5; 6; 7; 8; 9; 10] in
  wf_packet p = true /\ small p /\
  map fst (fst (polls usart 200 None ([UWB] ++ map UB (firstn 5 (wire_packets [p])) ++ [UWB; UWB] ++ map UB (skipn 5 (wire_packets [p]))))) = [RNone; RPacket p; RNone].
Proof. cbv zeta. split; [reflexivity|]. split; [unfold small; cbn; lia|]. vm_compute. reflexivity. Qed.

(* sender and receiver together, in the model: what try_send_packet puts on a USART link for a packet sequence
   (fragmentation, frame encoding, the emission loop under any would-block pattern that eventually accepts every
   byte) is exactly the wire image C13_usart is stated for *)
Theorem C13_sender_usart : forall ps ans, Forall wfp ps -> Forall small ps -> no_wfail ans ->
  (length (wire_packets ps) <= accepts_in ans)%nat ->
  exists rest, usart_send_packets ps ans = Val (wire_packets ps, rest).
Proof. exact sender_usart. Qed.

Theorem C13_sender_serial : forall ps ans, Forall wfp ps -> Forall small ps -> no_pbad ans ->
  exists encs, enc_packets ps = Val encs /\ serial_send encs ans true = (wire_packets ps, Val tt).
Proof. exact sender_serial. Qed.

Theorem C13_sender_can : forall ps ans, Forall wfp ps -> Forall small ps ->
  let cfs := concat (map (fun p => map can_of (frag_spec p)) ps) in
  (length cfs <= length (outcomes ans))%nat -> Forall (fun t => t = TSent) (firstn (length cfs) (outcomes ans)) ->
  mapM (fun p => match to_frames p with Val fs => (match mapM to_bxcan fs with Val cs => Val cs | Fail _ => Panic | Panic => Panic | Hang => Hang end : out (list canframe) lerr) | Fail _ => Panic | Panic => Panic | Hang => Hang end) ps
    = Val (map (fun p => map can_of (frag_spec p)) ps) /\
  can_send cfs ans = (cfs, Val tt).
Proof. exact sender_can. Qed.

(* the other 'no data yet' answers the streams use between link frames: a serial-port read that fails with any io error other than
   Interrupted (WouldBlock, Ok(0)->UnexpectedEof, ...) and a CAN receive that reports an overrun - both are 'nothing received' for that poll
   and lose nothing (same generic lemma: any token q that an idle receiver answers with RNone, state unchanged) *)
Theorem C13_serial_other_failure : forall ps its fuel, Forall wfp ps -> Forall small ps -> map snd its = concat (map frag_spec ps) ->
  let s := concat (map (gapped SERR frames_tokens_serial) its) in (length s < fuel)%nat ->
  filter notnone (map fst (fst (polls serial fuel None s))) = map RPacket ps /\ snd (polls serial fuel None s) = None.
Proof.
  apply (transparent_gapped serial eq_refl SERR frames_tokens_serial); [reflexivity|].
  intros fs st rest H. apply (run_serial_frames fs st rest H).
Qed.
Theorem C13_can_overrun : forall ps its fuel, Forall wfp ps -> Forall small ps -> map snd its = concat (map frag_spec ps) ->
  let s := concat (map (gapped COverrun frames_tokens_can) its) in (length s < fuel)%nat ->
  filter notnone (map fst (fst (polls can fuel None s))) = map RPacket ps /\ snd (polls can fuel None s) = None.
Proof.
  apply (transparent_gapped can eq_refl COverrun frames_tokens_can); [reflexivity|].
  intros fs st rest H. apply (run_can_frames fs st rest H).
Qed.
