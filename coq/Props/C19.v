(* C19 - receiver memory is bounded by the packet in flight and freed at boundaries (the bookkeeping part;
   the byte counts themselves are measured against these bounds by the correspondence check). *)
Require Import RP.Model.Base RP.Model.Packet RP.Model.Cobs RP.Model.Frame RP.Model.Links
  RP.Lemmas.Builder RP.Lemmas.OnFrame RP.Lemmas.LinkGeneric RP.Lemmas.LinkTheorems.

(* after ANY prefix of ANY traffic made of whole link frames / driver frames, the receiver holds at most
   the announced number of frames of the single packet under reassembly, itself at most 4096 *)
Theorem C19_bound_bytes : forall items k, Forall bitem_ok items ->
  let st := snd (srun bitem_step None (firstn k items)) in held st <= announced st /\ announced st <= 4096.
Proof. exact (held_bounded bitem_ok bitem_step bitem_safe). Qed.
Theorem C19_bound_can : forall items k, Forall citem_ok items ->
  let st := snd (srun citem_step None (firstn k items)) in held st <= announced st /\ announced st <= 4096.
Proof. exact (held_bounded citem_ok citem_step citem_safe). Qed.

(* a step that delivers a packet or reports a reassembly error leaves the receiver empty *)
Theorem C19_released : forall st d, rx_ok st -> d <> Panic -> d <> Hang -> (forall f, d = Val f -> wf_frame f = true) ->
  (forall p, snd (on_decoded st d) = Some (RPacket p) -> fst (on_decoded st d) = None) /\
  (forall e, snd (on_decoded st d) = Some (RErr (LBuilder e)) -> fst (on_decoded st d) = None).
Proof. intros st d H1 H2 H3 H4. destruct (on_decoded_ok st d H1 H2 H3 H4) as [_ [_ H]]. exact H. Qed.

(* the raw link frame buffer of the USART / serial receivers never exceeds the announced length (<= 255) *)
Theorem C19_body_bound : forall ph b x, phase_ok ph -> x < 256 ->
  match fst (ustep ph b (UB x)) with Cont ph' => phase_ok ph' | Emit _ => True end.
Proof. exact ustep_phase_ok. Qed.

Example C19_nonvacuous : phase_ok (UBody 255 [1; 2; 3]) /\ bitem_ok (IRaw [0; 0; 0]) /\ citem_ok (KFrame (mkCF true false 5 0 [])).
Proof. split; [cbn; lia|]. split; [split; [cbn; lia|reflexivity]|reflexivity]. Qed.
