(* C19 - receiver memory is bounded by the packet in flight and freed at boundaries (the bookkeeping part;
   the byte counts themselves are measured against these bounds by the correspondence check). *)
Require Import RP.Model.Base RP.Model.Packet RP.Model.Cobs RP.Model.Frame RP.Model.Links
  RP.Lemmas.Builder RP.Lemmas.OnFrame RP.Lemmas.LinkGeneric RP.Lemmas.LinkTheorems.

(* after ANY prefix of ANY traffic made of whole link frames / driver frames, the receiver holds at most
   the announced number of frames of the single packet under reassembly, itself at most 4096 *)
Theorem C19_bound_bytes : forall items k, Forall bitem_ok items ->
  let st := snd (srun bitem_step None (firstn k items)) in held st <= announced st /\ announced st <= 4096.
Proof. exact (held_bounded bitem_ok bitem_step bitem_safe). Qed.
Theorem C19_bound_can : forall items k, Forall citem_ok items ->
  let st := snd (srun citem_step None (firstn k items)) in held st <= announced st /\ announced st <= 4096.
Proof. exact (held_bounded citem_ok citem_step citem_safe). Qed.

(* a step that delivers a packet or reports a reassembly error leaves the receiver empty *)
Theorem C19_released : forall st d, rx_ok st -> d <> Panic -> d <> Hang -> (forall f, d = Val f -> wf_frame f = true) ->
  (forall p, snd (on_decoded st d) = Some (RPacket p) -> fst (on_decoded st d) = None) /\
  (forall e, snd (on_decoded st d) = Some (RErr (LBuilder e)) -> fst (on_decoded st d) = None).
Proof. intros st d H1 H2 H3 H4. destruct (on_decoded_ok st d H1 H2 H3 H4) as [_ [_ H]]. exact H. Qed.

(* the raw link frame buffer of the USART / serial receivers never exceeds the announced length (<= 255) *)
Theorem C19_body_bound : forall ph b x, phase_ok ph -> x < 256 ->
  match fst (ustep ph b (UB x)) with Cont ph' => phase_ok ph' | Emit _ => True end.
Proof. exact ustep_phase_ok. Qed.

Example C19_nonvacuous : phase_ok (UBody 255 [1; 2; 3]) /\ bitem_ok (IRaw [0; 0; 0]) /\ citem_ok (KFrame (mkCF true false 5 0 [])).
Proof. split; [cbn; lia|]. split; [split; [cbn; lia|reflexivity]|reflexivity]. Qed.

(* token level: for EVERY raw device script (arbitrary numbers read as bytes / 'no data yet' / read errors in any arrangement -
   truncated link frames, faults inside frames; on CAN every script of driver-constructible frames, would-block answers and overrun
   reports), after EVERY poll of the harness loop the receiver holds at most the announced frame count of one packet, itself at most
   4096.  polls_held lists, per poll, (result, frames held, frames announced). *)
Require Import RP.Glue.Wire RP.Glue.StreamLink RP.Lemmas.HeldTokens.
Theorem C19_bound_tokens_usart : forall toks fuel,
  Forall (fun e : res * N * N => let '(_, held, ann) := e in held <= ann /\ ann <= 4096) (polls_held usart fuel None (map utok_of toks)).
Proof. exact held_tokens_usart. Qed.
Theorem C19_bound_tokens_serial : forall toks fuel,
  Forall (fun e : res * N * N => let '(_, held, ann) := e in held <= ann /\ ann <= 4096) (polls_held serial fuel None (map stok_of toks)).
Proof. exact held_tokens_serial. Qed.
Theorem C19_bound_tokens_can : forall s fuel, Forall (fun t => match t with CF c => wf_canframe c = true | _ => True end) s ->
  Forall (fun e : res * N * N => let '(_, held, ann) := e in held <= ann /\ ann <= 4096) (polls_held can fuel None s).
Proof. exact held_tokens_can. Qed.

(* the extracted checker accepts the model's observation (heap 0: the model holds no bytes; its frame bookkeeping is what the fine clause
   uses) of EVERY case line on USART and the serial port, and of every script of driver-constructible frames on CAN *)
Theorem C19_checker_accepts_model_usart : forall case meta toks, rcv_split case = Some (1, meta, toks) -> ok_C19 case (run_RCV case) = [].
Proof. exact ok_C19_usart_accepts_model. Qed.
Theorem C19_checker_accepts_model_serial : forall case meta toks, rcv_split case = Some (2, meta, toks) -> ok_C19 case (run_RCV case) = [].
Proof. exact ok_C19_serial_accepts_model. Qed.
Theorem C19_checker_accepts_model_can : forall case meta toks s, rcv_split case = Some (0, meta, toks) -> ctoks_of toks = Some s ->
  Forall (fun t => match t with CF c => wf_canframe c = true | _ => True end) s -> ok_C19 case (run_RCV case) = [].
Proof. exact ok_C19_can_accepts_model. Qed.

(* the token-level statement has content: a script that ends in the middle of a link frame, after the first frame of a two-frame packet -
   the poll never returns (RHang: block! spins on an exhausted device) and the receiver holds 1 frame of the 2 announced *)
Require Import RP.Lemmas.LinkUsart RP.Spec.Frag.
Example C19_tokens_nonvacuous :
  let p := mkP true 9 [9; 8; 7; 6; 5; 4; 3; 2; 1; 0] in
  exists f rest, frag_spec p = f :: rest /\
    map (fun e : res * N * N => (snd (fst e), snd e)) (polls_held usart 100 None (map utok_of (link_frame (enc_of f) ++ [0; 5; 1; 2]))) = [(1, 2)].
Proof. cbv zeta. eexists; eexists. split; [vm_compute; reflexivity|vm_compute; reflexivity]. Qed.
