(* C06 - receivers survive corrupted and foreign traffic and resynchronise. *)
Require Import RP.Model.Base RP.Model.Packet RP.Model.Cobs RP.Model.Frame RP.Model.Links RP.Spec.Frag
  RP.Lemmas.OnFrame RP.Lemmas.LinkGeneric RP.Lemmas.LinkUsart RP.Lemmas.LinkSerialCan RP.Lemmas.LinkTheorems.

(* frame level, link independent: after ANY prior receiver state, two back-to-back packets: the second
   is delivered intact, the first is delivered intact or dropped with errors only; nothing else is
   delivered; the receiver ends empty *)
Theorem C06_resync_frames : forall st p1 p2, small p1 -> small p2 ->
  let '(rs, stf) := frun st (frag_spec p1 ++ frag_spec p2) in
  stf = None /\
  ((st = None /\ rs = [RPacket p1; RPacket p2]) \/
   (st <> None /\ exists errs, errs <> [] /\ Forall is_err errs /\ rs = errs ++ [RPacket p2])).
Proof. exact resync. Qed.

(* every step on arbitrary bytes / arbitrary driver frames keeps the receiver invariant and neither panics nor hangs *)
Theorem C06_step_safe_bytes : safe_step (fun body => bytes body = true) on_body.
Proof. exact on_body_safe. Qed.
Theorem C06_step_safe_can : safe_step (fun c => wf_canframe c = true) (fun st c => on_decoded st (from_bxcan c)).
Proof. exact on_can_safe. Qed.

(* link level: ANY sequence of whole link frames (delimiter, any length byte 0..=255, that many arbitrary
   bytes), non-zero noise bytes and 'no data yet' answers, followed by two well-formed packets: every poll
   returns a packet, an error value or 'nothing received' (pre is all good: no panic, no hang), and the
   probe results have the shape demanded; the polls end with 'nothing received' and an empty receiver *)
Theorem C06_usart : forall items p1 p2 fuel, Forall bitem_ok items -> wfp p1 -> wfp p2 -> small p1 -> small p2 ->
  let s := concat (map uitem_toks items) ++ concat (map (fun f => map UB (link_frame (enc_of f))) (frag_spec p1 ++ frag_spec p2)) in (length s < fuel)%nat ->
  exists pre probe k, (1 <= k <= 2)%nat /\ map fst (fst (polls usart fuel None s)) = pre ++ probe ++ repeat RNone k /\
    Forall good pre /\ probe_shape p1 p2 probe /\ snd (polls usart fuel None s) = None.
Proof. exact resync_usart. Qed.

Theorem C06_serial : forall items p1 p2 fuel, Forall bitem_ok items -> wfp p1 -> wfp p2 -> small p1 -> small p2 ->
  let s := concat (map sitem_toks items) ++ concat (map frames_tokens_serial (frag_spec p1 ++ frag_spec p2)) in (length s < fuel)%nat ->
  exists pre probe k, (1 <= k <= 2)%nat /\ map fst (fst (polls serial fuel None s)) = pre ++ probe ++ repeat RNone k /\
    Forall good pre /\ probe_shape p1 p2 probe /\ snd (polls serial fuel None s) = None.
Proof. exact resync_serial. Qed.

Theorem C06_can : forall items p1 p2 fuel, Forall citem_ok items -> wfp p1 -> wfp p2 -> small p1 -> small p2 ->
  let s := concat (map citem_toks items) ++ concat (map frames_tokens_can (frag_spec p1 ++ frag_spec p2)) in (length s < fuel)%nat ->
  exists pre probe k, (1 <= k <= 2)%nat /\ map fst (fst (polls can fuel None s)) = pre ++ probe ++ repeat RNone k /\
    Forall good pre /\ probe_shape p1 p2 probe /\ snd (polls can fuel None s) = None.
Proof. exact resync_can. Qed.

(* non-vacuity, with the scripts of the repaired defects F5 (zero length byte) and F2 (malformed COBS) as prefix *)
Example C06_nonvacuous :
  let p1 := mkP false 7 [1; 2; 3] in let p2 := mkP true 9 [9; 8; 7; 6; 5; 4; 3; 2; 1; 0] in
  Forall bitem_ok [IRaw []; IRaw [5; 1; 2]; INoise 77; IGap] /\
  map fst (fst (polls usart 200 None (concat (map uitem_toks [IRaw []; IRaw [5; 1; 2]; INoise 77; IGap]) ++
        concat (map (fun f => map UB (link_frame (enc_of f))) (frag_spec p1 ++ frag_spec p2))))) =
  [RErr (LFrame CobsError); RErr (LFrame CobsError); RNone; RPacket p1; RPacket p2; RNone].
Proof.
  cbv zeta. split.
  - repeat constructor; cbn; try lia.
  - vm_compute. reflexivity.
Qed.

(* the extracted checker accepts the model's observation of every script in the quantifier (whole link frames, noise, 'no data yet'
   answers or overrun reports, then the two probe packets), on each link: on an implementation that behaves like the model the C06
   check cannot raise an alarm.  c06_case is the case line the harness writes (link, probe block, device tokens). *)
Require Import RP.Glue.Wire RP.Glue.StreamLink RP.Lemmas.GlueC06.
Theorem C06_checker_accepts_model_usart : forall items p1 p2 np toks, Forall bitem_ok items -> wfp p1 -> wfp p2 -> small p1 -> small p2 ->
  map utok_of toks = concat (map uitem_toks items) ++ concat (map (fun f => map UB (link_frame (enc_of f))) (frag_spec p1 ++ frag_spec p2)) ->
  ok_C06 (c06_case 1 np p1 p2 toks) (run_RCV (c06_case 1 np p1 p2 toks)) = [].
Proof. exact ok_C06_usart_accepts_model. Qed.
Theorem C06_checker_accepts_model_serial : forall items p1 p2 np toks, Forall bitem_ok items -> wfp p1 -> wfp p2 -> small p1 -> small p2 ->
  map stok_of toks = concat (map sitem_toks items) ++ concat (map frames_tokens_serial (frag_spec p1 ++ frag_spec p2)) ->
  ok_C06 (c06_case 2 np p1 p2 toks) (run_RCV (c06_case 2 np p1 p2 toks)) = [].
Proof. exact ok_C06_serial_accepts_model. Qed.
Theorem C06_checker_accepts_model_can : forall items p1 p2 np toks, Forall citem_ok items -> wfp p1 -> wfp p2 -> small p1 -> small p2 ->
  ctoks_of toks = Some (concat (map citem_toks items) ++ concat (map frames_tokens_can (frag_spec p1 ++ frag_spec p2))) ->
  ok_C06 (c06_case 0 np p1 p2 toks) (run_RCV (c06_case 0 np p1 p2 toks)) = [].
Proof. exact ok_C06_can_accepts_model. Qed.
