(* C15 - a tick delivers each received packet to exactly the right handlers, once. *)
Require Import RP.Model.Base RP.Model.Packet RP.Model.Events RP.Model.Protocol RP.Lemmas.Registry RP.Lemmas.ProtocolLemmas.

(* a tick issues exactly one get; a packet is delivered unmodified, exactly once and in key order, to every
   handler when addressed to the own address or broadcast and otherwise to every capture-all handler and no
   other (dispatch_log: each selected handler's entry is followed by the nested deliveries of the packets that
   handler itself sent to the own address); what the invoked handlers transmit goes to the link in order
   (dispatch_sent); 'nothing received' is a success with no handler call; any other link error is returned
   with no handler call *)
Theorem C15_tick : forall own t i,
  match iget i with
  | (GPacket p, i') =>
      tick own t i = (Val tt, dispatch_log own t p (owned_addr own p), isend_all i' (dispatch_sent own t (owned_addr own p)))
  | (GNone, i') => tick own t i = (Val tt, [], i')
  | (GErr c, i') => tick own t i = (Fail (PInterface c), [], i')
  end.
Proof.
  intros own t i. unfold tick. destruct (iget i) as [[p| |c] i']; try reflexivity.
  rewrite handle_packet_spec. reflexivity.
Qed.

(* when no handler sends to the own address: exactly one log entry per selected handler, and everything the
   selected handlers send is transmitted *)
Theorem C15_quiet : forall own t p owned, quiet own t = true ->
  dispatch_log own t p owned = map (fun kh => (fst kh, h_label (snd kh), p)) (invoked t owned) /\
  dispatch_sent own t owned = concat (map (fun kh => h_sends (snd kh)) (invoked t owned)).
Proof. exact dispatch_quiet. Qed.

Theorem C15_selection : forall t, invoked t true = t /\ (forall kh, In kh (invoked t false) <-> In kh t /\ h_cap (snd kh) = true).
Proof. intros t. split; [apply invoked_owned|]. intros kh. unfold invoked. rewrite filter_In. cbn. tauto. Qed.

(* the handlers' transmissions leave the incoming queue untouched and are appended to what was sent *)
Theorem C15_handler_sends : forall ps i, i_sent (isend_all i ps) = i_sent i ++ ps /\ i_gets (isend_all i ps) = i_gets i.
Proof. intros ps i. destruct (isend_all_spec ps i) as [H1 [H2 _]]. split; assumption. Qed.

Example C15_nonvacuous :
  let t := [(0, mkH 10 false []); (1, mkH 11 true [mkP false 9 [1]]); (3, mkH 13 false [])] in
  let p := mkP false 5 [7; 7] in
  tick 4 t (mkI [GPacket p] [] []) = (Val tt, [(1, 11, p)], mkI [] [] [mkP false 9 [1]]) /\
  tick 5 t (mkI [GPacket p] [] []) = (Val tt, [(0, 10, p); (1, 11, p); (3, 13, p)], mkI [] [] [mkP false 9 [1]]) /\
  tick 5 t (mkI [GErr 30] [] []) = (Fail (PInterface 30), [], mkI [] [] []) /\
  (* handler 1 sends a packet to the own address 9 from inside the dispatch: every handler sees it once, nested, and it is not transmitted *)
  tick 9 t (mkI [GPacket p] [] []) = (Val tt, [(1, 11, p); (0, 10, mkP false 9 [1]); (1, 11, mkP false 9 [1]); (3, 13, mkP false 9 [1])], mkI [] [] []).
Proof. repeat split; reflexivity. Qed.

(* the extracted checker accepts the model's observations of every operation history (the table it rebuilds from the returned ids is the model's) *)
Require Import RP.Glue.Wire RP.Glue.StreamLink RP.Glue.StreamProto RP.Lemmas.GlueLemmas.
Theorem C15_checker_accepts_model : forall case own ops, pro_split case = Some (own, ops) -> ok_C15 case (run_PRO case) = [].
Proof. exact ok_C15_accepts_model. Qed.
