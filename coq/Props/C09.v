(* C09 - USART frame codec follows the byte layout, round-trips, emits no delimiter byte. *)
Require Import RP.Model.Base RP.Model.Packet RP.Model.Cobs RP.Model.Frame RP.Lemmas.CobsLemmas RP.Lemmas.FrameUsart.

(* encoding = COBS of the 5-byte header (flags in bits 7..5, id nibble in bits 3..0; id low byte;
   address big-endian; data length) followed by the data bytes *)
Theorem C09_layout : forall f, wf_frame f = true ->
  to_usart f = Val (cobs_encode (header_spec f ++ firstn (N.to_nat (f_dlen f)) (f_data f))).
Proof. exact usart_layout. Qed.

(* round trip (id read as last-frame id or current id according to the start flag), no zero byte,
   length = data length + 6 <= 14 *)
Theorem C09_roundtrip : forall f, wf_frame f = true -> f_last f = f_st f ->
  exists enc, to_usart f = Val enc /\ from_usart enc = Val f /\ ~ In 0 enc /\ (length enc = N.to_nat (f_dlen f) + 6)%nat.
Proof. exact usart_roundtrip. Qed.

Theorem C09_length_bound : forall f enc, wf_frame f = true -> f_last f = f_st f -> to_usart f = Val enc -> (length enc <= 14)%nat /\ ~ In 0 enc.
Proof.
  intros f enc Hwf Hl He. destruct (usart_roundtrip f Hwf Hl) as [enc' [He' [_ [Hz Hlen]]]].
  rewrite He in He'. inversion He'; subst enc'. split; [|exact Hz].
  destruct (wf_frame_parts f Hwf) as [Hd _]. lia.
Qed.

(* decode side: the COBS encoding of every 5..13-byte body whose length byte matches decodes per the layout *)
Theorem C09_decode_all : forall body, bytes body = true -> (5 <= length body <= 13)%nat -> nth 4 body 0 = N.of_nat (length body - 5) ->
  from_usart (cobs_encode body) = Val (frame_of_body body).
Proof. exact from_usart_body. Qed.

(* a body whose size disagrees with its declared data length is rejected *)
Theorem C09_size_mismatch : forall body, bytes body = true -> (0 < length body)%nat -> (length body < 254)%nat ->
  ((length body < 5)%nat \/ 8 < nth 4 body 0 \/ length body <> (N.to_nat (nth 4 body 0%N) + 5)%nat) ->
  from_usart (cobs_encode body) = Fail WrongSize.
Proof. exact from_usart_size_mismatch. Qed.

(* the COBS layer itself *)
Theorem C09_cobs_roundtrip : forall src, (length src < 254)%nat -> src <> [] -> cobs_decode (cobs_encode src) = Some src.
Proof. exact cobs_roundtrip. Qed.

Example C09_nonvacuous :
  wf_frame (mkF true false true false 1365 21845 8 [85; 85; 85; 85; 85; 85; 85; 85]) = true /\
  to_usart (mkF true false true false 1365 21845 8 [85; 85; 85; 85; 85; 85; 85; 85]) = Val [14; 165; 85; 85; 85; 8; 85; 85; 85; 85; 85; 85; 85; 85] /\
  to_usart (mkF false true false true 0 0 2 [0; 0; 0; 0; 0; 0; 0; 0]) = Val [2; 64; 1; 1; 2; 2; 1; 1].
Proof. repeat split; reflexivity. Qed.

(* the extracted checkers accept the model's observations: for every well-formed frame (encode side) and every byte string (decode side) *)
Require Import RP.Glue.Wire RP.Glue.StreamFrame RP.Lemmas.GlueLemmas.
Theorem C09_checker_accepts_model_encode : forall f, wf_frame f = true -> ok_C09_USE (show_frame f) (run_USE (show_frame f)) = [].
Proof. exact ok_C09_USE_accepts_model. Qed.
Theorem C09_checker_accepts_model_decode : forall bs, bytes bs = true -> ok_C09_USD bs (run_USD bs) = [].
Proof. exact ok_C09_USD_accepts_model. Qed.
