(* C16 - sending routes a packet to local handlers or to the link, as addressed. *)
Require Import RP.Model.Base RP.Model.Packet RP.Model.Events RP.Model.Protocol RP.Lemmas.Registry RP.Lemmas.ProtocolLemmas.

Definition answer (a: N) : out unit perr := if a =? 0 then Val tt else Fail (PInterface a).

(* dispatch_log own t p true = for every registered handler, in key order, its entry for p (followed by the nested
   deliveries of what that handler itself sent to the own address); dispatch_sent own t true = what the handlers transmit *)
Theorem C16_send : forall own t p i,
  (* own address, not the broadcast address: every local handler once, nothing of it on the link, Ok *)
  (p_addr p = own -> own <> BROADCAST -> send_packet own t p i = (Val tt, dispatch_log own t p true, isend_all i (dispatch_sent own t true))) /\
  (* a device whose own address is the broadcast address also transmits it; the link answer is returned *)
  (p_addr p = own -> own = BROADCAST ->
     send_packet own t p i = (answer (fst (isend (isend_all i (dispatch_sent own t true)) p)), dispatch_log own t p true, snd (isend (isend_all i (dispatch_sent own t true)) p))) /\
  (* any other destination: transmitted exactly once, unmodified, no local handler; the link answer is returned *)
  (p_addr p <> own -> send_packet own t p i = (answer (fst (isend i p)), [], snd (isend i p))).
Proof.
  intros own t p i. unfold send_packet, answer. repeat split.
  - intros Ha Hb. assert (E1: (p_addr p =? own) = true) by lia. assert (E2: (own =? BROADCAST) = false) by lia.
    rewrite E1, E2, handle_packet_spec. reflexivity.
  - intros Ha Hb. assert (E1: (p_addr p =? own) = true) by lia. assert (E2: (own =? BROADCAST) = true) by lia.
    rewrite E1, E2, handle_packet_spec. cbn [andb negb]. destruct (isend _ p) as [a i2]. reflexivity.
  - intros Ha. assert (E1: (p_addr p =? own) = false) by lia. rewrite E1. cbn [andb]. destruct (isend i p) as [a i2]. reflexivity.
Qed.

(* a top-level send to the own address reaches EVERY registered handler exactly once (the first entry of each
   handler's block), in key order: with no re-entrant sends the log is exactly that *)
Theorem C16_every_handler_once : forall own t p, quiet own t = true ->
  dispatch_log own t p true = map (fun kh => (fst kh, h_label (snd kh), p)) t /\ dispatch_sent own t true = concat (map (fun kh => h_sends (snd kh)) t).
Proof. intros own t p Hq. destruct (dispatch_quiet own t p true Hq) as [H1 H2]. rewrite invoked_owned in H1, H2. split; assumption. Qed.

(* the same routing rule for the sends a handler makes from inside a dispatch: a packet to the own address is delivered once to
   every registered handler (leaf_log) and transmitted only when the own address is the broadcast address; any other packet is
   transmitted once and reaches no local handler *)
Theorem C16_nested : forall own t qs log i,
  fold_left (hsend own t) qs (log, i) = (log ++ nested_log own t qs, isend_all i (filter (transmitted own) qs)).
Proof. exact hbody_go. Qed.

Theorem C16_transmit : forall i p, i_sent (snd (isend i p)) = i_sent i ++ [p] /\ i_gets (snd (isend i p)) = i_gets i.
Proof. intros i p. unfold isend. destruct (i_sends i); split; reflexivity. Qed.

Example C16_nonvacuous :
  let t := [(0, mkH 10 false []); (2, mkH 12 true [])] in
  send_packet 65535 t (mkP false 65535 [1]) (mkI [] [41] []) = (Fail (PInterface 41), [(0, 10, mkP false 65535 [1]); (2, 12, mkP false 65535 [1])], mkI [] [] [mkP false 65535 [1]]) /\
  send_packet 7 t (mkP false 7 [1]) (mkI [] [41] []) = (Val tt, [(0, 10, mkP false 7 [1]); (2, 12, mkP false 7 [1])], mkI [] [41] []) /\
  send_packet 7 t (mkP true 8 [1]) (mkI [] [] []) = (Val tt, [], mkI [] [] [mkP true 8 [1]]) /\
  (* a handler that itself sends to the own address: the nested packet reaches both handlers once and stays off the link *)
  send_packet 7 [(0, mkH 10 false [mkP false 7 [9]]); (2, mkH 12 true [])] (mkP false 7 [1]) (mkI [] [] []) =
    (Val tt, [(0, 10, mkP false 7 [1]); (0, 10, mkP false 7 [9]); (2, 12, mkP false 7 [9]); (2, 12, mkP false 7 [1])], mkI [] [] []).
Proof. repeat split; reflexivity. Qed.

(* the extracted checker accepts the model's observations of every operation history (the table it rebuilds from the returned ids is the model's) *)
Require Import RP.Glue.Wire RP.Glue.StreamLink RP.Glue.StreamProto RP.Lemmas.GlueLemmas.
Theorem C16_checker_accepts_model : forall case own ops, pro_split case = Some (own, ops) -> ok_C16 case (run_PRO case) = [].
Proof. exact ok_C16_accepts_model. Qed.
