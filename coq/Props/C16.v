(* C16 - sending routes a packet to local handlers or to the link, as addressed. *)
Require Import RP.Model.Base RP.Model.Packet RP.Model.Events RP.Model.Protocol RP.Lemmas.Registry RP.Lemmas.ProtocolLemmas.

Definition all_log (t: table) (p: packet) : list logent := map (fun kh => (fst kh, h_label (snd kh), p)) t.
Definition all_sends (t: table) : list packet := concat (map (fun kh => h_sends (snd kh)) t).
Definition answer (a: N) : out unit perr := if a =? 0 then Val tt else Fail (PInterface a).

Theorem C16_send : forall own t p i,
  (* own address, not the broadcast address: every local handler once, nothing of it on the link, Ok *)
  (p_addr p = own -> own <> BROADCAST -> send_packet own t p i = (Val tt, all_log t p, isend_all i (all_sends t))) /\
  (* a device whose own address is the broadcast address also transmits it; the link answer is returned *)
  (p_addr p = own -> own = BROADCAST ->
     send_packet own t p i = (answer (fst (isend (isend_all i (all_sends t)) p)), all_log t p, snd (isend (isend_all i (all_sends t)) p))) /\
  (* any other destination: transmitted exactly once, unmodified, no local handler; the link answer is returned *)
  (p_addr p <> own -> send_packet own t p i = (answer (fst (isend i p)), [], snd (isend i p))).
Proof.
  intros own t p i. unfold send_packet, answer, all_log, all_sends. repeat split.
  - intros Ha Hb. assert (E1: (p_addr p =? own) = true) by lia. assert (E2: (own =? BROADCAST) = false) by lia.
    rewrite E1, E2, handle_packet_spec, invoked_owned. reflexivity.
  - intros Ha Hb. assert (E1: (p_addr p =? own) = true) by lia. assert (E2: (own =? BROADCAST) = true) by lia.
    rewrite E1, E2, handle_packet_spec, invoked_owned. cbn [andb negb]. destruct (isend _ p) as [a i2]. reflexivity.
  - intros Ha. assert (E1: (p_addr p =? own) = false) by lia. rewrite E1. cbn [andb]. destruct (isend i p) as [a i2]. reflexivity.
Qed.

Theorem C16_transmit : forall i p, i_sent (snd (isend i p)) = i_sent i ++ [p] /\ i_gets (snd (isend i p)) = i_gets i.
Proof. intros i p. unfold isend. destruct (i_sends i); split; reflexivity. Qed.

Example C16_nonvacuous :
  let t := [(0, mkH 10 false []); (2, mkH 12 true [])] in
  send_packet 65535 t (mkP false 65535 [1]) (mkI [] [41] []) = (Fail (PInterface 41), [(0, 10, mkP false 65535 [1]); (2, 12, mkP false 65535 [1])], mkI [] [] [mkP false 65535 [1]]) /\
  send_packet 7 t (mkP false 7 [1]) (mkI [] [41] []) = (Val tt, [(0, 10, mkP false 7 [1]); (2, 12, mkP false 7 [1])], mkI [] [41] []) /\
  send_packet 7 t (mkP true 8 [1]) (mkI [] [] []) = (Val tt, [], mkI [] [] [mkP true 8 [1]]).
Proof. repeat split; reflexivity. Qed.
