(* EventLayout.v - the published event layouts, written independently of Model/Events.v:
   (1) layout_of / layout_encode: code, receiver and the fields in documented order and widths,
       serialised by one generic big-endian serialiser;
   (2) ref_decode: a strict pattern-directed reference decoder (exact lengths, tags in range,
       boolean bytes 0/1, broadcast address for the two announcements);
   (3) layout_len, reason_applies: what the rejection reasons mean (used by C05). *)
Require Import RP.Model.Base RP.Model.Packet RP.Model.Events.

Inductive fld := F8 (v: N) | F16 (v: N) | F32 (v: N) | FRaw (l: list N).
Definition ser_fld (f: fld) : list N :=
  match f with
  | F8 v => [v]
  | F16 v => [v / 256; v mod 256]
  | F32 v => [v / 16777216; v / 65536 mod 256; v / 256 mod 256; v mod 256]
  | FRaw l => l
  end.
Definition ser (fs: list fld) : list N := concat (map ser_fld fs).

(* documented sub-encodings *)
Definition bcm_layout (v: bcm_value) : list fld :=
  match v with
  | Binary b => [F8 0; F8 (b2N b)]
  | Single x => [F8 1; F8 x]
  | Rgb r g b => [F8 2; F8 r; F8 g; F8 b]
  | RgbB r g b x => [F8 3; F8 r; F8 g; F8 b; F8 x]
  | Rgbw r g b w => [F8 4; F8 r; F8 g; F8 b; F8 w]
  | RgbwB r g b w x => [F8 5; F8 r; F8 g; F8 b; F8 w; F8 x]
  end.
Definition relay_layout (v: relay_value) : list fld :=
  match v with RSingle true => [F8 0] | RSingle false => [F8 1] | RFirst => [F8 2] | RSecond => [F8 3] | RNone => [F8 4] end.
(* message value: 4-byte tag and payload at offset 4, both in host (little-endian) byte order, 8 bytes, padding 0 *)
Definition le16 (v: N) : list N := [v mod 256; v / 256].
Definition le32 (v: N) : list N := [v mod 256; v / 256 mod 256; v / 65536 mod 256; v / 16777216].
Definition msg_layout (v: msg_value) : list fld :=
  match v with
  | MU8 x => [FRaw (le32 0); F8 x; FRaw [0; 0; 0]]
  | MU16 x => [FRaw (le32 1); FRaw (le16 x); FRaw [0; 0]]
  | MU32 x => [FRaw (le32 2); FRaw (le32 x)]
  | MBool b => [FRaw (le32 3); F8 (b2N b); FRaw [0; 0; 0]]
  end.

(* (event code, receiver address, fields after the code) *)
Definition layout_of (e: event) : N * N * list fld :=
  match e with
  | BootloaderHello p b => (0, p, [F16 b])
  | ProgrammerHello p => (1, 65535, [F16 p])
  | StartFirmware r p s => (2, r, [F16 p; F32 s])
  | Ack r t => (3, r, [F16 t])
  | Data r t l d => (4, r, [F16 t; F16 l; FRaw d])
  | ConfiguratorHello => (5, 65535, [])
  | BcmChange a t i v => (6, a, [F16 t; F8 i] ++ bcm_layout v)
  | ButtonPressed r b i => (7, r, [F16 b; F8 i])
  | ButtonReleased r b i => (8, r, [F16 b; F8 i])
  | SystemTick r => (9, r, [])
  | StartConfig r p s => (10, r, [F16 p; F32 s])
  | SetAddress r p n => (11, r, [F16 p; F16 n])
  | Message r t c v => (12, r, [F16 t; F16 c] ++ msg_layout v)
  | BcmAnimate a t i du v => (13, a, [F16 t; F8 i; F32 du] ++ bcm_layout v)
  | RelaySet a t i v => (14, a, [F16 t; F8 i] ++ relay_layout v)
  | GatewayDiscover d g => (15, d, [F16 g])
  end.
Definition layout_encode (e: event) : packet :=
  let '(c, r, fs) := layout_of e in mkP false r (ser (F16 c :: fs)).
Definition layout_len (e: event) : nat := length (p_data (layout_encode e)).

(* ---------- reference decoder ---------- *)
Definition w16 (h l: N) : N := h * 256 + l.
Definition w32 (a b c d: N) : N := ((a * 256 + b) * 256 + c) * 256 + d.
Definition ref_bcm (l: list N) : option bcm_value :=
  match l with
  | [t; x] => if t =? 0 then (if x =? 0 then Some (Binary false) else if x =? 1 then Some (Binary true) else None)
              else if t =? 1 then Some (Single x) else None
  | [t; r; g; b] => if t =? 2 then Some (Rgb r g b) else None
  | [t; r; g; b; x] => if t =? 3 then Some (RgbB r g b x) else if t =? 4 then Some (Rgbw r g b x) else None
  | [t; r; g; b; w; x] => if t =? 5 then Some (RgbwB r g b w x) else None
  | _ => None
  end.
Definition ref_relay (l: list N) : option relay_value :=
  match l with
  | [t] => if t =? 0 then Some (RSingle true) else if t =? 1 then Some (RSingle false) else if t =? 2 then Some RFirst
           else if t =? 3 then Some RSecond else if t =? 4 then Some RNone else None
  | _ => None
  end.
(* tag little-endian in bytes 0..3, payload from byte 4, padding must be zero *)
Definition ref_msg (l: list N) : option msg_value :=
  match l with
  | [t0; t1; t2; t3; b0; b1; b2; b3] =>
      if negb ((t1 =? 0) && (t2 =? 0) && (t3 =? 0)) then None
      else if t0 =? 0 then (if (b1 =? 0) && (b2 =? 0) && (b3 =? 0) then Some (MU8 b0) else None)
      else if t0 =? 1 then (if (b2 =? 0) && (b3 =? 0) then Some (MU16 (b1 * 256 + b0)) else None)
      else if t0 =? 2 then Some (MU32 (((b3 * 256 + b2) * 256 + b1) * 256 + b0))
      else if t0 =? 3 then (if (b1 =? 0) && (b2 =? 0) && (b3 =? 0) then
                              (if b0 =? 0 then Some (MBool false) else if b0 =? 1 then Some (MBool true) else None) else None)
      else None
  | _ => None
  end.

Definition ref_decode (k: kind) (p: packet) : option event :=
  if p_err p then None
  else if negb ((p_addr p <? 65536) && bytes (p_data p)) then None
  else
    let a := p_addr p in
    match p_data p with
    | c1 :: c0 :: body =>
        if negb (w16 c1 c0 =? code k) then None else
        match k, body with
        | KBootloaderHello, [b1; b0] => Some (BootloaderHello a (w16 b1 b0))
        | KProgrammerHello, [x1; x0] => if a =? 65535 then Some (ProgrammerHello (w16 x1 x0)) else None
        | KStartFirmware, [x1; x0; s3; s2; s1; s0] => Some (StartFirmware a (w16 x1 x0) (w32 s3 s2 s1 s0))
        | KAck, [t1; t0] => Some (Ack a (w16 t1 t0))
        | KData, t1 :: t0 :: l1 :: l0 :: d => if nlen d =? w16 l1 l0 then Some (Data a (w16 t1 t0) (w16 l1 l0) d) else None
        | KConfiguratorHello, [] => if a =? 65535 then Some ConfiguratorHello else None
        | KBcmChange, t1 :: t0 :: i :: v => option_map (BcmChange a (w16 t1 t0) i) (ref_bcm v)
        | KButtonPressed, [b1; b0; i] => Some (ButtonPressed a (w16 b1 b0) i)
        | KButtonReleased, [b1; b0; i] => Some (ButtonReleased a (w16 b1 b0) i)
        | KSystemTick, [] => Some (SystemTick a)
        | KStartConfig, [x1; x0; s3; s2; s1; s0] => Some (StartConfig a (w16 x1 x0) (w32 s3 s2 s1 s0))
        | KSetAddress, [x1; x0; n1; n0] => Some (SetAddress a (w16 x1 x0) (w16 n1 n0))
        | KMessage, t1 :: t0 :: m1 :: m0 :: v => option_map (Message a (w16 t1 t0) (w16 m1 m0)) (ref_msg v)
        | KBcmAnimate, t1 :: t0 :: i :: d3 :: d2 :: d1 :: d0 :: v => option_map (BcmAnimate a (w16 t1 t0) i (w32 d3 d2 d1 d0)) (ref_bcm v)
        | KRelaySet, t1 :: t0 :: i :: v => option_map (RelaySet a (w16 t1 t0) i) (ref_relay v)
        | KGatewayDiscover, [g1; g0] => Some (GatewayDiscover a (w16 g1 g0))
        | _, _ => None
        end
    | _ => None
    end.

(* ---------- what the rejection reasons mean ---------- *)
Definition code_of (p: packet) : option N := match p_data p with a :: b :: _ => Some (a * 256 + b) | _ => None end.
Definition nth0 (i: nat) (l: list N) : N := nth i l 0.
(* length of a brightness value with the given tag, None = unknown tag *)
Definition bcm_len (tag: N) : option nat :=
  match tag with 0 => Some 2%nat | 1 => Some 2%nat | 2 => Some 4%nat | 3 => Some 5%nat | 4 => Some 5%nat | 5 => Some 6%nat | _ => None end.
(* is [n] a payload length the layout of kind k allows for this packet (its declared length / tag)? *)
Definition len_allowed (k: kind) (p: packet) : bool :=
  let d := p_data p in let n := length d in
  let bcm_at (off: nat) := (off + 2 <=? n)%nat &&
        match bcm_len (nth0 off d) with Some l => (n =? off + l)%nat | None => true end in
  match k with
  | KBootloaderHello | KProgrammerHello | KAck | KGatewayDiscover => (n =? 4)%nat
  | KStartFirmware | KStartConfig => (n =? 8)%nat
  | KConfiguratorHello | KSystemTick => (n =? 2)%nat
  | KButtonPressed | KButtonReleased => (n =? 5)%nat
  | KSetAddress | KRelaySet => (n =? 6)%nat
  | KMessage => (n =? 14)%nat
  | KData => (6 <=? n)%nat && (n =? 6 + N.to_nat (w16 (nth0 4 d) (nth0 5 d)))%nat
  | KBcmChange => bcm_at 5%nat
  | KBcmAnimate => bcm_at 9%nat
  end.
Definition tag_unknown (k: kind) (p: packet) : bool :=
  let d := p_data p in
  match k with
  | KBcmChange => match bcm_len (nth0 5 d) with None => true | _ => false end
  | KBcmAnimate => match bcm_len (nth0 9 d) with None => true | _ => false end
  | KRelaySet => 4 <? nth0 5 d
  | KMessage => let t := ((nth0 9 d * 256 + nth0 8 d) * 256 + nth0 7 d) * 256 + nth0 6 d in
                (3 <? t) || ((t =? 3) && (1 <? nth0 10 d))
  | _ => false
  end.
Definition reason_applies (k: kind) (r: cerr) (p: packet) : bool :=
  match r with
  | CWrongSize => negb (len_allowed k p)
  | CWrongType => p_err p
  | CWrongEventType => match code_of p with Some c => negb (c =? code k) | None => false end
  | CUnknownEnumVariant => tag_unknown k p
  end.
