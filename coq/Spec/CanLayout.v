(* CanLayout.v - the CAN identifier layout, stated arithmetically (div / mod only), independent of
   the shift-and-mask code in Model/Frame.v. *)
Require Import RP.Model.Base RP.Model.Packet RP.Model.Frame.

(* bit 28 not-error, bit 27 start, bit 26 multi-frame, bits 19..16 high nibble of the frame id,
   bits 15..0 device address, zeros elsewhere *)
Definition can_id_spec (f: frame) : N :=
  b2N (f_ne f) * 268435456 + b2N (f_st f) * 134217728 + b2N (f_mf f) * 67108864 + (f_id f / 256) * 65536 + f_addr f.

Definition can_spec_decode (c: canframe) : out frame ferr :=
  if negb (cf_ext c) then Fail FrameIsStandard
  else if cf_remote c then Fail FrameIsRemote
  else
    let id := cf_id c in let d := cf_data c in
    let ne := (id / 268435456) mod 2 =? 1 in
    let st := (id / 134217728) mod 2 =? 1 in
    let mf := (id / 67108864) mod 2 =? 1 in
    let nibble := (id / 65536) mod 16 in
    let addr := id mod 65536 in
    if mf then
      match d with
      | [] => Fail FrameIdMissing
      | d0 :: _ => Val (mkF ne st true st (nibble * 256 + d0) addr (nlen d) (pad8 d))
      end
    else Val (mkF ne true false true 0 addr (nlen d) (pad8 d)).

(* frames that fragmentation can produce *)
Definition fragment_shaped (f: frame) : bool :=
  if f_mf f then (1 <=? f_dlen f) && (nth 0 (f_data f) 0 =? f_id f mod 256) && Bool.eqb (f_last f) (f_st f)
  else f_st f && f_last f && (f_id f =? 0).
