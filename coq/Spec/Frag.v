(* Frag.v - independently written reference fragmenter (spec for C10): structural recursion on
   7-byte chunks; nothing here refers to Model.Packet.to_frames. *)
Require Import RP.Model.Base RP.Model.Packet.

Fixpoint chunks7 (fuel: nat) (d: list N) : list (list N) :=
  match fuel with O => [] | S k => match d with [] => [] | _ => firstn 7 d :: chunks7 k (skipn 7 d) end end.

Definition frag_spec (p: packet) : list frame :=
  let d := p_data p in
  if (length d <=? 8)%nat then [mkF (negb (p_err p)) true false true 0 (p_addr p) (nlen d) (pad8 d)]
  else
    let cs := chunks7 (length d) d in
    let m := length cs in
    map (fun '(i, c) =>
           mkF (negb (p_err p)) (i =? 0)%nat true (i =? 0)%nat
               (if (i =? 0)%nat then N.of_nat (m - 1) else N.of_nat i) (p_addr p) (nlen c + 1)
               (pad8 ((if (i =? 0)%nat then N.of_nat (m - 1) mod 256 else N.of_nat i mod 256) :: c)))
        (combine (seq 0 m) cs).
