(* Extract.v - extraction of the executable model, views and checkers to OCaml.
   Directives: only those of ExtrOcamlBasic (bool, option, unit, list, prod, sumbool, sumor mapped to
   the OCaml types; andb/orb/negb inlined).  N, positive, nat stay the extracted inductive types. *)
Require Import RP.Model.Base RP.Model.Packet RP.Model.Events RP.Glue.Wire RP.Glue.StreamEV RP.Glue.StreamDEC RP.Glue.StreamFrame RP.Glue.StreamPacket RP.Glue.StreamLink RP.Glue.StreamProto RP.Glue.StreamE2E.
Require Import Extraction ExtrOcamlBasic.
Extraction Language OCaml.
Extraction "rp.ml" run_EV view_C03 ok_C03
  run_DEC view_C05 ok_C05 view_C11_DEC ok_C11_DEC view_C11_EV ok_C11_EV run_AMB view_C12 ok_C12
  run_USD run_USE run_CAD run_CAE view_C04_USD ok_C04_USD view_C04_CAD ok_C04_CAD view_C09_USE ok_C09_USE view_C09_USD ok_C09_USD
  view_C08_CAE ok_C08_CAE view_C08_CAD ok_C08_CAD
  run_FRG view_C10 ok_C10 run_REA view_C02 ok_C02 run_BLD view_C07 ok_C07
  run_RCV run_LNK run_SND view_C06 ok_C06 view_C13 ok_C13 view_C19 ok_C19 view_C14 ok_C14
  run_PRO run_EXC view_C15 ok_C15 view_C16 ok_C16 view_C17 ok_C17 view_C18 ok_C18 view_C18_PRO ok_C18_PRO
  run_E2E view_C01 ok_C01.
