(* Extract.v - extraction of the executable model, views and checkers to OCaml.
   Directives: only those of ExtrOcamlBasic (bool, option, unit, list, prod, sumbool, sumor mapped to
   the OCaml types; andb/orb/negb inlined).  N, positive, nat stay the extracted inductive types. *)
Require Import RP.Model.Base RP.Model.Packet RP.Model.Events RP.Glue.Wire RP.Glue.StreamEV.
Require Import Extraction ExtrOcamlBasic.
Extraction Language OCaml.
Set Extraction Output Directory ".".
Extraction "rp.ml" run_EV view_C03 ok_C03.
