(* Streams DEC and AMB over the event decoders.
   DEC: case = kind code :: packet; observation = result of decoding the packet as that kind and, when
        a value was returned, the result of decoding its re-encoding.  Serves C05 and the decode side of C11.
   AMB: case = 0 :: packet | 1 :: event; observation = for each of the 16 kinds whether its decoder
        accepts the packet (for an event: the packet produced by its encoder).  Serves C12.
   EV (defined in StreamEV) additionally serves the encode side of C11 through view_C11_EV. *)
Require Import RP.Model.Base RP.Model.Packet RP.Model.Events RP.Spec.EventLayout RP.Glue.Wire.

Definition run_DEC (case: list N) : list N :=
  match case with
  | kc :: rest =>
      match kind_of_code kc, parse_packet rest with
      | Some k, Some (p, []) =>
          let r := decode k p in
          show_dec r ++ match r with Val e => show_dec (decode k (encode e)) | _ => [] end
      | _, _ => BAD
      end
  | _ => BAD
  end.

Definition kind_eqb (a b: kind) : bool := code a =? code b.

(* C05 checker: [] = holds on this case; otherwise the number of the violated clause *)
Definition ok_C05 (case obs: list N) : list N :=
  match case with
  | kc :: rest =>
      match kind_of_code kc, parse_packet rest, parse_dobs obs with
      | Some k, Some (p, []), Some (d, r2) =>
          match d with
          | DVal fs =>
              match event_of fs with
              | None => [10]                                              (* value outside the domain *)
              | Some e =>
                  if negb (wf_event e) then [10]
                  else if negb (kind_eqb (kind_of e) k) then [11]          (* value of another kind *)
                  else if p_err p then [12]                                (* error packet accepted *)
                  else if negb (match code_of p with Some c => c =? code k | None => false end) then [13]   (* wrong event code accepted *)
                  else if negb (length (p_data p) =? layout_len e)%nat then [14]   (* not the length the layout requires *)
                  else if tag_unknown k p then [16]                        (* unknown variant tag / non-boolean byte materialised *)
                  else match parse_dobs r2 with
                       | Some (DVal fs2, []) => if list_eqb fs fs2 then [] else [15]   (* not stable under re-encoding *)
                       | _ => [15]
                       end
              end
          | DErr c => match cerr_of c with
                      | Some r => if reason_applies k r p then [] else [20; c]     (* reported reason does not apply *)
                      | None => [21; c]
                      end
          | DPanic => [1] | DHang => [2] | DInvalid => [3]
          end
      | _, _, _ => BAD
      end
  | _ => BAD
  end.

(* C05 view: Ok{value, in_domain, stable} / Err{reason_applies} / PANIC / HANG / INVALID *)
Definition view_C05 (case obs: list N) : list N :=
  match case with
  | kc :: rest =>
      match kind_of_code kc, parse_packet rest, parse_dobs obs with
      | Some k, Some (p, []), Some (d, r2) =>
          match d with
          | DVal fs =>
              let dom := match event_of fs with Some e => wf_event e | None => false end in
              let stable := match parse_dobs r2 with Some (DVal fs2, []) => list_eqb fs fs2 | _ => false end in
              0 :: b2N dom :: b2N stable :: fs
          | DErr c => [1; match cerr_of c with Some r => b2N (reason_applies k r p) | None => 0 end]
          | DPanic => [2] | DHang => [3] | DInvalid => [4]
          end
      | _, _, _ => BAD
      end
  | _ => BAD
  end.

(* C11, decode side: on packets the reference decoder accepts, the value must be the reference value *)
Definition first_dobs (obs: list N) : list N :=
  match parse_dobs obs with
  | Some (DVal fs, _) => 0 :: fs | Some (DErr c, _) => [1; c] | Some (DPanic, _) => [2] | Some (DHang, _) => [3] | Some (DInvalid, _) => [4] | None => BAD
  end.
Definition ref_of_case (case: list N) : option (option event) :=
  match case with
  | kc :: rest => match kind_of_code kc, parse_packet rest with
                  | Some k, Some (p, []) => Some (ref_decode k p)
                  | _, _ => None end
  | _ => None
  end.
Definition view_C11_DEC (case obs: list N) : list N :=
  match ref_of_case case with
  | Some (Some _) => first_dobs obs
  | Some None => []                      (* not a published encoding: outside C11 *)
  | None => BAD
  end.
Definition ok_C11_DEC (case obs: list N) : list N :=
  match ref_of_case case with
  | Some (Some e) => if list_eqb (first_dobs obs) (0 :: event_fields e) then [] else [30]
  | Some None => []
  | None => BAD
  end.
(* C11, encode side (stream EV): the packet must be the published layout *)
Definition view_C11_EV (case obs: list N) : list N :=
  match parse_packet obs with Some (p, _) => show_packet p | None => BAD end.
Definition ok_C11_EV (case obs: list N) : list N :=
  match event_of case, parse_packet obs with
  | Some e, Some (p, _) => if list_eqb (show_packet p) (show_packet (layout_encode e)) then [] else [31]
  | _, _ => BAD
  end.

(* ---------- AMB ---------- *)
Definition acc_flag (o: out event cerr) : N := match o with Val _ => 1 | Fail _ => 0 | Panic => 2 | Hang => 3 end.
Definition run_AMB (case: list N) : list N :=
  match case with
  | 0 :: rest => match parse_packet rest with
                 | Some (p, []) => map (fun k => acc_flag (decode k p)) all_kinds
                 | _ => BAD end
  | 1 :: rest => match event_of rest with
                 | Some e => map (fun k => acc_flag (decode k (encode e))) all_kinds
                 | None => BAD end
  | _ => BAD
  end.
(* a decoder that crashes has not decoded the packet successfully: for C12 that is a rejection (the crash itself is C05's business) *)
Definition acc_only (obs: list N) : list N := map (fun x => if x =? 1 then 1 else 0) obs.
Definition view_C12 (case obs: list N) : list N := acc_only obs.
Definition count_ones (l: list N) : nat := length (filter (fun x => x =? 1) l).
Definition ok_C12 (case obs: list N) : list N :=
  if negb (length obs =? 16)%nat then BAD
  else if (1 <? count_ones obs)%nat then [41]                              (* two kinds accept the same packet *)
  else match case with
       | 1 :: rest => match event_of rest with
                      | Some e =>
                          (* every OTHER kind must reject the encoding of e *)
                          if existsb (fun kf => negb (kind_eqb (fst kf) (kind_of e)) && (snd kf =? 1)) (combine all_kinds obs) then [42] else []
                      | None => BAD end
       | _ => []
       end.
