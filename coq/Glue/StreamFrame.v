(* Streams over the frame codecs.
   USD: byte string -> from_usart_frame, and for an accepted frame whether re-encoding it / feeding it to
        reassembly panics.                                    C04 (totality), C09 (decode side)
   USE: frame -> to_usart_frame, then from_usart_frame of the result.        C09 (encode side, round trip)
   CAD: driver CAN frame -> from_bxcan_frame (+ the same re-encode flags).   C04, C08 (decode side)
   CAE: frame -> to_bxcan_frame, then from_bxcan_frame of the result.        C08 (encode side, round trip) *)
Require Import RP.Model.Base RP.Model.Packet RP.Model.Cobs RP.Model.Frame RP.Spec.CanLayout RP.Lemmas.FrameUsart RP.Glue.Wire.

Definition ferr_code (e: ferr) : N :=
  match e with FrameIsStandard => 0 | FrameIsRemote => 1 | FrameIdMissing => 2 | WrongSize => 3 | CobsError => 4 end.
Definition show_can (c: canframe) : list N :=
  b2N (cf_ext c) :: b2N (cf_remote c) :: cf_id c :: cf_dlc c :: nlen (cf_data c) :: cf_data c.
Definition parse_can (l: list N) : option (canframe * list N) :=
  match l with
  | e :: r :: id :: dlc :: n :: rest =>
      match take n rest with Some (d, rest') => Some (mkCF (negb (e =? 0)) (negb (r =? 0)) id dlc d, rest') | None => None end
  | _ => None
  end.
Definition pflag {A E} (o: out A E) : N := match o with Panic => 2 | Hang => 3 | _ => 0 end.

(* does re-encoding the frame for either link, feeding it to reassembly, or building a small packet completed around it, panic? *)
(* a small packet completed around f and built: f as the start frame of a packet of at most 3 frames, or f as the last continuation
   frame (id 1 or 2) of one; the other frames carry one payload byte each *)
Definition cont_frame (f: frame) (i: N) : frame := mkF (f_ne f) false true false i (f_addr f) 1 [i mod 256; 0; 0; 0; 0; 0; 0; 0].
Definition start_for (f: frame) (lst: N) : frame := mkF (f_ne f) true true true lst (f_addr f) 1 [lst mod 256; 0; 0; 0; 0; 0; 0; 0].
Definition feed_frame (b: out builder berr) (g: frame) : out builder berr := match b with Val b' => add_frame b' g | o => o end.
Definition around (f: frame) : option (frame * list frame) :=
  if f_st f then (if f_last f && (f_id f <=? 2) then Some (f, map (cont_frame f) (firstn (N.to_nat (f_id f)) [1; 2])) else None)
  else if (1 <=? f_id f) && (f_id f <=? 2) then Some (start_for f (f_id f), map (cont_frame f) (firstn (N.to_nat (f_id f - 1)) [1]) ++ [f])
  else None.
Definition build_flag (f: frame) : N :=
  match around f with
  | Some (s, rest) => match fold_left feed_frame rest (builder_new s) with Val b => pflag (build b) | Panic => 2 | Hang => 3 | Fail _ => 0 end
  | None => 0
  end.
Definition reencode_flags (f: frame) : list N :=
  let start := mkF (f_ne f) true true true 4095 (f_addr f) 1 [255; 0; 0; 0; 0; 0; 0; 0] in
  [ pflag (to_usart f); pflag (to_bxcan f); pflag (builder_new f);
    match builder_new start with Val b => pflag (add_frame b f) | _ => 2 end;
    build_flag f ].

Definition run_USD (case: list N) : list N :=
  let r := from_usart case in
  show_out show_frame ferr_code r ++ match r with Val f => reencode_flags f | _ => [] end.
Definition run_CAD (case: list N) : list N :=
  match parse_can case with
  | Some (c, []) => let r := from_bxcan c in
                    show_out show_frame ferr_code r ++ match r with Val f => reencode_flags f | _ => [] end
  | _ => BAD
  end.
Definition run_USE (case: list N) : list N :=
  match parse_frame case with
  | Some (f, []) => let r := to_usart f in
                    show_out (fun x => x) ferr_code r ++ match r with Val enc => show_out show_frame ferr_code (from_usart enc) | _ => [] end
  | _ => BAD
  end.
Definition run_CAE (case: list N) : list N :=
  match parse_frame case with
  | Some (f, []) => let r := to_bxcan f in
                    show_out show_can ferr_code r ++ match r with Val c => show_out show_frame ferr_code (from_bxcan c) | _ => [] end
  | _ => BAD
  end.

(* a decode observation: Some (inl frame) | Some (inr class) ; class 1 = error value, 2 = panic, 3 = hang *)
Definition parse_fobs (l: list N) : option ((frame + N) * list N) :=
  match l with
  | 0 :: n :: r => match take n r with
                   | Some (v, r') => match parse_frame v with Some (f, []) => Some (inl f, r') | _ => None end
                   | None => None end
  | 1 :: c :: r => Some (inr 1, r)
  | 2 :: r => Some (inr 2, r)
  | 3 :: r => Some (inr 3, r)
  | 5 :: r => Some (inr 2, r)       (* harness crash *)
  | _ => None
  end.

(* ---------- C04 ---------- *)
Definition c04_view (obs: list N) : list N :=
  match parse_fobs obs with
  | Some (inl f, flags) => [0; b2N (wf_frame f); b2N (forallb (fun x => x =? 0) flags)]
  | Some (inr c, _) => [c]
  | None => BAD
  end.
Definition c04_ok (obs: list N) : list N :=
  match parse_fobs obs with
  | Some (inl f, flags) =>
      if negb (wf_frame f) then [50]                                  (* accepted frame is not well-formed *)
      else if negb (length flags =? 5)%nat then BAD
      else if negb (forallb (fun x => x =? 0) flags) then 51 :: flags  (* re-encoding / reassembly fails *)
      else []
  | Some (inr 1, _) => []
  | Some (inr c, _) => [52; c]                                        (* panic / hang *)
  | None => BAD
  end.
Definition view_C04_USD (case obs: list N) : list N := c04_view obs.
Definition ok_C04_USD (case obs: list N) : list N := c04_ok obs.
Definition view_C04_CAD (case obs: list N) : list N := c04_view obs.
Definition ok_C04_CAD (case obs: list N) : list N := c04_ok obs.

(* ---------- C09 ---------- *)
Definition frame_eqb (a b: frame) : bool := list_eqb (show_frame a) (show_frame b).
(* decode view: all frame fields, or the rejection class only *)
Definition dec_view (obs: list N) : list N :=
  match parse_fobs obs with
  | Some (inl f, _) => 0 :: show_frame f
  | Some (inr c, _) => [c]
  | None => BAD
  end.
Definition view_C09_USE (case obs: list N) : list N :=
  match obs with
  | 0 :: n :: r => match take n r with Some (enc, r') => 0 :: n :: enc ++ dec_view r' | None => BAD end
  | 1 :: _ => [1] | 2 :: _ => [2] | 5 :: _ => [2] | _ => BAD
  end.
Definition ok_C09_USE (case obs: list N) : list N :=
  match parse_frame case with
  | Some (f, []) =>
      if negb (wf_frame f) then [] else
      match obs with
      | 0 :: n :: r =>
          match take n r with
          | Some (enc, r') =>
              let expect := cobs_encode (header_spec f ++ firstn (N.to_nat (f_dlen f)) (f_data f)) in
              if negb (list_eqb enc expect) then [60]                  (* not the COBS encoding of the documented header + data *)
              else if existsb (fun x => x =? 0) enc then [61]          (* emits the delimiter byte *)
              else if (14 <? length enc)%nat then [62]
              else if Bool.eqb (f_last f) (f_st f) then
                     match parse_fobs r' with
                     | Some (inl g, _) => if frame_eqb f g then [] else [63]   (* decode(encode f) <> f *)
                     | _ => [63]
                     end
                   else []
          | None => BAD
          end
      | _ => [64]                                                      (* encoder failed on a well-formed frame *)
      end
  | _ => BAD
  end.
(* decode side: valid COBS encodings of 5..13-byte bodies whose length byte matches are read per the
   layout; a body whose size disagrees with its declared data length is rejected *)
Definition c09_dec_expect (case: list N) : option (option frame) :=
  if negb (bytes case) then None else
  match cobs_decode case with
  | Some body =>
      if (length body <? 5)%nat then Some None
      else if (8 <? nth 4 body 0) || negb (length body =? N.to_nat (nth 4 body 0%N) + 5)%nat then Some None
      else Some (Some (frame_of_body body))
  | None => None
  end.
Definition view_C09_USD (case obs: list N) : list N :=
  match c09_dec_expect case with Some _ => dec_view obs | None => [] end.
Definition ok_C09_USD (case obs: list N) : list N :=
  match c09_dec_expect case, parse_fobs obs with
  | Some (Some f), Some (inl g, _) => if frame_eqb f g then [] else [65]
  | Some (Some f), Some (inr _, _) => [66]
  | Some None, Some (inl _, _) => [67]                                 (* size mismatch accepted *)
  | Some None, Some (inr 1, _) => []
  | Some None, Some (inr c, _) => [68; c]
  | None, Some _ => []
  | _, None => BAD
  end.

(* ---------- C08 ---------- *)
Definition view_C08_CAE (case obs: list N) : list N :=
  match obs with
  | 0 :: n :: r => match take n r with Some (c, r') => 0 :: n :: c ++ dec_view r' | None => BAD end
  | 1 :: _ => [1] | 2 :: _ => [2] | 5 :: _ => [2] | _ => BAD
  end.
Definition ok_C08_CAE (case obs: list N) : list N :=
  match parse_frame case with
  | Some (f, []) =>
      if negb (wf_frame f) then [] else
      match obs with
      | 0 :: n :: r =>
          match take n r with
          | Some (cl, r') =>
              match parse_can cl with
              | Some (c, []) =>
                  if negb (cf_ext c) || cf_remote c then [70]           (* not an extended data frame *)
                  else if negb (cf_id c =? can_id_spec f) then [71]     (* identifier layout *)
                  else if negb (list_eqb (cf_data c) (firstn (N.to_nat (f_dlen f)) (f_data f))) then [72]   (* payload *)
                  else if fragment_shaped f then
                         match parse_fobs r' with
                         | Some (inl g, _) => if frame_eqb f g then [] else [73]
                         | _ => [73]
                         end
                       else []
              | _ => BAD
              end
          | None => BAD
          end
      | _ => [74]
      end
  | _ => BAD
  end.
Definition view_C08_CAD (case obs: list N) : list N := dec_view obs.
Definition ok_C08_CAD (case obs: list N) : list N :=
  match parse_can case with
  | Some (c, []) =>
      if negb (wf_canframe c) then [] else
      match can_spec_decode c, parse_fobs obs with
      | Val f, Some (inl g, _) => if frame_eqb f g then [] else [75]
      | Val f, Some (inr _, _) => [76]
      | Fail _, Some (inr 1, _) => []
      | Fail _, Some (inl _, _) => [77]                                 (* a frame that must be rejected was accepted *)
      | _, Some (inr c2, _) => [78; c2]
      | _, Some (inl _, _) => [79]
      | _, None => BAD
      end
  | _ => BAD
  end.
