(* Streams over the link receivers and senders.
   RCV: link + raw device script -> every poll's result, tokens left (and, implementation only, heap held).   C06, C19
   LNK: link + packets + polling schedule (gaps) -> the wire image is built by each side with its own
        sender-side encoders, then polled.                                                                   C13, C19
   SND: link + encoded frames + device answers -> what the device recorded, and the result.                 C14 *)
Require Import RP.Model.Base RP.Model.Packet RP.Model.Cobs RP.Model.Frame RP.Model.Links RP.Spec.Frag RP.Lemmas.Builder
  RP.Glue.Wire RP.Glue.StreamFrame RP.Glue.StreamPacket.

Definition lerr_code (e: lerr) : N :=
  match e with LBuilder e => 10 + berr_code e | LFrame e => 20 + ferr_code e | LUsartRead => 30 | LSerialRead => 31 end.
Definition show_res (r: res) : list N :=
  match r with RPacket p => 0 :: show_packet p | RErr e => [1; lerr_code e] | RNone => [2] | RPanic => [3] | RHang => [4] | ROutOfFuel => [5] end.
Definition bad_res (r: res) : bool := match r with RPanic | RHang | ROutOfFuel => true | _ => false end.
(* the harness stops a case at the first panic / hang *)
Fixpoint cut (l: list (res * N)) : list (res * N) :=
  match l with [] => [] | (r, n) :: t => if bad_res r then [(r, n)] else (r, n) :: cut t end.
Definition show_poll (rn: res * N) : list N := let v := show_res (fst rn) ++ [snd rn; 0; 0] in nlen v :: v.
Definition show_polls (l: list (res * N)) : list N := nlen l :: concat (map show_poll l).

(* ---------- device scripts ---------- *)
Definition utok_of (x: N) : utok := if x <? 256 then UB x else if x =? 256 then UWB else UErr.
Definition stok_of (x: N) : stok := if x <? 256 then SB x else if x =? 256 then STO else if x =? 258 then SINT else SERR.
Fixpoint ctoks_go (fuel: nat) (l: list N) : option (list ctok) :=
  match fuel with O => None | S f =>
    match l with
    | [] => Some []
    | 0 :: r => match parse_can r with Some (c, r') => option_map (cons (CF c)) (ctoks_go f r') | None => None end
    | 1 :: r => option_map (cons CWB) (ctoks_go f r)
    | _ :: r => option_map (cons COverrun) (ctoks_go f r)
    end end.
Definition ctoks_of (l: list N) := ctoks_go (S (length l)) l.

Definition run_polls (M: machine) (s: list (tok M)) : list (res * N) := cut (fst (polls M (S (S (length s))) None s)).

Definition run_link_tokens (link: N) (toks: list N) : option (list (res * N)) :=
  match link with
  | 0 => option_map (run_polls can) (ctoks_of toks)
  | 1 => Some (run_polls usart (map utok_of toks))
  | 2 => Some (run_polls serial (map stok_of toks))
  | _ => None
  end.

(* ---------- RCV ---------- *)
Definition rcv_split (case: list N) : option (N * list N * list N) :=          (* link, meta, tokens *)
  match case with
  | link :: m :: r => match take m r with Some (meta, toks) => Some (link, meta, toks) | None => None end
  | _ => None
  end.
Definition run_RCV (case: list N) : list N :=
  match rcv_split case with
  | Some (link, _, toks) => match run_link_tokens link toks with Some l => show_polls l | None => BAD end
  | None => BAD
  end.

(* parsed poll entries: (result tokens, left, heap held after the poll); the peak heap during the poll is kept in a separate list *)
Fixpoint parse_polls_n (k: nat) (l: list N) : option (list (list N * N * N) * list N) :=
  match k with
  | O => Some ([], l)
  | S k' => match l with
            | n :: r => match take n r with
                        | Some (v, r') =>
                            match rev_append v [] with
                            | _ :: heap :: lft :: rres => match parse_polls_n k' r' with
                                                      | Some (ps, r'') => Some ((rev_append rres [], lft, heap) :: ps, r'')
                                                      | None => None end
                            | _ => None
                            end
                        | None => None end
            | [] => None end
  end.
Definition parse_polls (l: list N) : option (list (list N * N * N) * list N) :=
  match l with n :: r => parse_polls_n (N.to_nat n) r | [] => None end.
Fixpoint parse_peaks_n (k: nat) (l: list N) : list N :=
  match k with
  | O => []
  | S k' => match l with
            | n :: r => match take n r with
                        | Some (v, r') => last v 0 :: parse_peaks_n k' r'
                        | None => [] end
            | [] => [] end
  end.
Definition parse_peaks (l: list N) : list N := match l with n :: r => parse_peaks_n (N.to_nat n) r | [] => [] end.
Definition res_class (r: list N) : N := match r with c :: _ => c | [] => 9 end.     (* 0 Pkt 1 Err 2 None 3 Panic 4 Hang 5 crash/oof *)

(* ---------- C06 ---------- *)
(* meta = probe_len :: probe1 :: probe2 ; tokens = prefix ++ wire(probe1) ++ wire(probe2), the two probes being probe_len device tokens *)
Definition c06_meta (meta: list N) : option (N * packet * packet) :=
  match meta with
  | np :: r => match parse_packet r with
               | Some (p1, r1) => match parse_packet r1 with Some (p2, []) => Some (np, p1, p2) | _ => None end
               | None => None end
  | [] => None
  end.
(* The probes are the last traffic of the script, so the property speaks about the END of the result sequence:
   the last result that is not 'nothing received' must be probe 2 intact; the one before it must be probe 1
   intact (delivered) or an error (dropped) - a different packet there is an altered / merged delivery.
   (Which poll consumed which token is deliberately not used: a receiver may buffer frames internally.) *)
Definition c06_eval (case obs: list N) : list N * list N :=       (* (view, failing clause) *)
  match rcv_split case, parse_polls obs with
  | Some (link, meta, toks), Some (ps, []) =>
      match c06_meta meta with
      | Some (np, p1, p2) =>
          let classes := map (fun e => res_class (fst (fst e))) ps in
          let safe := negb (existsb (fun c => 2 <? c) classes) in
          let nonnone := filter (fun r => negb (res_class r =? 2)) (map (fun e => fst (fst e)) ps) in
          let pk (p: packet) := 0 :: show_packet p in
          let '(last_ok, prev_ok, tail2) :=
            match rev_append nonnone [] with
            | l :: pr :: _ => (list_eqb l (pk p2), (res_class pr =? 1) || list_eqb pr (pk p1), (match res_class pr with 0 => pr | c => [c] end) ++ l)
            | [l] => (list_eqb l (pk p2), false, l)
            | [] => (false, false, [])
            end in
          (b2N safe :: tail2, if negb safe then [120] else if negb last_ok then [121] else if negb prev_ok then [122] else [])
      | None => ([3054], [3054])
      end
  | _, _ => ([3054], [3054])
  end.
(* scripts without probes (empty meta: device read faults inside link frames) are outside C06 *)
Definition c06_applies (case: list N) : bool := match rcv_split case with Some (_, [], _) => false | _ => true end.
Definition view_C06 (case obs: list N) : list N := if c06_applies case then fst (c06_eval case obs) else [].
Definition ok_C06 (case obs: list N) : list N := if c06_applies case then snd (c06_eval case obs) else [].

(* ---------- LNK ---------- *)
Fixpoint parse_packets_n (k: nat) (l: list N) : option (list packet * list N) :=
  match k with
  | O => Some ([], l)
  | S k' => match parse_packet l with
            | Some (p, r) => match parse_packets_n k' r with Some (ps, r') => Some (p :: ps, r') | None => None end
            | None => None end
  end.
Definition lnk_split (case: list N) : option (N * list N * list packet * N) :=
  match case with
  | link :: ng :: r =>
      match take ng r with
      | Some (gaps, np :: r') => match parse_packets_n (N.to_nat np) r' with
                                 | Some (ps, []) => Some (link, gaps, ps, 0)
                                 (* trailing flags: bit 0 = the receiving node also transmits before polling (no effect in the model: sender and
                                    receiver are independent); serial port only: bit 1 = reads are interrupted (EINTR) inside frames, bit 2 = 'no data
                                    yet' is reported as some other read failure than TimedOut (Ok(0), WouldBlock, ...); bit 3 = the receiver object has already
                                    received 70000 packets (no effect in the model: a receiver is in its initial state after every delivered packet);
                                    bit 4 = the node has just transmitted a copy of the last packet; bit 5 = 300 ms of real time pass at every 'no data yet'
                                    answer (neither has an effect in the model) *)
                                 | Some (ps, [fl]) => Some (link, gaps, ps, fl)
                                 | _ => None end
      | _ => None
      end
  | _ => None
  end.
Definition gap_at (gaps: list N) (i: nat) : nat :=
  match gaps with [] => 0%nat | _ => N.to_nat (nth (i mod length gaps) gaps 0) end.
(* USART: gaps before every byte; the other links: gaps before every link frame *)
Fixpoint weave {T} (wb: T) (gaps: list N) (i: nat) (items: list (list T)) : list T :=
  match items with
  | [] => []
  | it :: t => repeat wb (gap_at gaps i) ++ it ++ weave wb gaps (S i) t
  end.
Definition frames_of_packets (ps: list packet) : out (list (list frame)) berr := mapM to_frames ps.
Definition wire_usart_frame (f: frame) : out (list N) ferr := do e <- to_usart f; Val (link_bytes e).

(* returns the polls (the second component is unused) *)
Definition intr_frame (w: list N) : list stok :=
  match w with
  | d :: l :: b1 :: b2 :: r => SB d :: SINT :: SB l :: SB b1 :: SINT :: SB b2 :: map SB r
  | d :: l :: r => SB d :: SINT :: SB l :: map SB r
  | _ => map SB w
  end.
Definition lnk_run (link: N) (gaps: list N) (ps: list packet) (fl: N) : option (list (res * N) * list N) :=
  match frames_of_packets ps with
  | Val fss =>
      match link with
      | 0 => match mapM (fun fs => mapM to_bxcan fs) fss with
             | Val css =>
                 let per_packet := map (fun cs => map (fun c => [CF c]) cs) css in
                 let toks := weave (if N.testbit fl 2 then COverrun else CWB) gaps 0 (concat per_packet) in      (* flag 4 on CAN: overrun reports instead of 'no data yet' *)
                 Some (run_polls can toks, [])
             | _ => None end
      | 1 => match mapM (fun fs => mapM wire_usart_frame fs) fss with
             | Val wss => let bytes_ := concat (map (fun ws => concat ws) wss) in
                          let toks := weave UWB gaps 0 (map (fun b => [UB b]) bytes_) in
                          Some (run_polls usart toks, [])
             | _ => None end
      | 2 => match mapM (fun fs => mapM wire_usart_frame fs) fss with
             | Val wss => let intr := N.testbit fl 1 in let alt := N.testbit fl 2 in
                          let toks := weave (if alt then SERR else STO) gaps 0 (map (fun w => if intr then intr_frame w else map SB w) (concat wss)) in
                          Some (run_polls serial toks, [])
             | _ => None end
      | _ => None
      end
  | _ => None
  end.
(* the same script as lnk_run builds, reduced to: per device token, is it a 'no data yet' answer (1) or data (0) *)
Definition lnk_nodata (link: N) (gaps: list N) (ps: list packet) (fl: N) : list N :=
  (* the frames are taken from the structural reference fragmenter (C10: equal to to_frames on every packet to_frames accepts; linear time) *)
  let fss := map frag_spec ps in
  match link with
  | 0 => weave 1 gaps 0 (map (fun _ => [0]) (concat fss))
  | 1 => match mapM (fun fs => mapM wire_usart_frame fs) fss with
         | Val wss => weave 1 gaps 0 (map (fun _ => [0]) (concat (map (fun ws => concat ws) wss)))
         | _ => [] end
  | 2 => match mapM (fun fs => mapM wire_usart_frame fs) fss with
         | Val wss => let intr := N.testbit fl 1 in
                      weave 1 gaps 0 (map (fun w => map (fun _ => 0) (if intr then intr_frame w else map SB w)) (concat wss))
         | _ => [] end
  | _ => []
  end.
Definition run_LNK (case: list N) : list N :=
  match lnk_split case with
  | Some (link, gaps, ps, fl) => match lnk_run link gaps ps fl with Some (l, _) => show_polls l | None => [3] end
  | None => BAD
  end.

(* a poll may report 'nothing received' only if the device told it so: among the tokens it consumed there is a 'no data yet' answer,
   or the script was exhausted (then the device answers 'no data yet' without a token) *)
Fixpoint none_walk (rest: list N) (left_prev: N) (ps: list (list N * N * N)) : bool :=
  match ps with
  | [] => true
  | (r, lft, _) :: t =>
      let k := N.to_nat (left_prev - lft) in
      (negb (res_class r =? 2) || (lft =? 0) || existsb (fun x => x =? 1) (firstn k rest)) && none_walk (skipn k rest) lft t
  end.
(* C13: delivered sequence = sent sequence, only 'nothing received' otherwise, one packet per successful poll *)
Definition c13_eval (case obs: list N) : list N * list N :=
  match lnk_split case, parse_polls obs with
  | Some (link, gaps, pkts, fl), Some (ps, []) =>

      let classes := map (fun e => res_class (fst (fst e))) ps in
      let oks := map (fun e => fst (fst e)) (filter (fun e => res_class (fst (fst e)) =? 0) ps) in
      let expect := map (fun p => 0 :: show_packet p) pkts in
      let same := (length oks =? length expect)%nat && forallb (fun ab => list_eqb (fst ab) (snd ab)) (combine oks expect) in
      let clean := forallb (fun c => (c =? 0) || (c =? 2)) classes in
      let last_none := match rev_append classes [] with c :: _ => c =? 2 | [] => false end in
      (* between successive Pkt results the number of tokens left strictly decreases: each poll returned one packet and left the rest queued *)
      let view := concat (map (fun e => match res_class (fst (fst e)) with 0 => fst (fst e) | c => [c] end) (filter (fun e => negb (res_class (fst (fst e)) =? 2)) ps)) ++ [b2N last_none] in
      (view, if negb clean then [130] else if negb same then [131] else if negb last_none then [132]
             else let nodata := lnk_nodata link gaps pkts fl in if none_walk nodata (nlen nodata) ps then [] else [134])
  | Some _, _ => ([3], match obs with [3] => [133] | _ => [3054] end)
  | _, _ => ([3054], [3054])
  end.
Definition view_C13 (case obs: list N) : list N := fst (c13_eval case obs).
Definition ok_C13 (case obs: list N) : list N := snd (c13_eval case obs).

(* ---------- C19: memory held between polls ---------- *)
(* the model's count of frames held after each poll, recomputed here from the case, bounds the
   implementation's measured heap: heap <= 96 + 40 * announced (the property's bound: proportional to the ANNOUNCED size of the packet in
   flight - an implementation may reserve room for the whole packet when it sees the start frame), and heap = 0 whenever nothing is held;
   held itself never exceeds the announced frame count (<= 4096) *)
Definition held_of (b: option builder) : N := match b with Some x => nlen (b_frames x) | None => 0 end.
Fixpoint polls_held (M: machine) (fuel: nat) (b: option builder) (s: list (tok M)) : list (res * N * N) :=   (* result, held, announced *)
  match fuel with
  | O => []
  | S f => match s with
           | [] => let '(r, b', _) := poll M b [] in [(r, held_of b', match b' with Some x => b_exp x | None => 0 end)]
           | _ => let '(r, b', s') := poll M b s in
                  (r, held_of b', match b' with Some x => b_exp x | None => 0 end) :: (if bad_res r then [] else polls_held M f b' s')
           end
  end.
Definition held_link_tokens (link: N) (toks: list N) : option (list (res * N * N)) :=
  match link with
  | 0 => option_map (fun s => polls_held can (S (S (length s))) None s) (ctoks_of toks)
  | 1 => Some (let s := map utok_of toks in polls_held usart (S (S (length s))) None s)
  | 2 => Some (let s := map stok_of toks in polls_held serial (S (S (length s))) None s)
  | _ => None
  end.
Definition c19_eval (case obs: list N) : list N * list N :=
  match rcv_split case, parse_polls obs with
  | Some (link, _, toks), Some (ps, []) =>
      match held_link_tokens link toks with
      | Some hs =>
          (* clauses that need no reference: the absolute bound, and nothing held right after a packet was
             delivered or a reassembly error was reported (the implementation's own results) *)
          let uni (e: list N * N * N) :=
            let '(r, _, heap) := e in
            (heap <=? 96 + 40 * 4096) &&
            (match r with 0 :: _ => heap =? 0 | [1; c] => negb ((10 <=? c) && (c <=? 15)) || (heap =? 0) | _ => true end) in
          let bad_uni := filter (fun e => negb (uni e)) ps in
          (* a poll that never returns while its heap grows by more than any link frame needs (255-byte body buffer,
             its decode buffer and slack): an unbounded raw frame buffer *)
          let peaks := parse_peaks obs in
          let heaps_before := 0 :: map (fun e => snd e) ps in
          let grow := filter (fun t => let '((e, pk), hb) := t in (res_class (fst (fst e)) =? 4) && (hb + 700 <? pk)) (combine (combine ps peaks) heaps_before) in
          (* the finer bound (proportional to the packet in flight) uses the model's bookkeeping; it applies
             when the implementation's poll results are the model's, so that the model state is the receiver's *)
          let same := list_eqb (concat (map (fun e => fst (fst e)) ps)) (concat (map (fun h => show_res (fst (fst h))) hs)) && (length ps =? length hs)%nat in
          let rows := combine hs ps in
          let fine (row: (res * N * N) * (list N * N * N)) :=
            let '((r, held, ann), (_, _, heap)) := row in
            (heap <=? 96 + 40 * ann) && ((0 <? held) || (heap =? 0)) && (held <=? ann) && (ann <=? 4096) in
          let bad_fine := if same then filter (fun row => negb (fine row)) rows else [] in
          ([b2N (match bad_uni with [] => true | _ => false end); b2N (match bad_fine with [] => true | _ => false end); b2N (match grow with [] => true | _ => false end)],
           match grow with ((e, pk), hb) :: _ => [142; pk; hb; snd (fst e)] | [] =>
           match bad_uni with
           | (r, lft, heap) :: _ => [141; res_class r; heap; lft]
           | [] => match bad_fine with [] => [] | (((_, held, ann), (_, lft, heap))) :: _ => [140; held; ann; heap; lft] end
           end end)
      | None => ([3054], [3054])
      end
  | _, _ => ([3054], [3054])
  end.
Definition view_C19 (case obs: list N) : list N := fst (c19_eval case obs).
Definition ok_C19 (case obs: list N) : list N := snd (c19_eval case obs).

(* ---------- SND ---------- *)
Fixpoint parse_lists_n (k: nat) (l: list N) : option (list (list N) * list N) :=
  match k with
  | O => Some ([], l)
  | S k' => match l with
            | n :: r => match take n r with
                        | Some (v, r') => match parse_lists_n k' r' with Some (vs, r'') => Some (v :: vs, r'') | None => None end
                        | None => None end
            | [] => None end
  end.
(* link, packet, encoded frames, flush answer, write/transmit answers *)
Definition snd_split (case: list N) : option (N * packet * list (list N) * bool * list N) :=
  match case with
  | link :: r => match parse_packet r with
                 | Some (p, n :: r1) => match parse_lists_n (N.to_nat n) r1 with
                                        | Some (encs, fl :: ans) => Some (link, p, encs, fl mod 8 =? 1, ans)      (* flush script in base 8, one digit per flush call (the sender makes exactly one): 1 = succeeds, any other digit names the error kind *)
                                        | _ => None end
                 | _ => None end
  | [] => None
  end.
Definition wtok_of (x: N) : wtok := match x with 0 => WAccept | 1 => WWB | _ => WFail end.
Definition ttok_of (x: N) : ttok := match x with 0 => TSent | 1 => TWB | _ => TDisplaced end.
Definition ptok_of (x: N) : ptok := if x <? 4096 then PW (N.to_nat x) else if x =? 4096 then PInt else PErr.
Definition serr_code (e: serr) : N := match e with SMailboxFull => 1 | SWrite => 2 | SFlush => 3 end.
Definition show_sres {A} (o: out A serr) : N := match o with Val _ => 0 | Fail e => serr_code e | Panic => 5 | Hang => 4 end.
Definition cans_of (encs: list (list N)) : option (list canframe) :=
  fold_right (fun e acc => match parse_can e, acc with Some (c, []), Some cs => Some (c :: cs) | _, _ => None end) (Some []) encs.
Definition show_lists (ls: list (list N)) : list N := nlen ls :: concat (map (fun l => nlen l :: l) ls).

Definition run_SND (case: list N) : list N :=
  match snd_split case with
  | Some (link, _, encs, fl, ans) =>
      match link with
      | 1 => match usart_send encs (map wtok_of ans) with
             | Val (w, _) => 0 :: nlen w :: w
             | Hang =>
                 (* what was recorded before the device stopped accepting: every accepted byte of the wire, in order *)
                 let wire := concat (map link_bytes encs) in
                 let acc := length (filter (fun x => x =? 0) ans) in
                 let w := firstn acc wire in 4 :: nlen w :: w
             | _ => [5]
             end
      | 0 => match cans_of encs with
             | Some cfs => let '(sent, r) := can_send cfs (map ttok_of ans) in show_sres r :: show_lists (map show_can sent)
             | None => BAD end
      | 2 => let '(w, r) := serial_send encs (map ptok_of ans) fl in show_sres r :: nlen w :: w
      | _ => BAD
      end
  | None => BAD
  end.
Definition view_C14 (case obs: list N) : list N := obs.

(* independent statement of what must be on the link *)
Fixpoint can_expect (cfs: list canframe) (outcomes: list N) : list canframe * N :=      (* sent, result code *)
  match cfs with
  | [] => ([], 0)
  | c :: t => match outcomes with
              | [] => ([], 4)                                        (* blocks for ever: nothing more is handed over *)
              | 0 :: o' => let '(s, r) := can_expect t o' in (c :: s, r)
              | _ :: _ => ([c], 1)                                    (* displaced: reported, nothing further sent *)
              end
  end.
Fixpoint is_prefix (a b: list N) : bool :=
  match a, b with [], _ => true | x :: a', y :: b' => (x =? y) && is_prefix a' b' | _, [] => false end.
Definition ok_C14 (case obs: list N) : list N :=
  match snd_split case with
  | Some (link, _, encs, fl, ans) =>
      match link with
      | 1 =>
          if existsb (fun x => 1 <? x) ans then [] else              (* hard write errors on USART are outside the property *)
          let wire := concat (map link_bytes encs) in
          let acc := length (filter (fun x => x =? 0) ans) in
          let expect := if (length wire <=? acc)%nat then 0 :: nlen wire :: wire else let w := firstn acc wire in 4 :: nlen w :: w in
          if list_eqb obs expect then [] else [150]
      | 0 =>
          match cans_of encs with
          | Some cfs =>
              let '(sent, r) := can_expect cfs (filter (fun x => negb (x =? 1)) ans) in
              if list_eqb obs (r :: show_lists (map show_can sent)) then [] else [151]
          | None => BAD end
      | 2 =>
          let wire := concat (map link_bytes encs) in
          match obs with
          | r :: n :: w =>
              if negb (is_prefix w wire) then [152]                   (* bytes on the link are not a prefix of the frames' bytes *)
              else if (r =? 0) && negb (list_eqb w wire) then [153]   (* success reported although bytes are missing *)
              else if (r =? 0) && negb fl then [154]                  (* flush failure swallowed *)
              else
                let '(w', r') := serial_send encs (map ptok_of ans) fl in
                if list_eqb obs (show_sres r' :: nlen w' :: w') then [] else [155]
          | _ => [156]
          end
      | _ => BAD
      end
  | None => BAD
  end.
