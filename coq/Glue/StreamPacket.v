(* Streams over fragmentation and reassembly.
   FRG: packet -> to_frames (the full frame list).                                     C10
   REA: packet -> to_frames -> {direct, CAN codec, USART codec} -> fresh PacketBuilder:
        frames_left after every frame, whether build succeeded before the last frame, final build.   C02
   BLD: start frame + sequence of frames -> per step: result, accessors, build.        C07 *)
Require Import RP.Model.Base RP.Model.Packet RP.Model.Cobs RP.Model.Frame RP.Spec.Frag RP.Lemmas.Reasm RP.Lemmas.FragWf RP.Lemmas.Builder RP.Glue.Wire RP.Glue.StreamFrame.

Definition show_frames (fs: list frame) : list N := nlen fs :: concat (map show_frame fs).
Fixpoint parse_frames_n (k: nat) (l: list N) : option (list frame * list N) :=
  match k with
  | O => Some ([], l)
  | S k' => match parse_frame l with
            | Some (f, r) => match parse_frames_n k' r with Some (fs, r') => Some (f :: fs, r') | None => None end
            | None => None end
  end.
Definition parse_frames (l: list N) : option (list frame * list N) :=
  match l with n :: r => parse_frames_n (N.to_nat n) r | [] => None end.

(* ---------- FRG ---------- *)
Definition run_FRG (case: list N) : list N :=
  match parse_packet case with
  | Some (p, []) => show_out show_frames berr_code (to_frames p)
  | _ => BAD
  end.
Definition view_C10 (case obs: list N) : list N := obs.
Definition ok_C10 (case obs: list N) : list N :=
  match parse_packet case with
  | Some (p, []) =>
      if negb (wf_packet p && smallb p) then [] else
      match obs with
      | 0 :: n :: r => if list_eqb r (show_frames (frag_spec p)) then [] else [80]     (* not the documented frame sequence *)
      | _ => [81]                                                                      (* fragmentation failed *)
      end
  | _ => BAD
  end.

(* ---------- REA ---------- *)
(* early-build probes: before every frame but the last when there are at most 64 frames, otherwise
   after the first frame, in the middle and just before the last one *)
Definition probe (m k: nat) : bool :=
  if (m <=? 64)%nat then true else (k =? 1)%nat || (k =? m / 2)%nat || (k =? m - 1)%nat.

(* feed frames; returns (frames_left after each frame, early build succeeded?, final builder) *)
Fixpoint rea_feed (m: nat) (b: builder) (k: nat) (fs: list frame) (lefts: list N) (early: bool) : out (list N * bool * builder) berr :=
  match fs with
  | [] => Val (rev_append lefts [], early, b)
  | f :: t =>
      (* k frames are in the builder and more follow: a build now must report MissingFrames *)
      let early' := if probe m k then match build b with Val _ => true | _ => early end else early in
      do b' <- add_frame b f;
      do l <- frames_left b';
      rea_feed m b' (S k) t (l :: lefts) early'
  end.
Definition rea_path (fs: out (list frame) ferr) : list N :=
  match fs with
  | Val (f0 :: rest) =>
      match (do b0 <- builder_new f0; do l0 <- frames_left b0; do r <- rea_feed (S (length rest)) b0 1 rest [l0] false;
             Val r) with
      | Val (lefts, early, b) => 0 :: nlen lefts :: lefts ++ [b2N early] ++ show_out show_packet berr_code (build b)
      | Fail e => [1; berr_code e]
      | Panic => [2] | Hang => [3]
      end
  | Val [] => [4]
  | Fail e => [6; ferr_code e]
  | Panic => [2] | Hang => [3]
  end.
Definition run_REA (case: list N) : list N :=
  match parse_packet case with
  | Some (p, []) =>
      match to_frames p with
      | Val fs => let lp (o: list N) := nlen o :: o in lp (rea_path (Val fs)) ++ lp (rea_path (via_can fs)) ++ lp (rea_path (via_usart fs))
      | Fail e => [1; berr_code e] | Panic => [2] | Hang => [3]
      end
  | _ => BAD
  end.
(* an observation is three length-prefixed path observations *)
Definition split3 (obs: list N) : option (list (list N)) :=
  match obs with
  | n1 :: r1 => match take n1 r1 with
    | Some (p1, n2 :: r2) => match take n2 r2 with
      | Some (p2, n3 :: r3) => match take n3 r3 with Some (p3, []) => Some [p1; p2; p3] | _ => None end
      | _ => None end
    | _ => None end
  | [] => None
  end.
(* one path: (completed exactly at the last frame and not before, rebuilt packet) *)
Definition path_summary (p: packet) (o: list N) : list N :=
  match o with
  | 0 :: n :: r =>
      match take n r with
      | Some (lefts, early :: rest) =>
          let exact_last := (early =? 0) && forallb (fun x => negb (x =? 0)) (removelast lefts) && (last lefts 1 =? 0) in
          b2N exact_last :: rest
      | _ => BAD
      end
  | other => 9 :: other
  end.
Definition view_C02 (case obs: list N) : list N :=
  match parse_packet case with
  | Some (p, []) => match split3 obs with
                    | Some paths => concat (map (fun o => let v := path_summary p o in nlen v :: v) paths)
                    | None => 9 :: obs end
  | _ => BAD
  end.
Definition ok_C02 (case obs: list N) : list N :=
  match parse_packet case with
  | Some (p, []) =>
      if negb (wf_packet p && smallb p) then [] else
      match split3 obs with None => [90] | Some paths =>
      let expect := 1 :: show_out show_packet berr_code (@Val packet berr p) in
      concat (map (fun io => if list_eqb (path_summary p (snd io)) expect then [] else [91; fst io]) (combine [0; 1; 2] paths))
      end
  | _ => BAD
  end.

(* ---------- BLD ---------- *)
(* case: n :: frame_0 .. frame_n-1 ; frame_0 is offered to PacketBuilder::new, the others to add_frame *)
Definition bfinger (b: builder) : list N :=
  b_exp b :: b_count b :: show_out (fun x => [x]) berr_code (frames_left b) ++ show_out show_packet berr_code (build b).
Fixpoint bld_steps (b: builder) (fs: list frame) : list N :=
  match fs with
  | [] => []
  | f :: t => match add_frame b f with
              | Val b' => 0 :: 0 :: bfinger b' ++ bld_steps b' t
              | Fail e => 1 :: berr_code e :: bfinger b ++ bld_steps b t
              | _ => [2]
              end
  end.
Definition run_BLD (case: list N) : list N :=
  match parse_frames case with
  | Some (f0 :: fs, []) =>
      match builder_new f0 with
      | Val b => 0 :: 0 :: bfinger b ++ bld_steps b fs
      | Fail e => [1; berr_code e]
      | _ => [2]
      end
  | _ => BAD
  end.

(* the reference reassembler of the checker: spec-level, built from accepts / payload_of only *)
Definition acceptsb (b: builder) (f: frame) : bool :=
  Bool.eqb (f_ne f) (negb (b_err b)) && (f_addr f =? b_addr b) && negb (f_st f) && f_mf f && negb (f_last f) &&
  (f_id f =? nlen (b_frames b)) && (f_id f <? b_exp b).
Definition spec_finger (b: builder) : list N :=
  let cnt := nlen (b_frames b) in
  b_exp b :: cnt :: [0; 1; b_exp b - cnt] ++
  (if cnt =? b_exp b then show_out show_packet berr_code (@Val packet berr (mkP (b_err b) (b_addr b) (concat (map payload_of (b_frames b)))))
   else [1; berr_code MissingFrames]).
Definition berr_of (c: N) : option berr :=
  match c with 0 => Some OutOfOrder | 1 => Some SingleFramePacket | 2 => Some TooManyFrames | 3 => Some WrongFrameType | 4 => Some DeviceAddressMismatch | 5 => Some MissingFrames | _ => None end.
Definition finger_len (l: list N) : option (list N * list N) :=
  (* exp cnt (0 1 left | 2) (0 n pkt.. | 1 e | 2) *)
  match l with
  | e :: c :: 0 :: 1 :: lf :: 0 :: n :: r => match take n r with Some (pk, r') => Some (e :: c :: 0 :: 1 :: lf :: 0 :: n :: pk, r') | None => None end
  | e :: c :: 0 :: 1 :: lf :: 1 :: er :: r => Some ([e; c; 0; 1; lf; 1; er], r)
  | e :: c :: 0 :: 1 :: lf :: 2 :: r => Some ([e; c; 0; 1; lf; 2], r)
  | e :: c :: 2 :: r => Some ([e; c; 2], r)
  | _ => None
  end.
(* walks the observation next to the reference; returns the per-step view and the first failing clause *)
Fixpoint bld_walk (b: builder) (fs: list frame) (obs: list N) (step: N) : list N * list N :=
  match fs with
  | [] => ([], match obs with [] => [] | _ => [109] end)
  | f :: t =>
      match obs with
      | 2 :: _ => ([2], [100; step])                                   (* panic *)
      | res :: code :: r =>
          match finger_len r with
          | None => ([3054], [3054])
          | Some (fg, r') =>
              let acc := acceptsb b f in
              let b' := if acc then push_frame b f else b in
              let reason_ok := match berr_of code with Some e => reject_reason_applies b f e | None => false end in
              let v := if res =? 0 then 0 :: fg else 1 :: b2N reason_ok :: fg in
              let bad :=
                if (res =? 0) && negb acc then [101; step]                (* accepted a frame that is not the exact next one *)
                else if negb (res =? 0) && acc then [102; step; code]    (* rejected the exact next frame *)
                else if negb (res =? 0) && negb reason_ok then [103; step; code]   (* the reported reason does not apply *)
                else if negb (list_eqb fg (spec_finger b')) then [104; step]        (* accounting / state / build differs from the reference *)
                else [] in
              let '(vs, bads) := bld_walk b' t r' (step + 1) in
              (v ++ vs, match bad with [] => bads | _ => bad end)
          end
      | _ => ([3054], [3054])
      end
  end.
Definition bld_eval (case obs: list N) : list N * list N :=
  match parse_frames case with
  | Some (f0 :: fs, []) =>
      if negb (forallb wf_frame (f0 :: fs)) then ([], []) else
      let start_ok := f_st f0 && f_last f0 in
      match obs with
      | 0 :: 0 :: r =>
          if negb start_ok then ([0], [110])                              (* reassembly started by a frame that is not a start frame *)
          else match finger_len r with
               | Some (fg, r') =>
                   let b := mkB (negb (f_ne f0)) (f_id f0 + 1) (f_addr f0) [f0] in
                   if negb (list_eqb fg (spec_finger b)) then (0 :: fg, [111])
                   else let '(vs, bads) := bld_walk b fs r' 1 in (0 :: fg ++ vs, bads)
               | None => ([3054], [3054])
               end
      | 1 :: code :: _ => if start_ok then ([1], [112; code]) else ([1], if code =? 0 then [] else [113; code])
      | _ => ([2], [114])
      end
  | _ => ([3054], [3054])
  end.
Definition view_C07 (case obs: list N) : list N := fst (bld_eval case obs).
Definition ok_C07 (case obs: list N) : list N := snd (bld_eval case obs).
