(* All.v - everything the extracted runner needs *)
Require Export RP.Glue.Wire RP.Glue.StreamEV RP.Glue.StreamDEC RP.Glue.StreamFrame RP.Glue.StreamPacket RP.Glue.StreamLink RP.Glue.StreamProto RP.Glue.StreamE2E.
