(* Wire.v - the line grammar shared by the Rust harness and the model runner.
   A line is a list of numbers (printed as space-separated lowercase hex).  These functions turn model
   values into number lists and back; they are extracted together with the model. *)
Require Import RP.Model.Base RP.Model.Packet RP.Model.Events.

Definition take (n: N) (l: list N) : option (list N * list N) :=
  let k := N.to_nat n in if (k <=? length l)%nat then Some (firstn k l, skipn k l) else None.

(* ---------- out ---------- *)
(* 0 n v1..vn = value; 1 c = error c; 2 = PANIC; 3 = HANG; 4 = INVALID (implementation side only) *)
Definition show_out {A E} (fa: A -> list N) (fe: E -> N) (o: out A E) : list N :=
  match o with Val a => let v := fa a in 0 :: nlen v :: v | Fail e => [1; fe e] | Panic => [2] | Hang => [3] end.

(* ---------- packets, frames ---------- *)
Definition show_packet (p: packet) : list N := b2N (p_err p) :: p_addr p :: nlen (p_data p) :: p_data p.
Definition parse_packet (l: list N) : option (packet * list N) :=
  match l with
  | e :: a :: n :: r => match take n r with Some (d, r') => Some (mkP (negb (e =? 0)) a d, r') | None => None end
  | _ => None
  end.
Definition show_frame (f: frame) : list N :=
  b2N (f_ne f) :: b2N (f_st f) :: b2N (f_mf f) :: b2N (f_last f) :: f_id f :: f_addr f :: f_dlen f :: f_data f.
Definition parse_frame (l: list N) : option (frame * list N) :=
  match l with
  | ne :: st :: mf :: la :: id :: ad :: dl :: r =>
      match take 8 r with Some (d, r') => Some (mkF (negb (ne =? 0)) (negb (st =? 0)) (negb (mf =? 0)) (negb (la =? 0)) id ad dl d, r') | None => None end
  | _ => None
  end.
Definition berr_code (e: berr) : N :=
  match e with OutOfOrder => 0 | SingleFramePacket => 1 | TooManyFrames => 2 | WrongFrameType => 3 | DeviceAddressMismatch => 4 | MissingFrames => 5 end.

(* ---------- events <-> number lists (first the kind code) ---------- *)
Definition bcm_fields (v: bcm_value) : list N :=
  match v with Binary b => [0; b2N b] | Single x => [1; x] | Rgb r g b => [2; r; g; b] | RgbB r g b x => [3; r; g; b; x]
             | Rgbw r g b x => [4; r; g; b; x] | RgbwB r g b w x => [5; r; g; b; w; x] end.
Definition bcm_of (l: list N) : option bcm_value :=
  match l with [0; b] => Some (Binary (negb (b =? 0))) | [1; x] => Some (Single x) | [2; r; g; b] => Some (Rgb r g b)
             | [3; r; g; b; x] => Some (RgbB r g b x) | [4; r; g; b; x] => Some (Rgbw r g b x) | [5; r; g; b; w; x] => Some (RgbwB r g b w x) | _ => None end.
Definition relay_fields (v: relay_value) : list N := match v with RSingle b => [0; b2N b] | RFirst => [1] | RSecond => [2] | RNone => [3] end.
Definition relay_of (l: list N) : option relay_value := match l with [0; b] => Some (RSingle (negb (b =? 0))) | [1] => Some RFirst | [2] => Some RSecond | [3] => Some RNone | _ => None end.
Definition msg_fields (v: msg_value) : list N := match v with MU8 x => [0; x] | MU16 x => [1; x] | MU32 x => [2; x] | MBool b => [3; b2N b] end.
Definition msg_of (l: list N) : option msg_value := match l with [0; x] => Some (MU8 x) | [1; x] => Some (MU16 x) | [2; x] => Some (MU32 x) | [3; b] => Some (MBool (negb (b =? 0))) | _ => None end.

Definition event_fields (e: event) : list N :=
  match e with
  | BootloaderHello p b => [0; p; b] | ProgrammerHello p => [1; p] | StartFirmware r p s => [2; r; p; s] | Ack r t => [3; r; t]
  | Data r t l d => 4 :: r :: t :: l :: d | ConfiguratorHello => [5] | BcmChange a t i v => 6 :: a :: t :: i :: bcm_fields v
  | ButtonPressed r b i => [7; r; b; i] | ButtonReleased r b i => [8; r; b; i] | SystemTick r => [9; r]
  | StartConfig r p s => [10; r; p; s] | SetAddress r p n => [11; r; p; n] | Message r t c v => 12 :: r :: t :: c :: msg_fields v
  | BcmAnimate a t i du v => 13 :: a :: t :: i :: du :: bcm_fields v | RelaySet a t i v => 14 :: a :: t :: i :: relay_fields v
  | GatewayDiscover d g => [15; d; g]
  end.
Definition event_of (l: list N) : option event :=
  match l with
  | [0; p; b] => Some (BootloaderHello p b) | [1; p] => Some (ProgrammerHello p) | [2; r; p; s] => Some (StartFirmware r p s)
  | [3; r; t] => Some (Ack r t) | 4 :: r :: t :: l :: d => Some (Data r t l d) | [5] => Some ConfiguratorHello
  | 6 :: a :: t :: i :: v => option_map (BcmChange a t i) (bcm_of v)
  | [7; r; b; i] => Some (ButtonPressed r b i) | [8; r; b; i] => Some (ButtonReleased r b i) | [9; r] => Some (SystemTick r)
  | [10; r; p; s] => Some (StartConfig r p s) | [11; r; p; n] => Some (SetAddress r p n)
  | 12 :: r :: t :: c :: v => option_map (Message r t c) (msg_of v)
  | 13 :: a :: t :: i :: du :: v => option_map (BcmAnimate a t i du) (bcm_of v)
  | 14 :: a :: t :: i :: v => option_map (RelaySet a t i) (relay_of v)
  | [15; d; g] => Some (GatewayDiscover d g)
  | _ => None
  end.
Definition kind_of_code (c: N) : option kind := nth_error all_kinds (N.to_nat c).
Definition cerr_code (e: cerr) : N := match e with CWrongSize => 0 | CUnknownEnumVariant => 1 | CWrongType => 2 | CWrongEventType => 3 end.
Definition cerr_of (c: N) : option cerr := match c with 0 => Some CWrongSize | 1 => Some CUnknownEnumVariant | 2 => Some CWrongType | 3 => Some CWrongEventType | _ => None end.
Definition show_dec (o: out event cerr) : list N := show_out event_fields cerr_code o.

(* a decode observation parsed back: (result, rest) *)
Inductive dobs := DVal (fields: list N) | DErr (c: N) | DPanic | DHang | DInvalid.
Definition parse_dobs (l: list N) : option (dobs * list N) :=
  match l with
  | 0 :: n :: r => match take n r with Some (v, r') => Some (DVal v, r') | None => None end
  | 1 :: c :: r => Some (DErr c, r)
  | 2 :: r => Some (DPanic, r)
  | 3 :: r => Some (DHang, r)
  | 4 :: r => Some (DInvalid, r)
  | _ => None
  end.

Definition BAD : list N := [3054]. (* 0xbee: unparsable case/observation line *)

Fixpoint list_eqb (a b: list N) : bool :=
  match a, b with [], [] => true | x :: a', y :: b' => (x =? y) && list_eqb a' b' | _, _ => false end.
Lemma list_eqb_eq a b : list_eqb a b = true <-> a = b.
Proof.
  revert b. induction a as [|x a IH]; intros [|y b]; cbn [list_eqb]; split; intros H; try reflexivity; try discriminate.
  - apply andb_prop in H. destruct H as [H1 H2]. apply N.eqb_eq in H1. apply IH in H2. subst. reflexivity.
  - inversion H; subst. rewrite N.eqb_refl. cbn. apply IH. reflexivity.
Qed.
