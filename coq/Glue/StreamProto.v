(* Streams over the Protocol dispatcher.
   PRO: own address + a history of operations (register / remove / tick with a scripted link answer /
        send_packet), each against a fresh link script.                      C15, C16, C17
   EXC: one exchange_packet / exchange_packets call against a queue of incoming results.     C18
   The checkers and the C15/C16 views rebuild the handler table from the ids the observed side returned and
   compare each dispatch with what the model does on THAT table, so that a registry defect (C17) does not
   also alarm the dispatch properties; the registry correspondence itself is C17's view. *)
Require Import RP.Model.Base RP.Model.Packet RP.Model.Events RP.Model.Protocol RP.Lemmas.Registry RP.Glue.Wire RP.Glue.StreamLink.

Definition perr_code (e: perr) : N := match e with PInterface c => 100 + c | PNoSuchHandler => 1 | PTimeout => 2 end.
Definition show_pret {A} (o: out A perr) : list N := match o with Val _ => [0] | Fail e => [1; perr_code e] | Panic => [2] | Hang => [3] end.
Definition show_log (l: list logent) : list N := nlen l :: concat (map (fun e => fst (fst e) :: snd (fst e) :: show_packet (snd e)) l).
Definition show_packets (l: list packet) : list N := nlen l :: concat (map show_packet l).

(* operations *)
Inductive pop := PAdd (h: handler) | PRemove (id: N) | PTick (gs: list gres) (ans: list N) | PSend (p: packet) (ans: list N)
  | PExch (cap: bool) (k: kind) (multi: bool) (p: packet) (gs: list gres) (ans: list N).
Definition parse_gres (l: list N) : option (gres * list N) :=
  match l with
  | 0 :: r => match parse_packet r with Some (p, r') => Some (GPacket p, r') | None => None end
  | 1 :: r => Some (GNone, r)
  | 2 :: c :: r => Some (GErr c, r)
  | _ => None
  end.
Fixpoint parse_gets0 (ls: list (list N)) : option (list gres) :=
  match ls with [] => Some [] | l :: t => match parse_gres l, parse_gets0 t with Some (g, []), Some gs => Some (g :: gs) | _, _ => None end end.
Definition parse_op (l: list N) : option pop :=
  match l with
  | 0 :: label :: cap :: n :: r => match parse_packets_n (N.to_nat n) r with Some (ps, []) => Some (PAdd (mkH label (negb (cap =? 0)) ps)) | _ => None end
  | [1; id] => Some (PRemove id)
  | 2 :: n :: r => match parse_lists_n (N.to_nat n) r with
                   | Some (gls, ans) => match parse_gets0 gls with Some gs => Some (PTick gs ans) | None => None end
                   | None => None end
  | 3 :: r => match parse_packet r with Some (p, ans) => Some (PSend p ans) | None => None end
  | 4 :: cap :: kc :: multi :: r =>
      match kind_of_code kc, parse_packet r with
      | Some k, Some (p, n :: r1) => match parse_lists_n (N.to_nat n) r1 with
                                     | Some (gls, ans) => match parse_gets0 gls with Some gs => Some (PExch (negb (cap =? 0)) k (negb (multi =? 0)) p gs ans) | None => None end
                                     | None => None end
      | _, _ => None end
  | _ => None
  end.
Fixpoint parse_ops (ls: list (list N)) : option (list pop) :=
  match ls with [] => Some [] | l :: t => match parse_op l, parse_ops t with Some o, Some os => Some (o :: os) | _, _ => None end end.
Definition pro_split (case: list N) : option (N * list pop) :=
  match case with
  | own :: n :: r => match parse_lists_n (N.to_nat n) r with Some (ls, []) => option_map (fun os => (own, os)) (parse_ops ls) | _ => None end
  | _ => None
  end.

(* result, handler log, what went to the link, and how many incoming results are still queued *)
Definition show_dispatch (r: out unit perr * list logent * iface) : list N :=
  let '(ret, log, i) := r in show_pret ret ++ show_log log ++ show_packets (i_sent i) ++ [nlen (i_gets i)].
Definition show_trace (sent: list packet) (tr: list tev) : list N :=
  let evs := map (fun p => 1 :: show_packet p) sent ++ map (fun e => match e with TWait => [2] | TGet _ => [3] end) tr in
  nlen evs :: concat evs.
(* one exchange_packet / exchange_packets call: result, handler log, trace (transmissions, the wait callback, polls), incoming results left *)
Definition exc_obs (own: N) (cap: bool) (k: kind) (multi: bool) (p: packet) (t: table) (gs: list gres) (ans: list N) : list N :=
  if multi then
    let '(r, log, tr, i2) := exchangeN own t p cap k (mkI gs ans []) in
    (match r with Val es => 0 :: show_lists (map event_fields es) | Fail e => [1; perr_code e] | Panic => [2] | Hang => [3] end)
    ++ show_log log ++ show_trace (i_sent i2) tr ++ [nlen (i_gets i2)]
  else
    let '(r, log, tr, i2) := exchange1 own t p cap k (mkI gs ans []) in
    (match r with Val e => 0 :: show_lists [event_fields e] | Fail e => [1; perr_code e] | Panic => [2] | Hang => [3] end)
    ++ show_log log ++ show_trace (i_sent i2) tr ++ [nlen (i_gets i2)].
Definition op_obs (own: N) (t: table) (o: pop) : table * list N :=
  match o with
  | PAdd h => let '(t', id) := add_handler t h in (t', [0; id])
  | PRemove id => let '(t', r) := remove_handler t id in (t', show_pret r)
  | PTick gs ans => (t, show_dispatch (tick own t (mkI gs ans [])))
  | PSend p ans => (t, show_dispatch (send_packet own t p (mkI [] ans [])))
  | PExch cap k multi p gs ans => (t, exc_obs own cap k multi p t gs ans)
  end.
Fixpoint pro_run (own: N) (t: table) (ops: list pop) : list (list N) :=
  match ops with [] => [] | o :: r => let '(t', x) := op_obs own t o in x :: pro_run own t' r end.
Definition run_PRO (case: list N) : list N :=
  match pro_split case with Some (own, ops) => show_lists (pro_run own [] ops) | None => BAD end.

(* walk the implementation's observations; the table is rebuilt with the ids it returned *)
Definition parse_obs_lists (obs: list N) : option (list (list N)) :=
  match obs with n :: r => match parse_lists_n (N.to_nat n) r with Some (ls, []) => Some ls | _ => None end | [] => None end.

(* kind: 15 = tick clauses, 16 = send clauses, 17 = registry clauses, 18 = exchange clauses *)
Fixpoint pro_walk (own: N) (t: table) (ops: list pop) (obs: list (list N)) (step: N) : list (N * list N) * list (N * list N) :=
  (* (views tagged by property, failures tagged by property) *)
  match ops, obs with
  | [], [] => ([], [])
  | o :: ops', x :: obs' =>
      match o with
      | PAdd h =>
          match x with
          | [0; id] =>
              let fresh := negb (existsb (fun k => k =? id) (keys t)) in
              let '(vs, fs) := pro_walk own (insert id h t) ops' obs' (step + 1) in
              ((17, [0; b2N fresh]) :: vs, if fresh then fs else (17, [170; step; id]) :: fs)       (* id of a registered handler handed out again *)
          | _ => ([(17, x)], [(17, [171; step])])
          end
      | PRemove id =>
          let live := existsb (fun k => k =? id) (keys t) in
          let expect := if live then [0] else [1; 1] in
          let t' := match remove id t with Some t' => t' | None => t end in
          let '(vs, fs) := pro_walk own t' ops' obs' (step + 1) in
          ((17, x) :: vs, if list_eqb x expect then fs else (17, [172; step; id]) :: fs)
      | PTick gs ans =>
          let g := match gs with g0 :: _ => g0 | [] => GNone end in
          let expect := show_dispatch (tick own t (mkI gs ans [])) in
          let '(vs, fs) := pro_walk own t ops' obs' (step + 1) in
          (* a delivery to the own address / broadcast also reveals which handlers are live (C17) *)
          let reveals := match g with GPacket p => owned_addr own p | _ => false end in
          let ids_ok := match g with GPacket p => true | _ => true end in
          ((15, [b2N (list_eqb x expect)]) :: (if reveals then [(17, x)] else []) ++ vs,
           if list_eqb x expect then fs else (15, [150; step]) :: (if reveals then [(17, [173; step])] else []) ++ fs)
      | PSend p ans =>
          let expect := show_dispatch (send_packet own t p (mkI [] ans [])) in
          let '(vs, fs) := pro_walk own t ops' obs' (step + 1) in
          ((16, [b2N (list_eqb x expect)]) :: vs, if list_eqb x expect then fs else (16, [160; step]) :: fs)
      | PExch cap k multi p gs ans =>
          (* an exchange on a protocol object with a history (earlier exchanges, ticks, sends): nothing may be carried over *)
          let expect := exc_obs own cap k multi p t gs ans in
          let '(vs, fs) := pro_walk own t ops' obs' (step + 1) in
          ((18, [b2N (list_eqb x expect)]) :: vs, if list_eqb x expect then fs else (18, [183; step]) :: fs)
      end
  | _, _ => ([(0, [3054])], [(15, [3054]); (16, [3054]); (17, [3054]); (18, [3054])])
  end.
Definition pro_eval (prop: N) (case obs: list N) : list N * list N :=
  match pro_split case, parse_obs_lists obs with
  | Some (own, ops), Some xs =>
      let '(vs, fs) := pro_walk own [] ops xs 0 in
      (concat (map (fun v => nlen (snd v) :: snd v) (filter (fun v => fst v =? prop) vs)),
       match filter (fun f => fst f =? prop) fs with [] => [] | f :: _ => snd f end)
  | _, _ => ([3054], [3054])
  end.
Definition view_C15 (case obs: list N) := fst (pro_eval 15 case obs).
Definition ok_C15 (case obs: list N) := snd (pro_eval 15 case obs).
Definition view_C16 (case obs: list N) := fst (pro_eval 16 case obs).
Definition ok_C16 (case obs: list N) := snd (pro_eval 16 case obs).
Definition view_C17 (case obs: list N) := fst (pro_eval 17 case obs).
Definition ok_C17 (case obs: list N) := snd (pro_eval 17 case obs).
Definition view_C18_PRO (case obs: list N) := fst (pro_eval 18 case obs).
Definition ok_C18_PRO (case obs: list N) := snd (pro_eval 18 case obs).

(* ---------- EXC ---------- *)
(* case: own cap kind multi | request packet | nhandlers handlers(each as a length-prefixed add op body) | ngets gets (each length-prefixed) | send answers *)
Fixpoint parse_gets (ls: list (list N)) : option (list gres) :=
  match ls with [] => Some [] | l :: t => match parse_gres l, parse_gets t with Some (g, []), Some gs => Some (g :: gs) | _, _ => None end end.
Fixpoint table_of (hs: list pop) (t: table) : table :=
  match hs with PAdd h :: r => table_of r (fst (add_handler t h)) | _ :: r => table_of r t | [] => t end.
Definition exc_split (case: list N) : option (N * bool * kind * bool * packet * table * list gres * list N) :=
  match case with
  | own :: cap :: kc :: multi :: r =>
      match kind_of_code kc, parse_packet r with
      | Some k, Some (p, nh :: r1) =>
          match parse_lists_n (N.to_nat nh) r1 with
          | Some (hls, ng :: r2) =>
              match parse_ops hls, parse_lists_n (N.to_nat ng) r2 with
              | Some hs, Some (gls, ans) =>
                  match parse_gets gls with
                  | Some gs => Some (own, negb (cap =? 0), k, negb (multi =? 0), p, table_of hs [], gs, ans)
                  | None => None end
              | _, _ => None end
          | _ => None end
      | _, _ => None end
  | _ => None
  end.
Definition run_EXC (case: list N) : list N :=
  match exc_split case with
  | Some (own, cap, k, multi, p, t, gs, ans) => exc_obs own cap k multi p t gs ans
  | None => BAD
  end.
Definition view_C18 (case obs: list N) : list N := obs.
(* independent statement of the result: scan the queue *)
Fixpoint first_match (own: N) (cap: bool) (k: kind) (gs: list gres) (n: nat) : list N * nat :=   (* (result, gets consumed) *)
  match gs with
  | [] => ([1; 2], S n)                                  (* link runs dry: timeout (one more get, answered 'nothing') *)
  | GNone :: _ => ([1; 2], S n)
  | GErr c :: _ => ([1; 100 + c], S n)
  | GPacket p :: r => match matches own cap k p with
                      | Some e => (0 :: show_lists [event_fields e], S n)
                      | None => first_match own cap k r (S n) end
  end.
Fixpoint all_matches (own: N) (cap: bool) (k: kind) (gs: list gres) (n: nat) (acc: list (list N)) : list N * nat :=
  match gs with
  | [] => (0 :: show_lists acc, S n)
  | GNone :: _ => (0 :: show_lists acc, S n)
  | GErr c :: _ => ([1; 100 + c], S n)
  | GPacket p :: r => all_matches own cap k r (S n) (match matches own cap k p with Some e => acc ++ [event_fields e] | None => acc end)
  end.
Definition ok_C18 (case obs: list N) : list N :=
  match exc_split case with
  | Some (own, cap, k, multi, p, t, gs, ans) =>
      let '(sret, slog, si) := send_packet own t p (mkI gs ans []) in
      let sent := i_sent si in
      match sret with
      | Fail e =>
          (* a send error is returned before the wait callback runs; nothing is polled *)
          let expect := [1; perr_code e] ++ show_log slog ++ show_trace sent [] ++ [nlen gs] in
          if list_eqb obs expect then [] else [180]
      | Val _ =>
          let '(res, used) := if multi then all_matches own cap k gs 0 [] else first_match own cap k gs 0 in
          let lft := N.of_nat (length gs - used) in
          let expect := res ++ show_log slog ++ show_trace sent (TWait :: repeat (TGet GNone) used) ++ [lft] in
          if list_eqb obs expect then [] else [181]
      | _ => [182]
      end
  | None => BAD
  end.
