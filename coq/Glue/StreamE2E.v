(* Stream E2E (C01): two nodes, real protocol stack on both ends.  case = link, ownA, ownB, gaps,
   B's handlers (label, capture flag, removed-again flag, transmit mode: the handler may transmit a fixed packet
   or forward the packet it was given, under transmit back-pressure - which must not disturb delivery), events.  A sends the events; the wire image is replayed to B's
   receiver with 'no data yet' answers inserted by the gap pattern; B ticks until the link is dry.
   Observation: ids B's registrations returned, A's send results, B's tick results, B's handler log,
   each logged packet together with the event some decoder reads from it. *)
Require Import RP.Model.Base RP.Model.Packet RP.Model.Events RP.Model.Frame RP.Model.Links RP.Model.Protocol RP.Spec.EventLayout
  RP.Lemmas.EndToEnd RP.Glue.Wire RP.Glue.StreamLink RP.Glue.StreamProto.

Definition e2e_split (case: list N) : option (N * N * N * list N * list (handler * bool) * list event) :=
  match case with
  | link :: ownA :: ownB :: ng :: r =>
      match take ng r with
      | Some (gaps, nh :: r1) =>
          match parse_lists_n (N.to_nat nh) r1 with
          | Some (hls, ne :: r2) =>
              match parse_lists_n (N.to_nat ne) r2 with
              | Some (els, []) =>
                  let hs := map (fun l => match l with [label; cap; rem; _] => (mkH label (negb (cap =? 0)) [], negb (rem =? 0)) | [label; cap; rem] => (mkH label (negb (cap =? 0)) [], negb (rem =? 0)) | [label; cap] => (mkH label (negb (cap =? 0)) [], false) | _ => (mkH 0 false [], false) end) hls in
                  let es := fold_right (fun l acc => match event_of l, acc with Some e, Some a => Some (e :: a) | _, _ => None end) (Some []) els in
                  option_map (fun es => (link, ownA, ownB, gaps, hs, es)) es
              | _ => None end
          | _ => None end
      | _ => None end
  | _ => None
  end.
(* the event a packet carries: decoded by the decoder of the kind its event code names *)
Definition classify (p: packet) : list N :=
  match code_of p with
  | Some c => match kind_of_code c with
              | Some k => match decode k p with Val e => event_fields e | _ => [255] end
              | None => [255] end
  | None => [255]
  end.
Definition show_elog (l: list logent) : list N :=
  nlen l :: concat (map (fun e => let v := fst (fst e) :: snd (fst e) :: show_packet (snd e) ++ classify (snd e) in nlen v :: v) l).
Definition ret_class {A} (o: out A perr) : N := match o with Val _ => 0 | Fail _ => 1 | Panic => 2 | Hang => 3 end.

Definition run_E2E (case: list N) : list N :=
  match e2e_split case with
  | Some (link, ownA, ownB, gaps, hs, es) =>
      let '(retsA, iA) := send_all ownA (map encode es) (mkI [] [] []) in
      (* B registers every handler, then unregisters the flagged ones *)
      let tbl0 := table_of (map (fun hr => PAdd (fst hr)) hs) [] in
      let ids := keys tbl0 in
      let tblB := fold_left (fun (t: table) (ir: N * (handler * bool)) => if snd (snd ir) then fst (remove_handler t (fst ir)) else t) (combine ids hs) tbl0 in
      match lnk_run link gaps (i_sent iA) 0 with
      | Some (polls_, _) =>
          let '(retsB, log) := ticks ownB tblB (map (fun rn => gres_of (fst rn)) polls_) in
          (nlen ids :: ids) ++ (nlen retsA :: map ret_class retsA) ++ (nlen retsB :: map ret_class retsB) ++ show_elog log
      | None => [3]
      end
  | None => BAD
  end.

(* per handler id: the sequence of events it observed; plus whether every send / tick succeeded *)
Definition e2e_parse (obs: list N) : option (list N * list N * list N * list (list N)) :=
  match obs with
  | nk :: r => match take nk r with
    | Some (ids, na :: r1) => match take na r1 with
      | Some (ra, nb :: r2) => match take nb r2 with
        | Some (rb, nl :: r3) => match parse_lists_n (N.to_nat nl) r3 with Some (ents, []) => Some (ids, ra, rb, ents) | _ => None end
        | _ => None end
      | _ => None end
    | _ => None end
  | [] => None
  end.
(* an entry is id :: label :: packet(err addr n bytes) ++ event fields; the view keeps id, label and the decoded event *)
Definition ent_view (e: list N) : list N :=
  match e with id :: label :: r => match parse_packet r with Some (_, ev) => id :: label :: ev | None => [3054] end | _ => [3054] end.
Definition view_C01 (case obs: list N) : list N :=
  match e2e_parse obs with
  | Some (ids, ra, rb, ents) =>
      let per_handler := map (fun id => let v := concat (map (fun e => match ent_view e with i :: _ :: ev => if i =? id then nlen ev :: ev else [] | _ => [3054] end) ents) in nlen v :: v) ids in
      ids ++ [b2N (forallb (fun x => x =? 0) ra); b2N (forallb (fun x => x =? 0) rb)] ++ concat per_handler
  | None => obs
  end.
(* expected log, from the statement: every transmitted event, in order, once per selected handler (key order),
   the packet being the published encoding and decoding to the event sent *)
Definition ok_C01 (case obs: list N) : list N :=
  match e2e_split case, e2e_parse obs with
  | Some (link, ownA, ownB, gaps, hs, es), Some (ids, ra, rb, ents) =>
      if negb (length ids =? length hs)%nat then [190] else
      let tbl := fold_left (fun (t: table) (ih: N * (handler * bool)) => if snd (snd ih) then t else insert (fst ih) (fst (snd ih)) t) (combine ids hs) [] in
      let sent := filter (fun e => negb (recv_of e =? ownA) || (ownA =? BROADCAST)) es in
      let expect := concat (map (fun e => map (fun kh => fst kh :: h_label (snd kh) :: show_packet (layout_encode e) ++ event_fields e)
                                                 (filter (fun kh => (recv_of e =? ownB) || (recv_of e =? BROADCAST) || h_cap (snd kh)) tbl)) sent) in
      if negb (forallb (fun x => x =? 0) ra) then [191]                   (* a send failed *)
      else if negb (forallb (fun x => x =? 0) rb) then [192]              (* a tick failed *)
      else if negb ((length ents =? length expect)%nat) then [193; nlen ents; nlen expect]     (* something lost, duplicated or invented *)
      else match filter (fun ab => negb (list_eqb (fst ab) (snd ab))) (combine ents expect) with
           | [] => []
           | (a, b) :: _ => 194 :: a                                         (* wrong handler, order, packet or decoded value *)
           end
  | Some _, None => match obs with [3] => [195] | _ => [3054] end
  | _, _ => [3054]
  end.
