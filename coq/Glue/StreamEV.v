(* Stream EV: a case is an event value; the raw observation is the packet produced by the encoder
   followed by the result of decoding that packet as the same kind.  Serves C03 (view: decoded
   value, error flag, address) and the encode side of C11 (view: the packet). *)
Require Import RP.Model.Base RP.Model.Packet RP.Model.Events RP.Glue.Wire.

Definition run_EV (case: list N) : list N :=
  match event_of case with
  | Some e => let p := encode e in show_packet p ++ show_dec (decode (kind_of e) p)
  | None => BAD
  end.

(* C03 view: error flag, address, decode result (not the payload bytes: those belong to C11) *)
Definition view_C03 (case obs: list N) : list N :=
  match parse_packet obs with
  | Some (p, r) => b2N (p_err p) :: p_addr p :: r
  | None => BAD
  end.

(* C03 checker on an observation: [] = the property holds on this case, else the failing clause *)
Definition ok_C03 (case obs: list N) : list N :=
  match event_of case, parse_packet obs with
  | Some e, Some (p, r) =>
      (* outside the statement: field values out of range, data events whose declared length differs from the payload they hold *)
      if negb (wf_event e) then [] else
      match parse_dobs r with
      | Some (DVal v, []) =>
          if negb (list_eqb v case) then [1]            (* decoded value differs from the one sent *)
          else if p_err p then [2]                       (* error packet *)
          else if negb (p_addr p =? recv_of e) then [3]  (* not addressed to the receiver *)
          else []
      | Some (DErr c, _) => [4; c]                       (* own encoding rejected *)
      | Some (DPanic, _) => [5]
      | _ => [6]
      end
  | _, _ => BAD
  end.
