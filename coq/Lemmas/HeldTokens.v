(* HeldTokens.v - C19 bookkeeping at token level: for ANY device script (arbitrary bytes in any arrangement - truncated link frames,
   read errors inside frames, 'no data yet' anywhere; on CAN any driver-constructible frames), after EVERY poll of the harness loop the
   receiver holds at most the announced number of frames of one packet, itself at most 4096.  Stronger than held_bounded, which speaks
   about whole link frames; and the extracted C19 checker accepts the model's own observation of every such script. *)
Require Import RP.Model.Base RP.Model.Packet RP.Model.Cobs RP.Model.Frame RP.Model.Links RP.Spec.Frag
  RP.Lemmas.Builder RP.Lemmas.OnFrame RP.Lemmas.LinkGeneric RP.Lemmas.LinkTheorems
  RP.Glue.Wire RP.Glue.StreamFrame RP.Glue.StreamPacket RP.Glue.StreamLink.

Definition step_inv (M: machine) (PhI: phase M -> Prop) (TokOk: tok M -> Prop) : Prop :=
  forall ph b t, PhI ph -> rx_ok b -> TokOk t ->
  match mstep M ph b t with (Emit _, b') => rx_ok b' | (Cont ph', b') => PhI ph' /\ rx_ok b' end.

Lemma poll_go_inv (M: machine) (PhI: phase M -> Prop) (TokOk: tok M -> Prop) (Hstep: step_inv M PhI TokOk) :
  forall s ph b, PhI ph -> rx_ok b -> Forall TokOk s ->
  rx_ok (snd (fst (poll_go M ph b s))) /\ Forall TokOk (snd (poll_go M ph b s)).
Proof.
  induction s as [|t s IH]; intros ph b Hph Hb Hs; cbn [poll_go]; [split; [exact Hb|constructor]|].
  inversion Hs as [|? ? Ht Hs']; subst. pose proof (Hstep ph b t Hph Hb Ht) as H.
  destruct (mstep M ph b t) as [[r|ph'] b']; cbn [fst snd]; [split; assumption|]. destruct H as [H1 H2]. apply IH; assumption.
Qed.

Definition row_ok (e: res * N * N) : Prop := let '(_, h, a) := e in h <= a /\ a <= 4096.

Lemma row_of_rx_ok r b : rx_ok b -> row_ok (r, held_of b, match b with Some x => b_exp x | None => 0 end).
Proof. intros H. exact (rx_ok_bound b H). Qed.

Theorem polls_held_bounded (M: machine) (PhI: phase M -> Prop) (TokOk: tok M -> Prop) (Hidle: PhI (idle M)) (Hstep: step_inv M PhI TokOk) :
  forall fuel b s, rx_ok b -> Forall TokOk s -> Forall row_ok (polls_held M fuel b s).
Proof.
  induction fuel as [|f IH]; intros b s Hb Hs; [constructor|]. cbn [polls_held].
  destruct s as [|t s'].
  - unfold poll. cbn [poll_go]. constructor; [exact (row_of_rx_ok _ b Hb)|constructor].
  - pose proof (poll_go_inv M PhI TokOk Hstep (t :: s') (idle M) b Hidle Hb Hs) as [H1 H2]. unfold poll.
    destruct (poll_go M (idle M) b (t :: s')) as [[r b'] s'']. cbn [fst snd] in *.
    constructor; [exact (row_of_rx_ok _ b' H1)|]. destruct (bad_res r); [constructor|]. apply IH; assumption.
Qed.

(* ---- the three links ---- *)
Definition uph_ok (ph: uphase) : Prop := match ph with UBody _ acc => bytes acc = true | _ => True end.
Definition utok_ok (t: utok) : Prop := match t with UB x => x < 256 | _ => True end.
Definition stok_ok (t: stok) : Prop := match t with SB x => x < 256 | _ => True end.
Definition ctok_ok (t: ctok) : Prop := match t with CF c => wf_canframe c = true | _ => True end.

Lemma finish_ok (ph0: uphase) b body : uph_ok ph0 -> rx_ok b -> bytes body = true ->
  match finish ph0 (on_body b body) with (Emit _, b') => rx_ok b' | (Cont ph', b') => uph_ok ph' /\ rx_ok b' end.
Proof.
  intros H0 Hb Hbody. destruct (on_body_safe b body Hb Hbody) as [H1 _].
  destruct (on_body b body) as [b' [x|]]; cbn [finish fst] in *; [exact H1|split; assumption].
Qed.

Lemma bytes_snoc acc x : bytes acc = true -> x < 256 -> bytes (acc ++ [x]) = true.
Proof. intros Ha Hx. rewrite bytes_app, Ha. cbn. unfold byte. apply N.ltb_lt in Hx. rewrite Hx. reflexivity. Qed.

Lemma ustep_inv ph b t : uph_ok ph -> rx_ok b -> utok_ok t ->
  match ustep ph b t with (Emit _, b') => rx_ok b' | (Cont ph', b') => uph_ok ph' /\ rx_ok b' end.
Proof.
  intros Hph Hb Ht. destruct ph as [| |n acc]; destruct t as [x| |]; cbn [ustep]; try (exact Hb); try (split; [exact I|exact Hb]); try (split; [exact Hph|exact Hb]).
  - destruct (x =? 0); split; try exact I; exact Hb.
  - destruct (x =? 0); [apply finish_ok; [exact I|exact Hb|reflexivity]|split; [reflexivity|exact Hb]].
  - cbv zeta. destruct (length (acc ++ [x]) <? n)%nat.
    + split; [apply bytes_snoc; assumption|exact Hb].
    + apply finish_ok; [exact I|exact Hb|apply bytes_snoc; assumption].
Qed.

Lemma sstep_inv ph b t : uph_ok ph -> rx_ok b -> stok_ok t ->
  match sstep ph b t with (Emit _, b') => rx_ok b' | (Cont ph', b') => uph_ok ph' /\ rx_ok b' end.
Proof.
  intros Hph Hb Ht. destruct ph as [| |n acc]; destruct t as [x| | |]; cbn [sstep]; try (exact Hb); try (split; [exact I|exact Hb]); try (split; [exact Hph|exact Hb]).
  - destruct (x =? 0); split; try exact I; exact Hb.
  - destruct (x =? 0); [apply finish_ok; [exact I|exact Hb|reflexivity]|split; [reflexivity|exact Hb]].
  - cbv zeta. destruct (length (acc ++ [x]) <? n)%nat.
    + split; [apply bytes_snoc; assumption|exact Hb].
    + apply finish_ok; [exact I|exact Hb|apply bytes_snoc; assumption].
Qed.

Lemma cstep_inv (ph: unit) b t : True -> rx_ok b -> ctok_ok t ->
  match cstep ph b t with (Emit _, b') => rx_ok b' | (Cont ph', b') => True /\ rx_ok b' end.
Proof.
  intros _ Hb Ht. destruct t as [c| |]; cbn [cstep]; try exact Hb.
  destruct (on_can_safe b c Hb Ht) as [H1 _]. destruct (on_decoded b (from_bxcan c)) as [b' [x|]]; cbn [finish fst] in *; [exact H1|split; [exact I|exact H1]].
Qed.

Lemma utok_of_ok toks : Forall utok_ok (map utok_of toks).
Proof. apply Forall_forall. intros t Ht. apply in_map_iff in Ht. destruct Ht as [x [<- _]]. unfold utok_of. destruct (x <? 256) eqn:E; [apply N.ltb_lt in E; exact E|destruct (x =? 256); exact I]. Qed.
Lemma stok_of_ok toks : Forall stok_ok (map stok_of toks).
Proof. apply Forall_forall. intros t Ht. apply in_map_iff in Ht. destruct Ht as [x [<- _]]. unfold stok_of. destruct (x <? 256) eqn:E; [apply N.ltb_lt in E; exact E|destruct (x =? 256); [exact I|destruct (x =? 258); exact I]]. Qed.

(* every raw device script the harness can write *)
Theorem held_tokens_usart toks fuel : Forall row_ok (polls_held usart fuel None (map utok_of toks)).
Proof. apply (polls_held_bounded usart uph_ok utok_ok I ustep_inv); [exact I|apply utok_of_ok]. Qed.
Theorem held_tokens_serial toks fuel : Forall row_ok (polls_held serial fuel None (map stok_of toks)).
Proof. apply (polls_held_bounded serial uph_ok stok_ok I sstep_inv); [exact I|apply stok_of_ok]. Qed.
Theorem held_tokens_can s fuel : Forall ctok_ok s -> Forall row_ok (polls_held can fuel None s).
Proof. intros H. apply (polls_held_bounded can (fun _ => True) ctok_ok I cstep_inv); [exact I|exact H]. Qed.

(* ================= the extracted C19 checker accepts the model's observation of EVERY device script ================= *)
Require Import RP.Lemmas.GlueLemmas RP.Lemmas.GlueC06.

Lemma filter_nil {A} (f: A -> bool) (l: list A) : Forall (fun x => f x = false) l -> filter f l = [].
Proof. induction l as [|x t IH]; intros H; [reflexivity|]. inversion H as [|? ? Hx Ht]; subst. cbn [filter]. rewrite Hx. exact (IH Ht). Qed.

Lemma last_three (v: list N) a b : last (v ++ [a; b; 0]) 0 = 0.
Proof. change [a; b; 0] with ([a; b] ++ [0]). rewrite app_assoc. apply last_last. Qed.

Lemma parse_peaks_n_show : forall l r, Forall (fun pk => pk = 0) (parse_peaks_n (length l) (concat (map show_poll l) ++ r)).
Proof.
  induction l as [|[x n] t IH]; intros r; [constructor|].
  cbn [length map concat parse_peaks_n]. unfold show_poll at 1. cbn [fst snd]. cbv zeta.
  rewrite <- app_assoc. cbn [app]. rewrite take_app. constructor; [apply last_three|apply IH].
Qed.
Lemma parse_peaks_show l : Forall (fun pk => pk = 0) (parse_peaks (show_polls l)).
Proof.
  unfold show_polls, parse_peaks, nlen. rewrite Nat2N.id. rewrite <- (app_nil_r (concat (map show_poll l))). apply parse_peaks_n_show.
Qed.

Lemma pobs_heap l : Forall (fun e : list N * N * N => snd e = 0) (pobs l).
Proof. unfold pobs. apply Forall_forall. intros e He. apply in_map_iff in He. destruct He as [x [<- _]]. reflexivity. Qed.

Lemma uni_pobs l : Forall (fun e : list N * N * N => negb (let '(r, _, heap) := e in
            (heap <=? 96 + 40 * 4096) &&
            (match r with 0 :: _ => heap =? 0 | [1; c] => negb ((10 <=? c) && (c <=? 15)) || (heap =? 0) | _ => true end)) = false) (pobs l).
Proof.
  unfold pobs. apply Forall_forall. intros e He. apply in_map_iff in He. destruct He as [[r n] [<- _]]. cbn [fst snd].
  destruct r as [p|e| | | |]; cbn [show_res]; try reflexivity.
  change (0 <=? 96 + 40 * 4096) with true. cbn [andb]. change (0 =? 0) with true. rewrite orb_true_r. reflexivity.
Qed.

Theorem c19_accepts_polls case link meta toks l hs :
  rcv_split case = Some (link, meta, toks) -> held_link_tokens link toks = Some hs -> Forall row_ok hs ->
  ok_C19 case (show_polls l) = [].
Proof.
  intros Hsp Hh Hrows. unfold ok_C19, c19_eval. rewrite Hsp, parse_show_polls, Hh. cbv zeta.
  rewrite (filter_nil _ _ (uni_pobs l)).
  match goal with |- context [filter ?f (combine (combine (pobs l) (parse_peaks (show_polls l))) ?hb)] =>
    assert (Hg: filter f (combine (combine (pobs l) (parse_peaks (show_polls l))) hb) = []) end.
  { apply filter_nil. apply Forall_forall. intros [[e pk] hb] Hin.
    apply in_combine_l in Hin. apply in_combine_r in Hin.
    pose proof (parse_peaks_show l) as Hp. rewrite Forall_forall in Hp. rewrite (Hp pk Hin).
    replace (hb + 700 <? 0) with false by (symmetry; apply N.ltb_ge; lia). apply andb_false_r. }
  rewrite Hg.
  match goal with |- context [if ?c then filter ?f (combine hs (pobs l)) else []] =>
    assert (Hf: (if c then filter f (combine hs (pobs l)) else []) = []) end.
  { match goal with |- (if ?c then _ else _) = _ => destruct c; [|reflexivity] end.
    apply filter_nil. apply Forall_forall. intros [[[r held] ann] [[r' lft] heap]] Hin.
    pose proof (in_combine_l _ _ _ _ Hin) as H1. pose proof (in_combine_r _ _ _ _ Hin) as H2.
    rewrite Forall_forall in Hrows. specialize (Hrows _ H1). cbn in Hrows. destruct Hrows as [Ha Hb].
    pose proof (pobs_heap l) as Hz. rewrite Forall_forall in Hz. specialize (Hz _ H2). cbn [snd] in Hz. subst heap.
    apply negb_false_iff. rewrite !andb_true_iff. repeat split; try (apply N.leb_le; lia). apply orb_true_r. }
  rewrite Hf. reflexivity.
Qed.

Lemma rcv_run_shape case link meta toks l : rcv_split case = Some (link, meta, toks) -> run_link_tokens link toks = Some l -> run_RCV case = show_polls l.
Proof. intros H1 H2. unfold run_RCV. rewrite H1, H2. reflexivity. Qed.

(* USART and serial port: EVERY case line that parses (any tokens whatsoever); CAN: every script of driver-constructible frames *)
Theorem ok_C19_usart_accepts_model case meta toks : rcv_split case = Some (1, meta, toks) -> ok_C19 case (run_RCV case) = [].
Proof.
  intros Hsp. rewrite (rcv_run_shape case 1 meta toks _ Hsp eq_refl).
  apply (c19_accepts_polls case 1 meta toks _ _ Hsp eq_refl). cbv zeta. apply held_tokens_usart.
Qed.
Theorem ok_C19_serial_accepts_model case meta toks : rcv_split case = Some (2, meta, toks) -> ok_C19 case (run_RCV case) = [].
Proof.
  intros Hsp. rewrite (rcv_run_shape case 2 meta toks _ Hsp eq_refl).
  apply (c19_accepts_polls case 2 meta toks _ _ Hsp eq_refl). cbv zeta. apply held_tokens_serial.
Qed.
Theorem ok_C19_can_accepts_model case meta toks s : rcv_split case = Some (0, meta, toks) -> ctoks_of toks = Some s -> Forall ctok_ok s ->
  ok_C19 case (run_RCV case) = [].
Proof.
  intros Hsp Hs Hok. assert (Hrun: run_link_tokens 0 toks = Some (run_polls can s)) by (cbn [run_link_tokens]; rewrite Hs; reflexivity).
  rewrite (rcv_run_shape case 0 meta toks _ Hsp Hrun).
  apply (c19_accepts_polls case 0 meta toks _ (polls_held can (S (S (length s))) None s) Hsp); [cbn [held_link_tokens]; rewrite Hs; reflexivity|].
  apply held_tokens_can. exact Hok.
Qed.
