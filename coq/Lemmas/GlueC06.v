(* GlueC06.v - the extracted C06 checker (Glue/StreamLink.v: c06_eval) accepts the model's own observation of every script in the
   property's quantifier: whole link frames / noise / gaps, then the two probe packets.  Uses the resync theorems of LinkTheorems.v. *)
Require Import RP.Model.Base RP.Model.Packet RP.Model.Cobs RP.Model.Frame RP.Model.Links RP.Spec.Frag
  RP.Lemmas.OnFrame RP.Lemmas.LinkGeneric RP.Lemmas.LinkUsart RP.Lemmas.LinkSerialCan RP.Lemmas.LinkTheorems
  RP.Glue.Wire RP.Glue.StreamFrame RP.Glue.StreamPacket RP.Glue.StreamLink RP.Lemmas.GlueLemmas.

(* what parse_polls reads back from show_polls *)
Definition pobs (l: list (res * N)) : list (list N * N * N) := map (fun rn => (show_res (fst rn), snd rn, 0)) l.

Lemma parse_polls_n_show : forall l r, parse_polls_n (length l) (concat (map show_poll l) ++ r) = Some (pobs l, r).
Proof.
  induction l as [|[x n] t IH]; intros r; [reflexivity|].
  cbn [length map concat parse_polls_n pobs]. unfold show_poll at 1. cbn [fst snd]. cbv zeta.
  rewrite <- app_assoc. cbn [app]. rewrite take_app.
  rewrite rev_append_rev, app_nil_r, rev_app_distr. cbn [rev app].
  rewrite IH. rewrite rev_append_rev, app_nil_r, rev_involutive. reflexivity.
Qed.

Lemma parse_show_polls l : parse_polls (show_polls l) = Some (pobs l, []).
Proof.
  unfold show_polls, parse_polls, nlen. rewrite Nat2N.id.
  rewrite <- (app_nil_r (concat (map show_poll l))). apply parse_polls_n_show.
Qed.

Lemma pobs_results l : map (fun e : list N * N * N => fst (fst e)) (pobs l) = map show_res (map fst l).
Proof. unfold pobs. rewrite !map_map. reflexivity. Qed.
Lemma pobs_classes l : map (fun e : list N * N * N => res_class (fst (fst e))) (pobs l) = map res_class (map show_res (map fst l)).
Proof. unfold pobs. rewrite !map_map. reflexivity. Qed.

Lemma good_class r : good r -> (2 <? res_class (show_res r)) = false.
Proof. destruct r; cbn; intros H; try reflexivity; destruct H. Qed.
Lemma good_not_bad r : good r -> bad_res r = false.
Proof. destruct r; cbn; intros H; try reflexivity; destruct H. Qed.

Lemma cut_good : forall l, Forall good (map fst l) -> cut l = l.
Proof.
  induction l as [|[r n] t IH]; intros H; [reflexivity|]. cbn [map fst] in H. inversion H as [|? ? Hr Ht]; subst.
  cbn [cut]. rewrite (good_not_bad r Hr), (IH Ht). reflexivity.
Qed.

Lemma is_err_good r : is_err r -> good r.
Proof. destruct r as [|e| | | |]; cbn; intros H; try exact I; destruct H. Qed.

Lemma probe_good p1 p2 probe : probe_shape p1 p2 probe -> Forall good probe.
Proof.
  intros [->|[errs [_ [He ->]]]]; [repeat constructor|].
  apply Forall_app. split; [|repeat constructor]. eapply Forall_impl; [|exact He]. exact is_err_good.
Qed.

Lemma all_good pre probe k p1 p2 : Forall good pre -> probe_shape p1 p2 probe -> Forall good (pre ++ probe ++ repeat RP.Model.Links.RNone k).
Proof.
  intros Hp Hs. apply Forall_app. split; [exact Hp|]. apply Forall_app. split; [eapply probe_good; exact Hs|].
  apply Forall_forall. intros x Hx. apply repeat_spec in Hx. subst. exact I.
Qed.

Definition nn (r: list N) : bool := negb (res_class r =? 2).

Lemma filter_nn_none k : filter nn (map show_res (repeat RP.Model.Links.RNone k)) = [].
Proof. induction k as [|k IH]; [reflexivity|]. cbn. exact IH. Qed.
Lemma filter_nn_errs errs : Forall is_err errs -> filter nn (map show_res errs) = map show_res errs.
Proof.
  induction errs as [|e t IH]; intros H; [reflexivity|]. inversion H as [|? ? He Ht]; subst.
  destruct e as [|[x|x| |]| | | |]; cbn in He; try destruct He. cbn. rewrite (IH Ht). reflexivity.
Qed.

(* the end of the non-'nothing received' results, reversed: probe 2, then probe 1 or an error *)
Lemma nonnone_tail pre probe k p1 p2 : probe_shape p1 p2 probe ->
  exists pr rest, rev_append (filter nn (map show_res (pre ++ probe ++ repeat RP.Model.Links.RNone k))) [] = (0 :: show_packet p2) :: pr :: rest /\
                  ((res_class pr =? 1) || list_eqb pr (0 :: show_packet p1)) = true.
Proof.
  intros Hs. rewrite rev_append_rev, app_nil_r. rewrite !map_app, !filter_app, filter_nn_none, app_nil_r, rev_app_distr.
  destruct Hs as [->|[errs [Hne [He ->]]]].
  - cbn [map show_res filter nn res_class]. cbn. eexists; eexists. split; [reflexivity|]. rewrite list_eqb_refl. apply orb_true_r.
  - rewrite map_app, filter_app. cbn [map show_res filter]. change (nn (0 :: show_packet p2)) with true. cbv iota.
    rewrite (filter_nn_errs errs He). rewrite rev_app_distr. cbn [rev app].
    destruct (exists_last Hne) as [errs' [e ->]]. apply Forall_app in He. destruct He as [_ He]. inversion He as [|? ? Hee _]; subst.
    rewrite map_app, rev_app_distr. cbn [map rev app].
    destruct e as [|[x|x| |]| | | |]; cbn in Hee; try destruct Hee.
    eexists; eexists. split; [reflexivity|]. reflexivity.
Qed.

Lemma existsb_good rs : Forall good rs -> existsb (fun c => 2 <? c) (map res_class (map show_res rs)) = false.
Proof.
  induction rs as [|r t IH]; intros H; [reflexivity|]. inversion H as [|? ? Hr Ht]; subst.
  cbn [map existsb]. rewrite (good_class r Hr), (IH Ht). reflexivity.
Qed.

Theorem c06_accepts_polls case link meta toks np p1 p2 l pre probe k :
  rcv_split case = Some (link, meta, toks) -> c06_meta meta = Some (np, p1, p2) ->
  map fst l = pre ++ probe ++ repeat RP.Model.Links.RNone k -> Forall good pre -> probe_shape p1 p2 probe ->
  ok_C06 case (show_polls l) = [].
Proof.
  intros Hsp Hme Hl Hpre Hshape. unfold ok_C06. destruct (c06_applies case); [|reflexivity].
  unfold c06_eval. rewrite Hsp, parse_show_polls, Hme. cbv zeta.
  rewrite pobs_classes, pobs_results, Hl.
  rewrite (existsb_good _ (all_good pre probe k p1 p2 Hpre Hshape)).
  destruct (nonnone_tail pre probe k p1 p2 Hshape) as [pr [rest [Hrev Hprev]]].
  unfold nn in Hrev. rewrite Hrev. cbv iota beta. cbn [snd negb].
  rewrite list_eqb_refl, Hprev. reflexivity.
Qed.

(* the case line the harness writes: link, the meta block (probe length and the two probes), the device tokens *)
Definition c06_case (link np: N) (p1 p2: packet) (toks: list N) : list N :=
  let meta := np :: show_packet p1 ++ show_packet p2 in link :: nlen meta :: meta ++ toks.

Lemma c06_case_split link np p1 p2 toks : rcv_split (c06_case link np p1 p2 toks) = Some (link, np :: show_packet p1 ++ show_packet p2, toks).
Proof. unfold c06_case, rcv_split. cbv zeta. rewrite take_app. reflexivity. Qed.
Lemma c06_case_meta np p1 p2 : c06_meta (np :: show_packet p1 ++ show_packet p2) = Some (np, p1, p2).
Proof.
  unfold c06_meta. rewrite parse_show_packet. rewrite <- (app_nil_r (show_packet p2)), parse_show_packet. reflexivity.
Qed.

Lemma c06_accepts_run (M: machine) link np p1 p2 toks (s: list (tok M)) :
  run_link_tokens link toks = Some (run_polls M s) ->
  (exists pre probe k, map fst (fst (polls M (S (S (length s))) None s)) = pre ++ probe ++ repeat RP.Model.Links.RNone k /\ Forall good pre /\ probe_shape p1 p2 probe) ->
  ok_C06 (c06_case link np p1 p2 toks) (run_RCV (c06_case link np p1 p2 toks)) = [].
Proof.
  intros Hrun [pre [probe [k [Hm [Hpre Hshape]]]]].
  unfold run_RCV. rewrite c06_case_split, Hrun.
  apply (c06_accepts_polls _ link _ toks np p1 p2 _ pre probe k (c06_case_split _ _ _ _ _) (c06_case_meta _ _ _)); [|exact Hpre|exact Hshape].
  unfold run_polls. rewrite cut_good; [exact Hm|]. rewrite Hm. exact (all_good pre probe k p1 p2 Hpre Hshape).
Qed.

Theorem ok_C06_usart_accepts_model items p1 p2 np toks : Forall bitem_ok items -> wfp p1 -> wfp p2 -> small p1 -> small p2 ->
  map utok_of toks = concat (map uitem_toks items) ++ concat (map (fun f => map UB (link_frame (enc_of f))) (frag_spec p1 ++ frag_spec p2)) ->
  ok_C06 (c06_case 1 np p1 p2 toks) (run_RCV (c06_case 1 np p1 p2 toks)) = [].
Proof.
  intros Hi Hw1 Hw2 Hs1 Hs2 Ht. apply (c06_accepts_run usart 1 np p1 p2 toks (map utok_of toks)); [reflexivity|].
  rewrite Ht. match goal with |- context [polls usart (S (S (length ?s))) None ?s] => assert (Hf: (length s < S (S (length s)))%nat) by lia end.
  destruct (resync_usart items p1 p2 _ Hi Hw1 Hw2 Hs1 Hs2 Hf) as [pre [probe [k [_ [Hm [Hp [Hsh _]]]]]]].
  exists pre, probe, k. auto.
Qed.

Theorem ok_C06_serial_accepts_model items p1 p2 np toks : Forall bitem_ok items -> wfp p1 -> wfp p2 -> small p1 -> small p2 ->
  map stok_of toks = concat (map sitem_toks items) ++ concat (map frames_tokens_serial (frag_spec p1 ++ frag_spec p2)) ->
  ok_C06 (c06_case 2 np p1 p2 toks) (run_RCV (c06_case 2 np p1 p2 toks)) = [].
Proof.
  intros Hi Hw1 Hw2 Hs1 Hs2 Ht. apply (c06_accepts_run serial 2 np p1 p2 toks (map stok_of toks)); [reflexivity|].
  rewrite Ht. match goal with |- context [polls serial (S (S (length ?s))) None ?s] => assert (Hf: (length s < S (S (length s)))%nat) by lia end.
  destruct (resync_serial items p1 p2 _ Hi Hw1 Hw2 Hs1 Hs2 Hf) as [pre [probe [k [_ [Hm [Hp [Hsh _]]]]]]].
  exists pre, probe, k. auto.
Qed.

Theorem ok_C06_can_accepts_model items p1 p2 np toks : Forall citem_ok items -> wfp p1 -> wfp p2 -> small p1 -> small p2 ->
  ctoks_of toks = Some (concat (map citem_toks items) ++ concat (map frames_tokens_can (frag_spec p1 ++ frag_spec p2))) ->
  ok_C06 (c06_case 0 np p1 p2 toks) (run_RCV (c06_case 0 np p1 p2 toks)) = [].
Proof.
  intros Hi Hw1 Hw2 Hs1 Hs2 Ht.
  apply (c06_accepts_run can 0 np p1 p2 toks (concat (map citem_toks items) ++ concat (map frames_tokens_can (frag_spec p1 ++ frag_spec p2)))).
  - cbn [run_link_tokens]. rewrite Ht. reflexivity.
  - match goal with |- context [polls can (S (S (length ?s))) None ?s] => assert (Hf: (length s < S (S (length s)))%nat) by lia end.
    destruct (resync_can items p1 p2 _ Hi Hw1 Hw2 Hs1 Hs2 Hf) as [pre [probe [k [_ [Hm [Hp [Hsh _]]]]]]].
    exists pre, probe, k. auto.
Qed.

(* the hypotheses are satisfiable: a USART script of a zero-length link frame, a malformed COBS body, noise and a gap, then two probes *)
Example c06_case_nonvacuous :
  let p1 := mkP false 7 [1; 2; 3] in let p2 := mkP true 9 [9; 8; 7; 6; 5; 4; 3; 2; 1; 0] in
  let items := [IRaw []; IRaw [5; 1; 2]; INoise 77; IGap] in
  exists toks, map utok_of toks = concat (map uitem_toks items) ++ concat (map (fun f => map UB (link_frame (enc_of f))) (frag_spec p1 ++ frag_spec p2))
               /\ ok_C06 (c06_case 1 12 p1 p2 toks) (run_RCV (c06_case 1 12 p1 p2 toks)) = [].
Proof.
  cbv zeta.
  exists (map (fun t => match t with UB x => x | UWB => 256 | UErr => 257 end)
           (concat (map uitem_toks [IRaw []; IRaw [5; 1; 2]; INoise 77; IGap]) ++
            concat (map (fun f => map UB (link_frame (enc_of f))) (frag_spec (mkP false 7 [1; 2; 3]) ++ frag_spec (mkP true 9 [9; 8; 7; 6; 5; 4; 3; 2; 1; 0]))))).
  split; vm_compute; reflexivity.
Qed.
