Require Import RP.Model.Base RP.Model.Packet RP.Model.Events RP.Model.Protocol.
From Coq Require Import Sorting.Sorted.

Definition sorted (ks: list N) := StronglySorted N.lt ks.

Lemma next_go_spec : forall ks c, sorted ks ->
  let r := next_go c ks in c <= r /\ ~ In r ks /\ ((forall k, In k ks -> c < k) -> r = c)
  /\ (forall x, c <= x < r -> In x ks).
Proof.
  induction ks as [|k t IH]; intros c Hs; cbn [next_go].
  - split; [lia|]. split; [intros []|]. split; [reflexivity|]. intros x Hx. lia.
  - inversion Hs as [|? ? Hst Hall]; subst. rewrite Forall_forall in Hall.
    destruct (c =? k) eqn:E.
    + apply N.eqb_eq in E. subst k. destruct (IH (c + 1) Hst) as [H1 [H2 [H3 H4]]].
      split; [lia|]. split; [intros [Hk|Hk]; [lia|contradiction]|]. split.
      * intros Hall'. specialize (Hall' c (or_introl eq_refl)). lia.
      * intros x Hx. destruct (N.eq_dec x c) as [->|Hne]; [left; reflexivity|]. right. apply H4. lia.
    + apply N.eqb_neq in E. destruct (IH c Hst) as [H1 [H2 [H3 H4]]].
      split; [assumption|]. split; [|split].
      * intros [Hk|Hk]; [|contradiction].
        destruct (N.lt_ge_cases c k) as [Hlt|Hge].
        -- assert (Hr: next_go c t = c) by (apply H3; intros k' Hk'; specialize (Hall k' Hk'); lia). lia.
        -- lia.
      * intros Hall'. apply H3. intros k' Hk'. apply Hall'. right. assumption.
      * intros x Hx. right. apply H4. assumption.
Qed.

(* the id handed out is not in use, and is the least such id *)
Theorem next_id_fresh t : sorted (keys t) -> ~ In (next_id t) (keys t) /\ (forall x, x < next_id t -> In x (keys t)).
Proof.
  intros Hs. destruct (next_go_spec (keys t) 0 Hs) as [_ [H2 [_ H4]]]. split; [exact H2|]. intros x Hx. apply H4. unfold next_id in Hx. lia.
Qed.

Definition lookup (k: N) (t: table) : option handler := option_map snd (find (fun kh => fst kh =? k) t).

Lemma insert_keys_fresh k v t : sorted (keys t) -> ~ In k (keys t) ->
  sorted (keys (insert k v t)) /\ (forall x, In x (keys (insert k v t)) <-> x = k \/ In x (keys t)) /\
  lookup k (insert k v t) = Some v /\ (forall x, x <> k -> lookup x (insert k v t) = lookup x t).
Proof.
  induction t as [|[k' v'] r IH]; intros Hs Hn; cbn [insert keys map fst].
  - split; [repeat constructor|]. split; [intros x; cbn; intuition (auto; congruence)|]. unfold lookup. cbn. rewrite N.eqb_refl. split; [reflexivity|].
    intros x Hx. assert (E: (k =? x) = false) by lia. rewrite E. reflexivity.
  - cbn [keys map fst] in Hs, Hn. inversion Hs as [|? ? Hst Hall]; subst.
    destruct (k <? k') eqn:E1.
    + apply N.ltb_lt in E1. cbn [keys map fst]. split; [|split].
      * constructor; [exact Hs|]. constructor; [assumption|]. rewrite Forall_forall in *. intros x Hx. specialize (Hall x Hx). lia.
      * intros x. cbn. intuition (auto; congruence).
      * unfold lookup. cbn [find fst]. rewrite N.eqb_refl. split; [reflexivity|]. intros x Hx. assert (E: (k =? x) = false) by lia. rewrite E. reflexivity.
    + apply N.ltb_ge in E1. destruct (k =? k') eqn:E2; [apply N.eqb_eq in E2; subst; exfalso; apply Hn; left; reflexivity|].
      apply N.eqb_neq in E2. cbn [keys map fst]. destruct (IH Hst) as [IH1 [IH2 [IH3 IH4]]]; [intros Hx; apply Hn; right; exact Hx|].
      split; [|split; [|split]].
      * constructor; [exact IH1|]. rewrite Forall_forall in *. intros x Hx. apply IH2 in Hx. destruct Hx as [->|Hx]; [lia|apply Hall, Hx].
      * intros x. cbn. rewrite IH2. intuition (auto; congruence).
      * unfold lookup in *. cbn [find fst]. assert (E: (k' =? k) = false) by lia. rewrite E. exact IH3.
      * intros x Hx. unfold lookup in *. cbn [find fst]. destruct (k' =? x); [reflexivity|]. apply IH4. exact Hx.
Qed.

Lemma remove_keys k t t' : sorted (keys t) -> remove k t = Some t' ->
  In k (keys t) /\ sorted (keys t') /\ (forall x, In x (keys t') <-> In x (keys t) /\ x <> k) /\
  (forall x, x <> k -> lookup x t' = lookup x t).
Proof.
  revert t'. induction t as [|[k' v'] r IH]; intros t' Hs H; cbn [remove] in H; [discriminate|].
  cbn [keys map fst] in Hs. inversion Hs as [|? ? Hst Hall]; subst. rewrite Forall_forall in Hall.
  destruct (k =? k') eqn:E.
  - apply N.eqb_eq in E. subst k'. inversion H; subst t'. split; [left; reflexivity|]. split; [exact Hst|]. split.
    + intros x. cbn. split; [intros Hx; split; [right; exact Hx|specialize (Hall x Hx); lia]|intros [[Hx|Hx] Hne]; [congruence|exact Hx]].
    + intros x Hx. unfold lookup. cbn [find fst]. assert (E: (k =? x) = false) by lia. rewrite E. reflexivity.
  - apply N.eqb_neq in E. destruct (remove k r) as [r'|] eqn:Er; [|discriminate]. inversion H; subst t'.
    destruct (IH r' Hst eq_refl) as [H1 [H2 [H3 H4]]]. split; [right; exact H1|]. split; [|split].
    + cbn [keys map fst]. constructor; [exact H2|]. apply Forall_forall. intros x Hx. apply H3 in Hx. apply Hall. tauto.
    + intros x. cbn. rewrite H3. split; [intros [Hx|[Hx Hne]]; [split; [left; exact Hx|congruence]|split; [right; exact Hx|exact Hne]]|intros [[Hx|Hx] Hne]; [left; exact Hx|right; tauto]].
    + intros x Hx. unfold lookup in *. cbn [find fst]. destruct (k' =? x); [reflexivity|]. apply H4. exact Hx.
Qed.

Lemma remove_none k t : remove k t = None <-> ~ In k (keys t).
Proof.
  induction t as [|[k' v'] r IH]; cbn [remove keys map fst]; [split; [intros _ []|reflexivity]|].
  destruct (k =? k') eqn:E.
  - apply N.eqb_eq in E. subst. split; [discriminate|intros H; exfalso; apply H; left; reflexivity].
  - apply N.eqb_neq in E. destruct (remove k r); cbn [option_map].
    + split; [discriminate|]. intros H. exfalso. apply H. right. apply Decidable.not_not; [unfold Decidable.decidable; destruct (in_dec N.eq_dec k (map fst r)); tauto|]. intros Hn. apply IH in Hn. discriminate.
    + split; [|reflexivity]. intros _ [Hk|Hk]; [congruence|]. apply (proj1 IH eq_refl), Hk.
Qed.

(* ---------- histories of register / remove operations ---------- *)
Inductive rop := OAdd (h: handler) | ORemove (id: N).
Inductive rout := RId (id: N) | ROk | RNoSuch.
Definition reg_step (t: table) (o: rop) : table * rout :=
  match o with
  | OAdd h => let '(t', id) := add_handler t h in (t', RId id)
  | ORemove id => match remove_handler t id with (t', Val _) => (t', ROk) | (t', _) => (t', RNoSuch) end
  end.
Fixpoint reg_run (t: table) (ops: list rop) : table * list rout :=
  match ops with [] => (t, []) | o :: r => let '(t', x) := reg_step t o in let '(t'', xs) := reg_run t' r in (t'', x :: xs) end.

(* one step against the abstract registry (a finite set of live ids with their handlers) *)
Theorem reg_step_spec t o : sorted (keys t) ->
  sorted (keys (fst (reg_step t o))) /\
  match o with
  | OAdd h => exists id, snd (reg_step t o) = RId id /\ ~ In id (keys t) /\ (forall x, x < id -> In x (keys t)) /\
                (forall x, In x (keys (fst (reg_step t o))) <-> x = id \/ In x (keys t)) /\
                lookup id (fst (reg_step t o)) = Some h /\ (forall x, x <> id -> lookup x (fst (reg_step t o)) = lookup x t)
  | ORemove id =>
      (In id (keys t) -> snd (reg_step t o) = ROk /\ (forall x, In x (keys (fst (reg_step t o))) <-> In x (keys t) /\ x <> id) /\
                         (forall x, x <> id -> lookup x (fst (reg_step t o)) = lookup x t)) /\
      (~ In id (keys t) -> snd (reg_step t o) = RNoSuch /\ fst (reg_step t o) = t)
  end.
Proof.
  intros Hs. destruct o as [h|id]; cbn [reg_step].
  - unfold add_handler. cbn [fst snd]. destruct (next_id_fresh t Hs) as [Hf Hm].
    destruct (insert_keys_fresh (next_id t) h t Hs Hf) as [I1 [I2 [I3 I4]]]. split; [exact I1|].
    exists (next_id t). repeat split; try assumption; apply I2.
  - unfold remove_handler. destruct (remove id t) as [t'|] eqn:Er.
    + destruct (remove_keys id t t' Hs Er) as [R1 [R2 [R3 R4]]]. cbn [fst snd]. split; [exact R2|]. split.
      * intros _. split; [reflexivity|]. split; assumption.
      * intros Hn. contradiction.
    + cbn [fst snd]. split; [exact Hs|]. split.
      * intros Hin. apply remove_none in Er. contradiction.
      * intros _. split; reflexivity.
Qed.

Theorem reg_run_sorted ops : forall t, sorted (keys t) -> sorted (keys (fst (reg_run t ops))).
Proof.
  induction ops as [|o r IH]; intros t Hs; [exact Hs|]. cbn [reg_run].
  destruct (reg_step_spec t o Hs) as [H1 _]. destruct (reg_step t o) as [t' x]. cbn [fst] in *.
  specialize (IH t' H1). destruct (reg_run t' r) as [t'' xs]. exact IH.
Qed.
