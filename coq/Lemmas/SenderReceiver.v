(* sender and receiver composed inside the model *)
Require Import RP.Model.Base RP.Model.Packet RP.Model.Cobs RP.Model.Frame RP.Model.Links RP.Spec.Frag
  RP.Lemmas.PacketLemmas RP.Lemmas.FragWf RP.Lemmas.OnFrame RP.Lemmas.LinkGeneric RP.Lemmas.LinkUsart RP.Lemmas.LinkSerialCan RP.Lemmas.LinkTheorems RP.Lemmas.Senders.

(* what the senders put on the link for a packet (C14 proves the emission loops write exactly this):
   the link frames of the fragmentation, encoded by the frame codecs *)
Theorem sender_wire : forall p, wf_packet p = true -> small p ->
  to_frames p = Val (frag_spec p) /\
  mapM to_usart (frag_spec p) = Val (map enc_of (frag_spec p)) /\
  mapM to_bxcan (frag_spec p) = Val (map can_of (frag_spec p)) /\
  concat (map link_bytes (map enc_of (frag_spec p))) = wire_frames (frag_spec p).
Proof.
  intros p Hw Hs. pose proof (frag_spec_good p Hw Hs) as Hg. rewrite Forall_forall in Hg.
  split; [apply to_frames_spec; exact Hs|]. split; [|split].
  - apply mapM_ext_val. intros f Hf. destruct (Hg f Hf) as [H1 [_ H3]]. apply (enc_of_spec f H1 H3).
  - apply mapM_ext_val. intros f Hf. destruct (Hg f Hf) as [H1 [H2 _]]. apply (can_of_spec f H1 H2).
  - unfold wire_frames. rewrite map_map. f_equal. apply map_ext_in. intros f Hf. destruct (Hg f Hf) as [H1 [_ H3]].
    destruct (enc_of_spec f H1 H3) as [_ [_ Hl]]. unfold link_bytes, link_frame, nlen. rewrite N.mod_small by lia. reflexivity.
Qed.


Lemma wire_concat ps : Forall wfp ps -> Forall small ps ->
  concat (map link_bytes (concat (map (fun p => map enc_of (frag_spec p)) ps))) = wire_packets ps.
Proof.
  unfold wire_packets. induction ps as [|p t IH]; intros Hw Hs; [reflexivity|]. cbn [map concat]. rewrite map_app, concat_app.
  apply Forall_cons_iff in Hw. apply Forall_cons_iff in Hs. destruct Hw as [Hw1 Hw2]. destruct Hs as [Hs1 Hs2].
  destruct (sender_wire p Hw1 Hs1) as [_ [_ [_ H4]]]. rewrite H4.
  unfold wire_frames at 2. rewrite map_app, concat_app. fold (wire_frames (frag_spec p)). f_equal.
  apply IH; assumption.
Qed.

(* sender and receiver together, in the model *)
Theorem sender_usart : forall ps ans, Forall wfp ps -> Forall small ps -> no_wfail ans ->
  (length (wire_packets ps) <= accepts_in ans)%nat ->
  exists rest, usart_send_packets ps ans = Val (wire_packets ps, rest).
Proof.
  intros ps ans Hw Hs Hn Hl. unfold usart_send_packets.
  assert (Hm: mapM (fun p => match to_frames p with
                       | Val fs => (match mapM to_usart fs with Val es => Val es | Fail _ => Panic | Panic => Panic | Hang => Hang end : out (list (list N)) lerr)
                       | Fail _ => Panic | Panic => Panic | Hang => Hang end) ps = Val (map (fun p => map enc_of (frag_spec p)) ps)).
  { apply mapM_ext_val. intros p Hp. rewrite Forall_forall in Hw, Hs.
    destruct (sender_wire p (Hw p Hp) (Hs p Hp)) as [H1 [H2 _]]. rewrite H1, H2. reflexivity. }
  rewrite Hm. pose proof (wire_concat ps Hw Hs) as Hwire.
  destruct (usart_send_exact (concat (map (fun p => map enc_of (frag_spec p)) ps)) ans Hn) as [rest Hr]; [rewrite Hwire; exact Hl|].
  exists rest. rewrite Hr, Hwire. reflexivity.
Qed.

(* ---- serial port and CAN ---- *)
Definition enc_packets (ps: list packet) : out (list (list N)) lerr :=
  match mapM (fun p => match to_frames p with
                       | Val fs => (match mapM to_usart fs with Val es => Val es | Fail _ => Panic | Panic => Panic | Hang => Hang end : out (list (list N)) lerr)
                       | Fail _ => Panic | Panic => Panic | Hang => Hang end) ps with
  | Val encss => Val (concat encss) | Fail e => Fail e | Panic => Panic | Hang => Hang
  end.
Lemma enc_packets_spec ps : Forall wfp ps -> Forall small ps -> enc_packets ps = Val (concat (map (fun p => map enc_of (frag_spec p)) ps)).
Proof.
  intros Hw Hs. unfold enc_packets.
  rewrite (mapM_ext_val _ (fun p => map enc_of (frag_spec p))); [reflexivity|].
  intros p Hp. rewrite Forall_forall in Hw, Hs. destruct (sender_wire p (Hw p Hp) (Hs p Hp)) as [H1 [H2 _]]. rewrite H1, H2. reflexivity.
Qed.

(* the serial-port sender over a device that accepts writes in any positive chunk sizes and whose flush succeeds *)
Theorem sender_serial ps ans : Forall wfp ps -> Forall small ps -> no_pbad ans ->
  exists encs, enc_packets ps = Val encs /\ serial_send encs ans true = (wire_packets ps, Val tt).
Proof.
  intros Hw Hs Hn. eexists. split; [apply enc_packets_spec; assumption|].
  pose proof (serial_send_spec (concat (map (fun p => map enc_of (frag_spec p)) ps)) ans true) as H.
  destruct (serial_send _ ans true) as [w r]. destruct H as [_ [_ H3]]. destruct (H3 Hn) as [-> ->].
  unfold wire. rewrite wire_concat by assumption. reflexivity.
Qed.

(* the CAN sender when no transmit reports a displaced frame and every frame is eventually accepted *)
Lemma can_expect_all cfs : forall outs, (length cfs <= length outs)%nat -> Forall (fun t => t = TSent) (firstn (length cfs) outs) ->
  can_expect cfs outs = (cfs, Val tt).
Proof.
  induction cfs as [|c t IH]; intros outs Hl Ha; [reflexivity|]. destruct outs as [|o os]; [cbn in Hl; lia|].
  cbn [length firstn] in *. apply Forall_cons_iff in Ha. destruct Ha as [-> Ha]. cbn [can_expect]. rewrite IH by (try assumption; lia). reflexivity.
Qed.
Theorem sender_can ps ans : Forall wfp ps -> Forall small ps ->
  let cfs := concat (map (fun p => map can_of (frag_spec p)) ps) in
  (length cfs <= length (outcomes ans))%nat -> Forall (fun t => t = TSent) (firstn (length cfs) (outcomes ans)) ->
  mapM (fun p => match to_frames p with Val fs => (match mapM to_bxcan fs with Val cs => Val cs | Fail _ => Panic | Panic => Panic | Hang => Hang end : out (list canframe) lerr) | Fail _ => Panic | Panic => Panic | Hang => Hang end) ps
    = Val (map (fun p => map can_of (frag_spec p)) ps) /\
  can_send cfs ans = (cfs, Val tt).
Proof.
  intros Hw Hs cfs Hl Ha. split.
  - apply mapM_ext_val. intros p Hp. rewrite Forall_forall in Hw, Hs. destruct (sender_wire p (Hw p Hp) (Hs p Hp)) as [H1 [_ [H3 _]]]. rewrite H1, H3. reflexivity.
  - rewrite can_send_spec. apply can_expect_all; assumption.
Qed.
