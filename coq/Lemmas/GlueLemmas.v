(* The printers and parsers of the line grammar invert each other, and the checkers accept the model's own
   observations: on an implementation that behaves like the model the checks cannot raise an alarm. *)
Require Import RP.Model.Base RP.Model.Packet RP.Model.Events RP.Spec.Frag RP.Spec.EventLayout
  RP.Lemmas.EventsRT RP.Lemmas.EventsLayout RP.Lemmas.PacketLemmas RP.Glue.Wire RP.Glue.StreamEV RP.Glue.StreamDEC RP.Glue.StreamFrame RP.Glue.StreamPacket.

Lemma take_app (a b: list N) : take (nlen a) (a ++ b) = Some (a, b).
Proof.
  unfold take, nlen. rewrite Nnat.Nat2N.id. rewrite app_length.
  assert (E: (length a <=? length a + length b)%nat = true) by (apply Nat.leb_le; lia). rewrite E.
  rewrite firstn_app, Nat.sub_diag, firstn_all. cbn [firstn]. rewrite app_nil_r.
  rewrite skipn_app, skipn_all, Nat.sub_diag. reflexivity.
Qed.

Lemma list_eqb_refl l : list_eqb l l = true.
Proof. apply list_eqb_eq. reflexivity. Qed.

Lemma parse_show_packet p r : parse_packet (show_packet p ++ r) = Some (p, r).
Proof.
  destruct p as [e a d]. unfold show_packet, parse_packet. cbn [p_err p_addr p_data app]. rewrite take_app.
  destruct e; reflexivity.
Qed.

Lemma event_of_fields e : event_of (event_fields e) = Some e.
Proof.
  destruct e; cbn [event_fields event_of]; try reflexivity.
  - destruct value as [[|]| | | | |]; reflexivity.
  - destruct value as [x|x|x|[|]]; reflexivity.
  - destruct target as [[|]| | | | |]; reflexivity.
  - destruct value as [[|]| | |]; reflexivity.
Qed.

Lemma parse_show_dec_val e : parse_dobs (show_dec (Val e)) = Some (DVal (event_fields e), []).
Proof.
  unfold show_dec, show_out, parse_dobs. rewrite <- (app_nil_r (event_fields e)) at 2. rewrite take_app. reflexivity.
Qed.

(* C03: the checker accepts what the model does for every well-formed event *)
Theorem ok_C03_accepts_model e : wf_event e = true -> ok_C03 (event_fields e) (run_EV (event_fields e)) = [].
Proof.
  intros Hw. destruct (roundtrip e Hw) as [Hd [He Ha]].
  unfold run_EV, ok_C03. rewrite event_of_fields, Hd, parse_show_packet, parse_show_dec_val.
  rewrite list_eqb_refl, He, Ha, N.eqb_refl. reflexivity.
Qed.

(* C11, encode side *)
Theorem ok_C11_EV_accepts_model e : wf_event e = true -> ok_C11_EV (event_fields e) (run_EV (event_fields e)) = [].
Proof.
  intros Hw. unfold run_EV, ok_C11_EV. rewrite event_of_fields, parse_show_packet, <- (encode_layout e Hw), list_eqb_refl. reflexivity.
Qed.

(* C10 *)
Theorem ok_C10_accepts_model p : small p -> ok_C10 (show_packet p) (run_FRG (show_packet p)) = [].
Proof.
  intros Hs. unfold run_FRG, ok_C10. rewrite <- (app_nil_r (show_packet p)), parse_show_packet.
  rewrite to_frames_spec by assumption. unfold show_out.
  destruct (wf_packet p && smallb p); [|reflexivity]. cbn [negb]. rewrite list_eqb_refl. reflexivity.
Qed.

(* ---------- C05 ---------- *)
Lemma kind_of_code_code k : kind_of_code (code k) = Some k.
Proof. destruct k; reflexivity. Qed.
Lemma cerr_of_code r : cerr_of (cerr_code r) = Some r.
Proof. destruct r; reflexivity. Qed.
Lemma kind_eqb_refl k : kind_eqb k k = true.
Proof. unfold kind_eqb. apply N.eqb_refl. Qed.

Require Import RP.Lemmas.EventsC05.
Theorem ok_C05_accepts_model k p : wf_packet p = true -> ok_C05 (code k :: show_packet p) (run_DEC (code k :: show_packet p)) = [].
Proof.
  intros Hw. destruct (decode_exact k p Hw) as [Hp [Hh [Hv Hf]]].
  unfold run_DEC, ok_C05. rewrite kind_of_code_code. rewrite <- (app_nil_r (show_packet p)), parse_show_packet.
  destruct (decode k p) as [e|r| |] eqn:Ed; try contradiction.
  - destruct (Hv e eq_refl) as [H1 [H2 [H3 [H4 [H5 [H6 H7]]]]]]. rewrite H7.
    unfold show_dec at 1. unfold show_out at 1. cbn [app]. unfold parse_dobs at 1.
    rewrite take_app. rewrite event_of_fields, H1. cbn [negb]. rewrite H2, kind_eqb_refl, H3. cbn [negb]. rewrite H4, N.eqb_refl. cbn [negb].
    rewrite H5, Nat.eqb_refl, H6. cbn [negb]. rewrite parse_show_dec_val, list_eqb_refl. reflexivity.
  - unfold show_dec, show_out. cbn [app parse_dobs]. rewrite cerr_of_code, (Hf r eq_refl). reflexivity.
Qed.

(* ---------- C04, USART side ---------- *)
Lemma parse_show_frame f r : length (f_data f) = 8%nat -> parse_frame (show_frame f ++ r) = Some (f, r).
Proof.
  intros Hl. destruct f as [ne st mf la id ad dl d]. unfold show_frame, parse_frame. cbn [f_ne f_st f_mf f_last f_id f_addr f_dlen f_data app] in *.
  assert (Ht: take 8 (d ++ r) = Some (d, r)) by (replace 8 with (nlen d) by (unfold nlen; rewrite Hl; reflexivity); apply take_app).
  rewrite Ht. destruct ne, st, mf, la; reflexivity.
Qed.

Require Import RP.Model.Cobs RP.Model.Frame RP.Lemmas.FrameUsart RP.Lemmas.FrameCan RP.Lemmas.Builder.
Lemma wf_frame_len f : wf_frame f = true -> length (f_data f) = 8%nat.
Proof. intros H. destruct (wf_frame_parts f H) as [_ [_ [_ [Hl _]]]]. exact Hl. Qed.

Lemma reencode_flags_zero f : wf_frame f = true -> reencode_flags f = [0; 0; 0; 0].
Proof.
  intros Hw. unfold reencode_flags.
  rewrite usart_layout by assumption. rewrite to_bxcan_layout by assumption.
  assert (Hn: pflag (builder_new f) = 0).
  { unfold builder_new. destruct (negb (f_st f)); [reflexivity|]. destruct (f_last f); [|reflexivity].
    destruct (wf_frame_parts f Hw) as [_ [Hi _]]. assert (E: (f_id f + 1 <? 65536) = true) by lia. rewrite E. reflexivity. }
  rewrite Hn. cbn [pflag].
  match goal with |- context [builder_new ?s] => assert (Hb: exists b, builder_new s = Val b) by (unfold builder_new; cbn [f_st f_last f_id negb]; eexists; reflexivity) end.
  destruct Hb as [b Hb]. rewrite Hb. destruct (add_frame_no_panic b f) as [H1 H2].
  destruct (add_frame b f); try contradiction; reflexivity.
Qed.

Theorem ok_C04_USD_accepts_model bs : bytes bs = true -> ok_C04_USD bs (run_USD bs) = [].
Proof.
  intros Hb. destruct (from_usart_total bs Hb) as [Hp [Hh Hv]]. unfold ok_C04_USD, run_USD, c04_ok.
  destruct (from_usart bs) as [f|e| |] eqn:Ef; try contradiction.
  - destruct (Hv f eq_refl) as [Hw _]. unfold show_out. cbn [app parse_fobs].
    rewrite take_app. rewrite <- (app_nil_r (show_frame f)), (parse_show_frame f [] (wf_frame_len f Hw)).
    rewrite Hw, (reencode_flags_zero f Hw). reflexivity.
  - reflexivity.
Qed.

(* ---------- C12, event cases: exactly the own kind accepts the encoding ---------- *)
Require Import RP.Lemmas.EventsExact.
Lemma kind_eqb_eq a b : kind_eqb a b = true <-> a = b.
Proof. unfold kind_eqb. split; [intros H; apply code_inj; lia|intros ->; apply N.eqb_refl]. Qed.

Lemma acc_flag_encode e k : wf_event e = true -> acc_flag (decode k (encode e)) = if kind_eqb k (kind_of e) then 1%N else 0%N.
Proof.
  intros Hw. destruct (kind_eqb k (kind_of e)) eqn:E.
  - apply kind_eqb_eq in E. subst k. destruct (roundtrip e Hw) as [-> _]. reflexivity.
  - assert (Hne: k <> kind_of e) by (intros ->; rewrite kind_eqb_refl in E; discriminate).
    destruct (cross_rejected e k Hw Hne) as [r ->]. reflexivity.
Qed.

Lemma no_other_accepts ke : forall l,
  existsb (fun kf => negb (kind_eqb (fst kf) ke) && (snd kf =? 1)) (combine l (map (fun k => if kind_eqb k ke then 1%N else 0%N) l)) = false.
Proof.
  induction l as [|k t IH]; [reflexivity|]. cbn [map combine existsb fst snd]. rewrite IH.
  destruct (kind_eqb k ke); reflexivity.
Qed.

Theorem ok_C12_accepts_model_events e : wf_event e = true -> ok_C12 (1 :: event_fields e) (run_AMB (1 :: event_fields e)) = [].
Proof.
  intros Hw. unfold run_AMB. rewrite event_of_fields.
  assert (Hobs: map (fun k => acc_flag (decode k (encode e))) all_kinds = map (fun k => if kind_eqb k (kind_of e) then 1%N else 0%N) all_kinds).
  { apply map_ext. intros k. apply acc_flag_encode. exact Hw. }
  rewrite Hobs. unfold ok_C12. rewrite map_length. cbn [all_kinds length Nat.eqb negb].
  assert (Hc: (1 <? count_ones (map (fun k => if kind_eqb k (kind_of e) then 1%N else 0%N) all_kinds))%nat = false) by (destruct (kind_of e); reflexivity).
  rewrite Hc. rewrite event_of_fields. fold all_kinds. rewrite no_other_accepts. reflexivity.
Qed.

(* ---------- C12, packet cases: for ANY packet the model's sixteen flags contain at most one acceptance ---------- *)
Lemma count_ones_zero {A} (f: A -> N) l : (forall x, In x l -> f x <> 1) -> count_ones (map f l) = 0%nat.
Proof.
  unfold count_ones. induction l as [|x t IH]; intros H; [reflexivity|]. cbn [map filter].
  destruct (f x =? 1) eqn:E; [apply N.eqb_eq in E; exfalso; apply (H x); [left; reflexivity|exact E]|].
  apply IH. intros y Hy. apply H. right. exact Hy.
Qed.
Lemma count_ones_unique {A} (f: A -> N) l : NoDup l -> (forall x y, f x = 1 -> f y = 1 -> x = y) -> (count_ones (map f l) <= 1)%nat.
Proof.
  intros Hnd Hu. induction Hnd as [|x t Hnin Hnd IH]; [unfold count_ones; cbn; lia|].
  unfold count_ones in *. cbn [map filter]. destruct (f x =? 1) eqn:E; [|exact IH].
  apply N.eqb_eq in E. cbn [length].
  assert (Hz: count_ones (map f t) = 0%nat).
  { apply count_ones_zero. intros y Hy Hfy. apply Hnin. rewrite (Hu x y E Hfy). exact Hy. }
  unfold count_ones in Hz. rewrite Hz. lia.
Qed.
Lemma all_kinds_nodup : NoDup all_kinds.
Proof.
  apply (NoDup_map_inv code). unfold all_kinds. cbn [map code].
  repeat (constructor; [cbn [In]; intros H; repeat (destruct H as [H|H]; [discriminate H|]); exact H|]). constructor.
Qed.
Theorem ok_C12_accepts_model_packets p : ok_C12 (0 :: show_packet p) (run_AMB (0 :: show_packet p)) = [].
Proof.
  unfold run_AMB. rewrite <- (app_nil_r (show_packet p)), parse_show_packet. unfold ok_C12. rewrite map_length.
  cbn [all_kinds length Nat.eqb negb]. fold all_kinds.
  assert (Hc: (count_ones (map (fun k => acc_flag (decode k p)) all_kinds) <= 1)%nat).
  { apply count_ones_unique; [exact all_kinds_nodup|]. intros x y Hx Hy.
    destruct (decode x p) as [ex| | |] eqn:Ex; try discriminate Hx.
    destruct (decode y p) as [ey| | |] eqn:Ey; try discriminate Hy.
    exact (unique_kind x y p ex ey Ex Ey). }
  destruct (Nat.ltb_spec 1 (count_ones (map (fun k => acc_flag (decode k p)) all_kinds))); [lia|reflexivity].
Qed.
