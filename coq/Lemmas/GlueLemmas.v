(* The printers and parsers of the line grammar invert each other, and the checkers accept the model's own
   observations: on an implementation that behaves like the model the checks cannot raise an alarm. *)
Require Import RP.Model.Base RP.Model.Packet RP.Model.Events RP.Spec.Frag RP.Spec.EventLayout
  RP.Lemmas.EventsRT RP.Lemmas.EventsLayout RP.Lemmas.PacketLemmas RP.Glue.Wire RP.Glue.StreamEV RP.Glue.StreamDEC RP.Glue.StreamFrame RP.Glue.StreamPacket.

Lemma take_app (a b: list N) : take (nlen a) (a ++ b) = Some (a, b).
Proof.
  unfold take, nlen. rewrite Nnat.Nat2N.id. rewrite app_length.
  assert (E: (length a <=? length a + length b)%nat = true) by (apply Nat.leb_le; lia). rewrite E.
  rewrite firstn_app, Nat.sub_diag, firstn_all. cbn [firstn]. rewrite app_nil_r.
  rewrite skipn_app, skipn_all, Nat.sub_diag. reflexivity.
Qed.

Lemma list_eqb_refl l : list_eqb l l = true.
Proof. apply list_eqb_eq. reflexivity. Qed.

Lemma parse_show_packet p r : parse_packet (show_packet p ++ r) = Some (p, r).
Proof.
  destruct p as [e a d]. unfold show_packet, parse_packet. cbn [p_err p_addr p_data app]. rewrite take_app.
  destruct e; reflexivity.
Qed.

Lemma event_of_fields e : event_of (event_fields e) = Some e.
Proof.
  destruct e; cbn [event_fields event_of]; try reflexivity.
  - destruct value as [[|]| | | | |]; reflexivity.
  - destruct value as [x|x|x|[|]]; reflexivity.
  - destruct target as [[|]| | | | |]; reflexivity.
  - destruct value as [[|]| | |]; reflexivity.
Qed.

Lemma parse_show_dec_val e : parse_dobs (show_dec (Val e)) = Some (DVal (event_fields e), []).
Proof.
  unfold show_dec, show_out, parse_dobs. rewrite <- (app_nil_r (event_fields e)) at 2. rewrite take_app. reflexivity.
Qed.

(* C03: the checker accepts what the model does for every well-formed event *)
Theorem ok_C03_accepts_model e : wf_event e = true -> ok_C03 (event_fields e) (run_EV (event_fields e)) = [].
Proof.
  intros Hw. destruct (roundtrip e Hw) as [Hd [He Ha]].
  unfold run_EV, ok_C03. rewrite event_of_fields, Hd, parse_show_packet, parse_show_dec_val.
  rewrite list_eqb_refl, He, Ha, N.eqb_refl. reflexivity.
Qed.

(* C11, encode side *)
Theorem ok_C11_EV_accepts_model e : wf_event e = true -> ok_C11_EV (event_fields e) (run_EV (event_fields e)) = [].
Proof.
  intros Hw. unfold run_EV, ok_C11_EV. rewrite event_of_fields, parse_show_packet, <- (encode_layout e Hw), list_eqb_refl. reflexivity.
Qed.

(* C10 *)
Theorem ok_C10_accepts_model p : small p -> ok_C10 (show_packet p) (run_FRG (show_packet p)) = [].
Proof.
  intros Hs. unfold run_FRG, ok_C10. rewrite <- (app_nil_r (show_packet p)), parse_show_packet.
  rewrite to_frames_spec by assumption. unfold show_out.
  destruct (wf_packet p && smallb p); [|reflexivity]. cbn [negb]. rewrite list_eqb_refl. reflexivity.
Qed.
