(* The printers and parsers of the line grammar invert each other, and the checkers accept the model's own
   observations: on an implementation that behaves like the model the checks cannot raise an alarm. *)
Require Import RP.Model.Base RP.Model.Packet RP.Model.Events RP.Spec.Frag RP.Spec.EventLayout
  RP.Lemmas.EventsRT RP.Lemmas.EventsLayout RP.Lemmas.PacketLemmas RP.Glue.Wire RP.Glue.StreamEV RP.Glue.StreamDEC RP.Glue.StreamFrame RP.Glue.StreamPacket.

Lemma take_app (a b: list N) : take (nlen a) (a ++ b) = Some (a, b).
Proof.
  unfold take, nlen. rewrite Nnat.Nat2N.id. rewrite app_length.
  assert (E: (length a <=? length a + length b)%nat = true) by (apply Nat.leb_le; lia). rewrite E.
  rewrite firstn_app, Nat.sub_diag, firstn_all. cbn [firstn]. rewrite app_nil_r.
  rewrite skipn_app, skipn_all, Nat.sub_diag. reflexivity.
Qed.

Lemma list_eqb_refl l : list_eqb l l = true.
Proof. apply list_eqb_eq. reflexivity. Qed.

Lemma parse_show_packet p r : parse_packet (show_packet p ++ r) = Some (p, r).
Proof.
  destruct p as [e a d]. unfold show_packet, parse_packet. cbn [p_err p_addr p_data app]. rewrite take_app.
  destruct e; reflexivity.
Qed.

Lemma event_of_fields e : event_of (event_fields e) = Some e.
Proof.
  destruct e; cbn [event_fields event_of]; try reflexivity.
  - destruct value as [[|]| | | | |]; reflexivity.
  - destruct value as [x|x|x|[|]]; reflexivity.
  - destruct target as [[|]| | | | |]; reflexivity.
  - destruct value as [[|]| | |]; reflexivity.
Qed.

Lemma parse_show_dec_val e : parse_dobs (show_dec (Val e)) = Some (DVal (event_fields e), []).
Proof.
  unfold show_dec, show_out, parse_dobs. rewrite <- (app_nil_r (event_fields e)) at 2. rewrite take_app. reflexivity.
Qed.

(* C03: the checker accepts what the model does for every well-formed event *)
Theorem ok_C03_accepts_model e : wf_event e = true -> ok_C03 (event_fields e) (run_EV (event_fields e)) = [].
Proof.
  intros Hw. destruct (roundtrip e Hw) as [Hd [He Ha]].
  unfold run_EV, ok_C03. rewrite event_of_fields, Hd, parse_show_packet, Hw, parse_show_dec_val. cbn [negb].
  rewrite list_eqb_refl, He, Ha, N.eqb_refl. reflexivity.
Qed.

(* C11, encode side *)
Theorem ok_C11_EV_accepts_model e : wf_event e = true -> ok_C11_EV (event_fields e) (run_EV (event_fields e)) = [].
Proof.
  intros Hw. unfold run_EV, ok_C11_EV. rewrite event_of_fields, parse_show_packet, <- (encode_layout e Hw), list_eqb_refl. reflexivity.
Qed.

(* C10 *)
Theorem ok_C10_accepts_model p : small p -> ok_C10 (show_packet p) (run_FRG (show_packet p)) = [].
Proof.
  intros Hs. unfold run_FRG, ok_C10. rewrite <- (app_nil_r (show_packet p)), parse_show_packet.
  rewrite to_frames_spec by assumption. unfold show_out.
  destruct (wf_packet p && smallb p); [|reflexivity]. cbn [negb]. rewrite list_eqb_refl. reflexivity.
Qed.

(* ---------- C05 ---------- *)
Lemma kind_of_code_code k : kind_of_code (code k) = Some k.
Proof. destruct k; reflexivity. Qed.
Lemma cerr_of_code r : cerr_of (cerr_code r) = Some r.
Proof. destruct r; reflexivity. Qed.
Lemma kind_eqb_refl k : kind_eqb k k = true.
Proof. unfold kind_eqb. apply N.eqb_refl. Qed.

Require Import RP.Lemmas.EventsC05.
Theorem ok_C05_accepts_model k p : wf_packet p = true -> ok_C05 (code k :: show_packet p) (run_DEC (code k :: show_packet p)) = [].
Proof.
  intros Hw. destruct (decode_exact k p Hw) as [Hp [Hh [Hv Hf]]].
  unfold run_DEC, ok_C05. rewrite kind_of_code_code. rewrite <- (app_nil_r (show_packet p)), parse_show_packet.
  destruct (decode k p) as [e|r| |] eqn:Ed; try contradiction.
  - destruct (Hv e eq_refl) as [H1 [H2 [H3 [H4 [H5 [H6 H7]]]]]]. rewrite H7.
    unfold show_dec at 1. unfold show_out at 1. cbn [app]. unfold parse_dobs at 1.
    rewrite take_app. rewrite event_of_fields, H1. cbn [negb]. rewrite H2, kind_eqb_refl, H3. cbn [negb]. rewrite H4, N.eqb_refl. cbn [negb].
    rewrite H5, Nat.eqb_refl, H6. cbn [negb]. rewrite parse_show_dec_val, list_eqb_refl. reflexivity.
  - unfold show_dec, show_out. cbn [app parse_dobs]. rewrite cerr_of_code, (Hf r eq_refl). reflexivity.
Qed.

(* ---------- C04, USART side ---------- *)
Lemma parse_show_frame f r : length (f_data f) = 8%nat -> parse_frame (show_frame f ++ r) = Some (f, r).
Proof.
  intros Hl. destruct f as [ne st mf la id ad dl d]. unfold show_frame, parse_frame. cbn [f_ne f_st f_mf f_last f_id f_addr f_dlen f_data app] in *.
  assert (Ht: take 8 (d ++ r) = Some (d, r)) by (replace 8 with (nlen d) by (unfold nlen; rewrite Hl; reflexivity); apply take_app).
  rewrite Ht. destruct ne, st, mf, la; reflexivity.
Qed.

Require Import RP.Model.Cobs RP.Model.Frame RP.Lemmas.FrameUsart RP.Lemmas.FrameCan RP.Lemmas.Builder.
Lemma wf_frame_len f : wf_frame f = true -> length (f_data f) = 8%nat.
Proof. intros H. destruct (wf_frame_parts f H) as [_ [_ [_ [Hl _]]]]. exact Hl. Qed.

Require Import RP.Lemmas.CobsLemmas.
Lemma small_frame_wf ne st mf la i addr : i <= 2 -> addr < 65536 -> wf_frame (mkF ne st mf la i addr 1 [i mod 256; 0; 0; 0; 0; 0; 0; 0]) = true.
Proof.
  intros Hi Ha. unfold wf_frame, zeros_from, bytes, byte. cbn [f_dlen f_id f_addr f_data length N.to_nat Pos.to_nat Pos.iter_op skipn forallb Nat.eqb].
  assert (E1: (i <? 4096) = true) by lia. assert (E2: (addr <? 65536) = true) by lia. assert (E3: (i mod 256 <? 256) = true) by lia.
  rewrite E1, E2, E3. reflexivity.
Qed.
Lemma feed_wf : forall rest b0, (forall b, b0 = Val b -> wf_builder b) -> b0 <> Panic -> b0 <> Hang -> Forall (fun g => wf_frame g = true) rest ->
  (forall b, fold_left feed_frame rest b0 = Val b -> wf_builder b) /\ fold_left feed_frame rest b0 <> Panic /\ fold_left feed_frame rest b0 <> Hang.
Proof.
  induction rest as [|g rest IH]; intros b0 Hb Hp Hh Hf; [cbn; auto|].
  apply Forall_cons_iff in Hf. destruct Hf as [Hg Hrest]. cbn [fold_left]. apply IH; [| | |exact Hrest].
  - intros b E. destruct b0 as [b'|e| |]; cbn [feed_frame] in E; try discriminate; try contradiction.
    pose proof (offer_wf b' g (Hb b' eq_refl) Hg) as Hw. unfold offer in Hw. rewrite E in Hw. exact Hw.
  - destruct b0 as [b'|e| |]; cbn [feed_frame]; try discriminate; try contradiction. apply add_frame_no_panic.
  - destruct b0 as [b'|e| |]; cbn [feed_frame]; try discriminate; try contradiction. apply add_frame_no_panic.
Qed.
Lemma builder_new_no_panic s : wf_frame s = true -> builder_new s <> Panic /\ builder_new s <> Hang.
Proof.
  intros Hw. destruct (wf_frame_parts s Hw) as [_ [Hi _]]. unfold builder_new.
  destruct (negb (f_st s)); [split; discriminate|]. destruct (f_last s); [|split; discriminate].
  assert (E: (f_id s + 1 <? 65536) = true) by lia. rewrite E. split; discriminate.
Qed.
Lemma build_flag_zero f : wf_frame f = true -> build_flag f = 0.
Proof.
  intros Hw. destruct (wf_frame_parts f Hw) as [_ [Hi [Ha _]]]. unfold build_flag.
  destruct (around f) as [[s rest]|] eqn:Ear; [|reflexivity].
  assert (Hs: wf_frame s = true /\ Forall (fun g => wf_frame g = true) rest).
  { unfold around in Ear. destruct (f_st f).
    - destruct (f_last f && (f_id f <=? 2)) eqn:E; [|discriminate]. apply andb_prop in E. destruct E as [_ E]. inversion Ear; subst s rest. split; [exact Hw|].
      apply Forall_forall. intros g Hg. apply in_map_iff in Hg. destruct Hg as [i [<- Hin]]. apply In_firstn' in Hin.
      unfold cont_frame. apply small_frame_wf; [cbn in Hin; lia|exact Ha].
    - destruct ((1 <=? f_id f) && (f_id f <=? 2)) eqn:E; [|discriminate]. apply andb_prop in E. destruct E as [E1 E2]. inversion Ear; subst s rest. split.
      + unfold start_for. apply small_frame_wf; [lia|exact Ha].
      + apply Forall_app. split; [|constructor; [exact Hw|constructor]].
        apply Forall_forall. intros g Hg. apply in_map_iff in Hg. destruct Hg as [i [<- Hin]]. apply In_firstn' in Hin.
        unfold cont_frame. apply small_frame_wf; [cbn in Hin; lia|exact Ha]. }
  destruct Hs as [Hsw Hrw]. destruct (builder_new_no_panic s Hsw) as [Hnp Hnh].
  destruct (feed_wf rest (builder_new s) (fun b E => builder_new_wf s b Hsw E) Hnp Hnh Hrw) as [F1 [F2 F3]].
  destruct (fold_left feed_frame rest (builder_new s)) as [b|e| |]; try contradiction; [|reflexivity].
  destruct (build_spec b (F1 b eq_refl)) as [B1 B2].
  destruct (N.eq_dec (nlen (b_frames b)) (b_exp b)) as [E|E]; [rewrite (B1 E)|rewrite (B2 E)]; reflexivity.
Qed.
Lemma reencode_flags_zero f : wf_frame f = true -> reencode_flags f = [0; 0; 0; 0; 0].
Proof.
  intros Hw. unfold reencode_flags.
  rewrite usart_layout by assumption. rewrite to_bxcan_layout by assumption.
  assert (Hn: pflag (builder_new f) = 0).
  { unfold builder_new. destruct (negb (f_st f)); [reflexivity|]. destruct (f_last f); [|reflexivity].
    destruct (wf_frame_parts f Hw) as [_ [Hi _]]. assert (E: (f_id f + 1 <? 65536) = true) by lia. rewrite E. reflexivity. }
  rewrite Hn. cbn [pflag].
  match goal with |- context [builder_new ?s] => assert (Hb: exists b, builder_new s = Val b) by (unfold builder_new; cbn [f_st f_last f_id negb]; eexists; reflexivity) end.
  destruct Hb as [b Hb]. rewrite Hb. destruct (add_frame_no_panic b f) as [H1 H2]. rewrite (build_flag_zero f Hw).
  destruct (add_frame b f); try contradiction; reflexivity.
Qed.

Theorem ok_C04_USD_accepts_model bs : bytes bs = true -> ok_C04_USD bs (run_USD bs) = [].
Proof.
  intros Hb. destruct (from_usart_total bs Hb) as [Hp [Hh Hv]]. unfold ok_C04_USD, run_USD, c04_ok.
  destruct (from_usart bs) as [f|e| |] eqn:Ef; try contradiction.
  - destruct (Hv f eq_refl) as [Hw _]. unfold show_out. cbn [app parse_fobs].
    rewrite take_app. rewrite <- (app_nil_r (show_frame f)), (parse_show_frame f [] (wf_frame_len f Hw)).
    rewrite Hw, (reencode_flags_zero f Hw). reflexivity.
  - reflexivity.
Qed.

(* ---------- C12, event cases: exactly the own kind accepts the encoding ---------- *)
Require Import RP.Lemmas.EventsExact.
Lemma kind_eqb_eq a b : kind_eqb a b = true <-> a = b.
Proof. unfold kind_eqb. split; [intros H; apply code_inj; lia|intros ->; apply N.eqb_refl]. Qed.

Lemma acc_flag_encode e k : wf_event e = true -> acc_flag (decode k (encode e)) = if kind_eqb k (kind_of e) then 1%N else 0%N.
Proof.
  intros Hw. destruct (kind_eqb k (kind_of e)) eqn:E.
  - apply kind_eqb_eq in E. subst k. destruct (roundtrip e Hw) as [-> _]. reflexivity.
  - assert (Hne: k <> kind_of e) by (intros ->; rewrite kind_eqb_refl in E; discriminate).
    destruct (cross_rejected e k Hw Hne) as [r ->]. reflexivity.
Qed.

Lemma no_other_accepts ke : forall l,
  existsb (fun kf => negb (kind_eqb (fst kf) ke) && (snd kf =? 1)) (combine l (map (fun k => if kind_eqb k ke then 1%N else 0%N) l)) = false.
Proof.
  induction l as [|k t IH]; [reflexivity|]. cbn [map combine existsb fst snd]. rewrite IH.
  destruct (kind_eqb k ke); reflexivity.
Qed.

Theorem ok_C12_accepts_model_events e : wf_event e = true -> ok_C12 (1 :: event_fields e) (run_AMB (1 :: event_fields e)) = [].
Proof.
  intros Hw. unfold run_AMB. rewrite event_of_fields.
  assert (Hobs: map (fun k => acc_flag (decode k (encode e))) all_kinds = map (fun k => if kind_eqb k (kind_of e) then 1%N else 0%N) all_kinds).
  { apply map_ext. intros k. apply acc_flag_encode. exact Hw. }
  rewrite Hobs. unfold ok_C12. rewrite map_length. cbn [all_kinds length Nat.eqb negb].
  assert (Hc: (1 <? count_ones (map (fun k => if kind_eqb k (kind_of e) then 1%N else 0%N) all_kinds))%nat = false) by (destruct (kind_of e); reflexivity).
  rewrite Hc. rewrite event_of_fields. fold all_kinds. rewrite no_other_accepts. reflexivity.
Qed.

(* ---------- C12, packet cases: for ANY packet the model's sixteen flags contain at most one acceptance ---------- *)
Lemma count_ones_zero {A} (f: A -> N) l : (forall x, In x l -> f x <> 1) -> count_ones (map f l) = 0%nat.
Proof.
  unfold count_ones. induction l as [|x t IH]; intros H; [reflexivity|]. cbn [map filter].
  destruct (f x =? 1) eqn:E; [apply N.eqb_eq in E; exfalso; apply (H x); [left; reflexivity|exact E]|].
  apply IH. intros y Hy. apply H. right. exact Hy.
Qed.
Lemma count_ones_unique {A} (f: A -> N) l : NoDup l -> (forall x y, f x = 1 -> f y = 1 -> x = y) -> (count_ones (map f l) <= 1)%nat.
Proof.
  intros Hnd Hu. induction Hnd as [|x t Hnin Hnd IH]; [unfold count_ones; cbn; lia|].
  unfold count_ones in *. cbn [map filter]. destruct (f x =? 1) eqn:E; [|exact IH].
  apply N.eqb_eq in E. cbn [length].
  assert (Hz: count_ones (map f t) = 0%nat).
  { apply count_ones_zero. intros y Hy Hfy. apply Hnin. rewrite (Hu x y E Hfy). exact Hy. }
  unfold count_ones in Hz. rewrite Hz. lia.
Qed.
Lemma all_kinds_nodup : NoDup all_kinds.
Proof.
  apply (NoDup_map_inv code). unfold all_kinds. cbn [map code].
  repeat (constructor; [cbn [In]; intros H; repeat (destruct H as [H|H]; [discriminate H|]); exact H|]). constructor.
Qed.
Theorem ok_C12_accepts_model_packets p : ok_C12 (0 :: show_packet p) (run_AMB (0 :: show_packet p)) = [].
Proof.
  unfold run_AMB. rewrite <- (app_nil_r (show_packet p)), parse_show_packet. unfold ok_C12. rewrite map_length.
  cbn [all_kinds length Nat.eqb negb]. fold all_kinds.
  assert (Hc: (count_ones (map (fun k => acc_flag (decode k p)) all_kinds) <= 1)%nat).
  { apply count_ones_unique; [exact all_kinds_nodup|]. intros x y Hx Hy.
    destruct (decode x p) as [ex| | |] eqn:Ex; try discriminate Hx.
    destruct (decode y p) as [ey| | |] eqn:Ey; try discriminate Hy.
    exact (unique_kind x y p ex ey Ex Ey). }
  destruct (Nat.ltb_spec 1 (count_ones (map (fun k => acc_flag (decode k p)) all_kinds))); [lia|reflexivity].
Qed.

(* ---------- C09, encode side: the checker accepts the model's observation for every well-formed frame ---------- *)
Require Import RP.Lemmas.CobsLemmas.
Lemma existsb_zero_false l : ~ In 0 l -> existsb (fun x => x =? 0) l = false.
Proof.
  intros H. destruct (existsb (fun x => x =? 0) l) eqn:E; [|reflexivity].
  apply existsb_exists in E. destruct E as [x [Hx Hz]]. apply N.eqb_eq in Hz. subst x. contradiction.
Qed.
Lemma parse_fobs_val f : length (f_data f) = 8%nat -> parse_fobs (show_out show_frame ferr_code (Val f)) = Some (inl f, []).
Proof.
  intros Hl. unfold show_out. cbn [parse_fobs]. rewrite <- (app_nil_r (show_frame f)) at 2. rewrite take_app.
  rewrite <- (app_nil_r (show_frame f)), (parse_show_frame f [] Hl). reflexivity.
Qed.
Theorem ok_C09_USE_accepts_model f : wf_frame f = true -> ok_C09_USE (show_frame f) (run_USE (show_frame f)) = [].
Proof.
  intros Hw. pose proof (wf_frame_len f Hw) as Hl. destruct (wf_frame_parts f Hw) as [Hd _].
  unfold ok_C09_USE, run_USE. rewrite <- (app_nil_r (show_frame f)), (parse_show_frame f [] Hl). rewrite Hw. cbn [negb].
  rewrite (usart_layout f Hw). remember (header_spec f ++ firstn (N.to_nat (f_dlen f)) (f_data f)) as body eqn:Hb.
  assert (Hbl: length body = (5 + N.to_nat (f_dlen f))%nat) by (subst body; unfold header_spec; rewrite app_length, firstn_length; cbn [length]; lia).
  unfold show_out at 1. cbn [app]. rewrite take_app. rewrite list_eqb_refl. cbn [negb].
  rewrite (existsb_zero_false _ (cobs_encode_nozero body)).
  rewrite cobs_encode_length by lia.
  assert (E14: (14 <? S (length body))%nat = false) by (apply Nat.ltb_ge; lia). rewrite E14.
  destruct (Bool.eqb (f_last f) (f_st f)) eqn:El; [|reflexivity].
  apply Bool.eqb_prop in El. destruct (usart_roundtrip f Hw El) as [enc [He [Hd' _]]].
  rewrite (usart_layout f Hw), <- Hb in He. inversion He as [He']. rewrite He', Hd'.
  rewrite (parse_fobs_val f Hl). unfold frame_eqb. rewrite list_eqb_refl. reflexivity.
Qed.

(* ---------- C08 and C04 (CAN side): the checkers accept the model's observations ---------- *)
Require Import RP.Spec.CanLayout.
Lemma b2N_flag b : negb (b2N b =? 0) = b.
Proof. destruct b; reflexivity. Qed.
Lemma parse_show_can c r : parse_can (show_can c ++ r) = Some (c, r).
Proof.
  destruct c as [e rm id dlc d]. unfold show_can, parse_can. cbn [cf_ext cf_remote cf_id cf_dlc cf_data app].
  rewrite take_app, !b2N_flag. reflexivity.
Qed.
Theorem ok_C08_CAE_accepts_model f : wf_frame f = true -> ok_C08_CAE (show_frame f) (run_CAE (show_frame f)) = [].
Proof.
  intros Hw. pose proof (wf_frame_len f Hw) as Hl.
  unfold ok_C08_CAE, run_CAE. rewrite <- (app_nil_r (show_frame f)), (parse_show_frame f [] Hl). rewrite Hw. cbn [negb].
  rewrite (to_bxcan_layout f Hw). remember (mkCF true false (can_id_spec f) (f_dlen f) (firstn (N.to_nat (f_dlen f)) (f_data f))) as c eqn:Hc.
  unfold show_out at 1. cbn [app]. rewrite take_app.
  rewrite <- (app_nil_r (show_can c)), parse_show_can.
  assert (Hx: cf_ext c = true) by (subst c; reflexivity). assert (Hr: cf_remote c = false) by (subst c; reflexivity).
  assert (Hi: cf_id c = can_id_spec f) by (subst c; reflexivity).
  assert (Hd: cf_data c = firstn (N.to_nat (f_dlen f)) (f_data f)) by (subst c; reflexivity).
  rewrite Hx, Hr, Hi, Hd, N.eqb_refl, list_eqb_refl. cbn [negb orb].
  destruct (fragment_shaped f) eqn:Hs; [|reflexivity].
  destruct (bxcan_roundtrip f Hw Hs) as [c' [Hc' [_ Hd']]].
  rewrite (to_bxcan_layout f Hw), <- Hc in Hc'. injection Hc' as Hcc. rewrite Hcc, Hd'.
  rewrite (parse_fobs_val f Hl). unfold frame_eqb. rewrite list_eqb_refl. reflexivity.
Qed.

Theorem ok_C08_CAD_accepts_model c : wf_canframe c = true -> ok_C08_CAD (show_can c) (run_CAD (show_can c)) = [].
Proof.
  intros Hw. unfold ok_C08_CAD, run_CAD. rewrite <- (app_nil_r (show_can c)), parse_show_can. rewrite Hw. cbn [negb].
  destruct (from_bxcan_total c Hw) as [Hp [Hh Hv]]. rewrite <- (from_bxcan_layout c Hw).
  destruct (from_bxcan c) as [f|e| |] eqn:Ef; try contradiction.
  - destruct (Hv f eq_refl) as [Hwf _]. pose proof (wf_frame_len f Hwf) as Hl.
    unfold show_out. cbn [app parse_fobs]. rewrite take_app.
    rewrite <- (app_nil_r (show_frame f)), (parse_show_frame f [] Hl). unfold frame_eqb. rewrite list_eqb_refl. reflexivity.
  - reflexivity.
Qed.

Theorem ok_C04_CAD_accepts_model c : wf_canframe c = true -> ok_C04_CAD (show_can c) (run_CAD (show_can c)) = [].
Proof.
  intros Hw. unfold ok_C04_CAD, run_CAD, c04_ok. rewrite <- (app_nil_r (show_can c)), parse_show_can.
  destruct (from_bxcan_total c Hw) as [Hp [Hh Hv]].
  destruct (from_bxcan c) as [f|e| |] eqn:Ef; try contradiction.
  - destruct (Hv f eq_refl) as [Hwf _]. unfold show_out. cbn [app parse_fobs].
    rewrite take_app. rewrite <- (app_nil_r (show_frame f)), (parse_show_frame f [] (wf_frame_len f Hwf)).
    rewrite Hwf, (reencode_flags_zero f Hwf). reflexivity.
  - reflexivity.
Qed.

(* ---------- C09, decode side ---------- *)
Require Import RP.Lemmas.Bits.
Lemma from_usart_decoded enc body : bytes body = true -> cobs_decode enc = Some body -> (5 <= length body)%nat ->
  nth 4 body 0 = N.of_nat (length body - 5) -> (length body <= 13)%nat -> from_usart enc = Val (frame_of_body body).
Proof.
  intros Hb Hdec Hl H4 Hl2. unfold from_usart. rewrite Hdec.
  assert (E5: (length body <? 5)%nat = false) by (apply Nat.ltb_ge; lia). rewrite E5.
  rewrite (idx_nth body 4) by lia. cbn [bind]. rewrite H4.
  assert (Eg: (8 <? N.of_nat (length body - 5)) || negb (length body =? N.to_nat (N.of_nat (length body - 5)) + 5)%nat = false).
  { apply orb_false_intro; [lia|]. apply negb_false_iff, Nat.eqb_eq. lia. }
  rewrite Eg. rewrite (idx_nth body 0), (idx_nth body 1), (idx_nth body 2), (idx_nth body 3) by lia. cbn [bind].
  rewrite slice_val by lia. cbn [bind]. unfold frame_of_body.
  pose proof (bytes_nth body 1 Hb) as H1. pose proof (bytes_nth body 3 Hb) as H3.
  rewrite !join16 by assumption. rewrite land_f, !bit_arith, H4.
  change (2 ^ 7) with 128. change (2 ^ 6) with 64. change (2 ^ 5) with 32.
  replace (firstn (N.to_nat (N.of_nat (length body - 5))) (skipn 5 body)) with (skipn 5 body)
    by (symmetry; apply firstn_all2; rewrite skipn_length; lia).
  reflexivity.
Qed.

Theorem ok_C09_USD_accepts_model bs : bytes bs = true -> ok_C09_USD bs (run_USD bs) = [].
Proof.
  intros Hb. unfold ok_C09_USD, c09_dec_expect, run_USD. rewrite Hb. cbn [negb].
  destruct (cobs_decode bs) as [body|] eqn:Ed.
  - pose proof (cobs_decode_bytes _ _ Hb Ed) as Hbb.
    destruct (length body <? 5)%nat eqn:E5.
    + unfold from_usart. rewrite Ed, E5. reflexivity.
    + apply Nat.ltb_ge in E5.
      destruct ((8 <? nth 4 body 0) || negb (length body =? N.to_nat (nth 4 body 0%N) + 5)%nat) eqn:Eg.
      * unfold from_usart. rewrite Ed. assert (E5': (length body <? 5)%nat = false) by (apply Nat.ltb_ge; lia). rewrite E5'.
        rewrite (idx_nth body 4) by lia. cbn [bind]. rewrite Eg. reflexivity.
      * apply orb_false_elim in Eg. destruct Eg as [E8 El]. apply negb_false_iff, Nat.eqb_eq in El.
        assert (H4: nth 4 body 0 = N.of_nat (length body - 5)) by lia.
        rewrite (from_usart_decoded bs body Hbb Ed E5 H4) by lia.
        destruct (from_usart_total bs Hb) as [_ [_ Hv]].
        destruct (Hv _ (from_usart_decoded bs body Hbb Ed E5 H4 ltac:(lia))) as [Hwf _].
        pose proof (wf_frame_len _ Hwf) as Hlen.
        unfold show_out at 1. cbn [app parse_fobs]. rewrite take_app.
        rewrite <- (app_nil_r (show_frame (frame_of_body body))), (parse_show_frame _ [] Hlen).
        unfold frame_eqb. rewrite list_eqb_refl. reflexivity.
  - unfold from_usart. rewrite Ed. reflexivity.
Qed.

(* ---------- C15 / C16 / C17: the PRO checkers accept the model's observations of every history ---------- *)
Require Import RP.Model.Protocol RP.Lemmas.Registry RP.Glue.StreamLink RP.Glue.StreamProto.
Lemma existsb_eqb_In id ks : existsb (fun k => k =? id) ks = true <-> In id ks.
Proof.
  rewrite existsb_exists. split; [intros [x [Hx He]]; apply N.eqb_eq in He; subst x; exact Hx|intros H; exists id; split; [exact H|apply N.eqb_refl]].
Qed.
Lemma pro_walk_accepts_model own : forall ops t step, sorted (keys t) -> snd (pro_walk own t ops (pro_run own t ops) step) = [].
Proof.
  induction ops as [|o ops IH]; intros t step Hs; [reflexivity|].
  cbn [pro_run]. destruct o as [h|id|gs ans|p ans|cap k multi p gs ans]; cbn [op_obs].
  - unfold add_handler. cbn [pro_walk].
    destruct (next_id_fresh t Hs) as [Hfresh _].
    assert (Ef: existsb (fun k => k =? next_id t) (keys t) = false).
    { destruct (existsb (fun k => k =? next_id t) (keys t)) eqn:E; [|reflexivity]. apply existsb_eqb_In in E. contradiction. }
    rewrite Ef. cbn [negb]. destruct (insert_keys_fresh (next_id t) h t Hs Hfresh) as [Hs' _].
    specialize (IH (insert (next_id t) h t) (step + 1) Hs').
    destruct (pro_walk own (insert (next_id t) h t) ops (pro_run own (insert (next_id t) h t) ops) (step + 1)) as [vs fs]. cbn [snd] in *. exact IH.
  - unfold remove_handler. destruct (remove id t) as [t'|] eqn:Er.
    + destruct (remove_keys id t t' Hs Er) as [Hin [Hs' _]]. cbn [pro_walk show_pret]. rewrite Er.
      assert (El: existsb (fun k => k =? id) (keys t) = true) by (apply existsb_eqb_In; exact Hin). rewrite El.
      specialize (IH t' (step + 1) Hs'). destruct (pro_walk own t' ops (pro_run own t' ops) (step + 1)) as [vs fs]. cbn [snd] in *.
      rewrite list_eqb_refl. exact IH.
    + cbn [pro_walk show_pret perr_code]. rewrite Er.
      assert (El: existsb (fun k => k =? id) (keys t) = false).
      { destruct (existsb (fun k => k =? id) (keys t)) eqn:E; [|reflexivity]. apply existsb_eqb_In in E. apply remove_none in Er. contradiction. }
      rewrite El. specialize (IH t (step + 1) Hs). destruct (pro_walk own t ops (pro_run own t ops) (step + 1)) as [vs fs]. cbn [snd] in *.
      rewrite list_eqb_refl. exact IH.
  - cbn [pro_walk]. specialize (IH t (step + 1) Hs). destruct (pro_walk own t ops (pro_run own t ops) (step + 1)) as [vs fs]. cbn [snd] in *.
    rewrite list_eqb_refl. exact IH.
  - cbn [pro_walk]. specialize (IH t (step + 1) Hs). destruct (pro_walk own t ops (pro_run own t ops) (step + 1)) as [vs fs]. cbn [snd] in *.
    rewrite list_eqb_refl. exact IH.
  - cbn [pro_walk]. specialize (IH t (step + 1) Hs). destruct (pro_walk own t ops (pro_run own t ops) (step + 1)) as [vs fs]. cbn [snd] in *.
    rewrite list_eqb_refl. exact IH.
Qed.
Lemma parse_lists_show : forall ls r, parse_lists_n (length ls) (concat (map (fun l => nlen l :: l) ls) ++ r) = Some (ls, r).
Proof.
  induction ls as [|l ls IH]; intros r; [reflexivity|]. cbn [length map concat parse_lists_n app]. rewrite <- app_assoc, take_app, IH. reflexivity.
Qed.
Lemma parse_obs_show ls : parse_obs_lists (show_lists ls) = Some ls.
Proof.
  unfold parse_obs_lists, show_lists, nlen. rewrite Nat2N.id. rewrite <- (app_nil_r (concat _)), parse_lists_show. reflexivity.
Qed.
Theorem pro_checkers_accept_model case own ops : pro_split case = Some (own, ops) ->
  ok_C15 case (run_PRO case) = [] /\ ok_C16 case (run_PRO case) = [] /\ ok_C17 case (run_PRO case) = [] /\ ok_C18_PRO case (run_PRO case) = [].
Proof.
  intros Hc. unfold ok_C15, ok_C16, ok_C17, ok_C18_PRO, pro_eval, run_PRO. rewrite Hc, parse_obs_show.
  assert (Hs: sorted (keys [])) by constructor.
  pose proof (pro_walk_accepts_model own ops [] 0 Hs) as H.
  destruct (pro_walk own [] ops (pro_run own [] ops) 0) as [vs fs]. cbn [snd] in H. subst fs. repeat split; reflexivity.
Qed.
Lemma ok_C15_accepts_model case own ops : pro_split case = Some (own, ops) -> ok_C15 case (run_PRO case) = [].
Proof. intros H. apply (pro_checkers_accept_model case own ops H). Qed.
Lemma ok_C16_accepts_model case own ops : pro_split case = Some (own, ops) -> ok_C16 case (run_PRO case) = [].
Proof. intros H. apply (pro_checkers_accept_model case own ops H). Qed.
Lemma ok_C17_accepts_model case own ops : pro_split case = Some (own, ops) -> ok_C17 case (run_PRO case) = [].
Proof. intros H. apply (pro_checkers_accept_model case own ops H). Qed.
Lemma ok_C18_PRO_accepts_model case own ops : pro_split case = Some (own, ops) -> ok_C18_PRO case (run_PRO case) = [].
Proof. intros H. apply (pro_checkers_accept_model case own ops H). Qed.

(* ---------- C18: the EXC checker accepts the model's observation ---------- *)
Require Import RP.Lemmas.ProtocolLemmas.
Definition tev_tag (e: tev) : list N := match e with TWait => [2] | TGet _ => [3] end.
Definition show_r1 (r: out event perr) : list N :=
  match r with Val e => 0 :: show_lists [event_fields e] | Fail e => [1; perr_code e] | Panic => [2] | Hang => [3] end.
Lemma drain1_first_match own cap k : forall gs fuel ss st tr n, (length gs < fuel)%nat ->
  exists tr' gs', drain1 fuel own cap k (mkI gs ss st) tr = (fst (fst (drain1 fuel own cap k (mkI gs ss st) tr)), tr ++ tr', mkI gs' ss st) /\
    show_r1 (fst (fst (drain1 fuel own cap k (mkI gs ss st) tr))) = fst (first_match own cap k gs n) /\
    map tev_tag tr' = repeat [3] (snd (first_match own cap k gs n) - n) /\
    (n < snd (first_match own cap k gs n))%nat /\
    length gs' = (length gs - (snd (first_match own cap k gs n) - n))%nat.
Proof.
  induction gs as [|g gs IH]; intros fuel ss st tr n Hf.
  - destruct fuel as [|f]; [cbn in Hf; lia|]. cbn [drain1 first_match fst snd]. unfold iget. cbn [i_gets].
    exists [TGet GNone], []. cbn [fst snd show_r1 perr_code map tev_tag length]. replace (S n - n)%nat with 1%nat by lia. repeat split; try reflexivity; lia.
  - destruct fuel as [|f]; [cbn in Hf; lia|]. cbn [length] in Hf. cbn [drain1]. rewrite iget_cons.
    destruct g as [p| |c].
    + cbn [first_match]. destruct (matches own cap k p) as [e|] eqn:Em.
      * exists [TGet (GPacket p)], gs. cbn [fst snd show_r1 map tev_tag length]. replace (S n - n)%nat with 1%nat by lia. repeat split; try reflexivity; lia.
      * destruct (IH f ss st (tr ++ [TGet (GPacket p)]) (S n) ltac:(lia)) as [tr' [gs' [H1 [H2 [H3 [H4 H5]]]]]].
        exists (TGet (GPacket p) :: tr'), gs'. rewrite H1 at 1. cbn [fst snd]. rewrite <- app_assoc. cbn [app].
        split; [reflexivity|]. split; [exact H2|]. split.
        { cbn [map tev_tag]. rewrite H3. replace (snd (first_match own cap k gs (S n)) - n)%nat with (S (snd (first_match own cap k gs (S n)) - S n)) by lia. reflexivity. }
        split; [lia|]. cbn [length]. lia.
    + exists [TGet GNone], gs. cbn [first_match fst snd show_r1 perr_code map tev_tag length]. replace (S n - n)%nat with 1%nat by lia. repeat split; try reflexivity; lia.
    + exists [TGet (GErr c)], gs. cbn [first_match fst snd show_r1 perr_code map tev_tag length]. replace (S n - n)%nat with 1%nat by lia. repeat split; try reflexivity; lia.
Qed.
Definition show_rN (r: out (list event) perr) : list N :=
  match r with Val es => 0 :: show_lists (map event_fields es) | Fail e => [1; perr_code e] | Panic => [2] | Hang => [3] end.
Lemma drainN_all_matches own cap k : forall gs fuel ss st tr n acc, (length gs < fuel)%nat ->
  exists tr' gs', drainN fuel own cap k (mkI gs ss st) tr acc = (fst (fst (drainN fuel own cap k (mkI gs ss st) tr acc)), tr ++ tr', mkI gs' ss st) /\
    show_rN (fst (fst (drainN fuel own cap k (mkI gs ss st) tr acc))) = fst (all_matches own cap k gs n (map event_fields acc)) /\
    map tev_tag tr' = repeat [3] (snd (all_matches own cap k gs n (map event_fields acc)) - n) /\
    (n < snd (all_matches own cap k gs n (map event_fields acc)))%nat /\
    length gs' = (length gs - (snd (all_matches own cap k gs n (map event_fields acc)) - n))%nat.
Proof.
  induction gs as [|g gs IH]; intros fuel ss st tr n acc Hf.
  - destruct fuel as [|f]; [cbn in Hf; lia|]. cbn [drainN all_matches fst snd]. unfold iget. cbn [i_gets].
    exists [TGet GNone], []. cbn [fst snd show_rN map tev_tag length]. replace (S n - n)%nat with 1%nat by lia. repeat split; try reflexivity; lia.
  - destruct fuel as [|f]; [cbn in Hf; lia|]. cbn [length] in Hf. cbn [drainN]. rewrite iget_cons.
    destruct g as [p| |c].
    + cbn [all_matches].
      set (acc' := match matches own cap k p with Some e => acc ++ [e] | None => acc end).
      assert (Ha: match matches own cap k p with Some e => map event_fields acc ++ [event_fields e] | None => map event_fields acc end = map event_fields acc').
      { unfold acc'. destruct (matches own cap k p); [rewrite map_app; reflexivity|reflexivity]. }
      rewrite Ha.
      destruct (IH f ss st (tr ++ [TGet (GPacket p)]) (S n) acc' ltac:(lia)) as [tr' [gs' [H1 [H2 [H3 [H4 H5]]]]]].
      exists (TGet (GPacket p) :: tr'), gs'. rewrite H1 at 1. cbn [fst snd]. rewrite <- app_assoc. cbn [app].
      split; [reflexivity|]. split; [exact H2|]. split.
      { cbn [map tev_tag]. rewrite H3. replace (snd (all_matches own cap k gs (S n) (map event_fields acc')) - n)%nat with (S (snd (all_matches own cap k gs (S n) (map event_fields acc')) - S n)) by lia. reflexivity. }
      split; [lia|]. cbn [length]. lia.
    + exists [TGet GNone], gs. cbn [all_matches fst snd show_rN map tev_tag length]. replace (S n - n)%nat with 1%nat by lia. repeat split; try reflexivity; lia.
    + exists [TGet (GErr c)], gs. cbn [all_matches fst snd show_rN perr_code map tev_tag length]. replace (S n - n)%nat with 1%nat by lia. repeat split; try reflexivity; lia.
Qed.

Lemma isend_gets i p : i_gets (snd (isend i p)) = i_gets i.
Proof. unfold isend. destruct (i_sends i); reflexivity. Qed.
Lemma send_packet_shape own t p i :
  (fst (fst (send_packet own t p i)) = Val tt \/ exists e, fst (fst (send_packet own t p i)) = Fail e) /\
  i_gets (snd (send_packet own t p i)) = i_gets i.
Proof.
  unfold send_packet. destruct (p_addr p =? own) eqn:Ea.
  - rewrite handle_packet_spec. destruct (isend_all_spec (dispatch_sent own t true) i) as [_ [Hg _]].
    destruct (own =? BROADCAST); cbn [andb negb].
    + destruct (isend (isend_all i (dispatch_sent own t true)) p) as [a i2] eqn:Ei. cbn [fst snd].
      assert (Hg2: i_gets i2 = i_gets i) by (rewrite <- Hg; change i2 with (snd (a, i2)); rewrite <- Ei; apply isend_gets).
      split; [destruct (a =? 0); [left; reflexivity|right; eexists; reflexivity]|exact Hg2].
    + cbn [fst snd]. split; [left; reflexivity|exact Hg].
  - cbn [andb]. destruct (isend i p) as [a i2] eqn:Ei. cbn [fst snd].
    assert (Hg2: i_gets i2 = i_gets i) by (change i2 with (snd (a, i2)); rewrite <- Ei; apply isend_gets).
    split; [destruct (a =? 0); [left; reflexivity|right; eexists; reflexivity]|exact Hg2].
Qed.
Lemma map_tag_repeat n : map tev_tag (repeat (TGet GNone) n) = repeat [3] n.
Proof. induction n as [|n IH]; [reflexivity|]. cbn [repeat map tev_tag]. rewrite IH. reflexivity. Qed.
Lemma show_trace_tags sent tr1 tr2 : map tev_tag tr1 = map tev_tag tr2 -> show_trace sent tr1 = show_trace sent tr2.
Proof. intros H. unfold show_trace. change (fun e : tev => match e with TWait => [2] | TGet _ => [3] end) with tev_tag. rewrite H. reflexivity. Qed.

Theorem ok_C18_accepts_model case own cap k multi p t gs ans :
  exc_split case = Some (own, cap, k, multi, p, t, gs, ans) -> ok_C18 case (run_EXC case) = [].
Proof.
  intros Hc. unfold ok_C18, run_EXC. rewrite Hc. unfold exc_obs.
  destruct (send_packet_shape own t p (mkI gs ans [])) as [Hret Hgets]. cbn [i_gets] in Hgets.
  destruct multi.
  - unfold exchangeN. destruct (send_packet own t p (mkI gs ans [])) as [[sret slog] si] eqn:Es. cbn [fst snd] in Hret, Hgets.
    destruct si as [g2 s2 st2]. cbn [i_gets] in Hgets. subst g2.
    destruct Hret as [->|[er ->]].
    + cbn [i_gets i_sent].
      destruct (drainN_all_matches own cap k gs (S (length gs)) s2 st2 [TWait] 0%nat [] ltac:(lia)) as [tr' [gs' [H1 [H2 [H3 [H4 H5]]]]]].
      cbn [map] in H2, H3, H4, H5. destruct (all_matches own cap k gs 0 []) as [res used] eqn:Eam. cbn [fst snd] in H2, H3, H4, H5.
      rewrite H1. cbn [i_sent i_gets]. change (match fst (fst (drainN (S (length gs)) own cap k (mkI gs s2 st2) [TWait] [])) with
             | Val es => 0 :: show_lists (map event_fields es) | Fail e => [1; perr_code e] | Panic => [2] | Hang => [3] end)
        with (show_rN (fst (fst (drainN (S (length gs)) own cap k (mkI gs s2 st2) [TWait] [])))).
      rewrite H2. rewrite (show_trace_tags st2 ([TWait] ++ tr') (TWait :: repeat (TGet GNone) used))
        by (cbn [app map tev_tag]; rewrite H3, map_tag_repeat, Nat.sub_0_r; reflexivity).
      unfold nlen. rewrite H5, Nat.sub_0_r. rewrite list_eqb_refl. reflexivity.
    + cbn [i_sent i_gets perr_code]. rewrite list_eqb_refl. reflexivity.
  - unfold exchange1. destruct (send_packet own t p (mkI gs ans [])) as [[sret slog] si] eqn:Es. cbn [fst snd] in Hret, Hgets.
    destruct si as [g2 s2 st2]. cbn [i_gets] in Hgets. subst g2.
    destruct Hret as [->|[er ->]].
    + cbn [i_gets i_sent].
      destruct (drain1_first_match own cap k gs (S (length gs)) s2 st2 [TWait] 0%nat ltac:(lia)) as [tr' [gs' [H1 [H2 [H3 [H4 H5]]]]]].
      destruct (first_match own cap k gs 0) as [res used] eqn:Efm. cbn [fst snd] in H2, H3, H4, H5.
      rewrite H1. cbn [i_sent i_gets]. change (match fst (fst (drain1 (S (length gs)) own cap k (mkI gs s2 st2) [TWait])) with
             | Val e => 0 :: show_lists [event_fields e] | Fail e => [1; perr_code e] | Panic => [2] | Hang => [3] end)
        with (show_r1 (fst (fst (drain1 (S (length gs)) own cap k (mkI gs s2 st2) [TWait])))).
      rewrite H2. rewrite (show_trace_tags st2 ([TWait] ++ tr') (TWait :: repeat (TGet GNone) used))
        by (cbn [app map tev_tag]; rewrite H3, map_tag_repeat, Nat.sub_0_r; reflexivity).
      unfold nlen. rewrite H5, Nat.sub_0_r. rewrite list_eqb_refl. reflexivity.
    + cbn [i_sent i_gets perr_code]. rewrite list_eqb_refl. reflexivity.
Qed.


(* ---------- C07: the BLD checker accepts the model's observation of every history of well-formed frames ---------- *)
Require Import RP.Glue.StreamPacket.
Lemma bfinger_spec b : wf_builder b -> bfinger b = spec_finger b.
Proof.
  intros Hw. destruct (frames_left_spec b Hw) as [Hfl _]. pose proof (b_count_small b Hw) as Hc.
  destruct (build_spec b Hw) as [Hb1 Hb2].
  unfold bfinger, spec_finger. rewrite Hc, Hfl. unfold show_out at 1. cbn [nlen length N.of_nat app].
  destruct (nlen (b_frames b) =? b_exp b) eqn:E.
  - apply N.eqb_eq in E. rewrite (Hb1 E). reflexivity.
  - apply N.eqb_neq in E. rewrite (Hb2 E). reflexivity.
Qed.
Lemma finger_len_spec b r : finger_len (spec_finger b ++ r) = Some (spec_finger b, r).
Proof.
  unfold spec_finger. destruct (nlen (b_frames b) =? b_exp b).
  - unfold show_out. cbn [app finger_len]. rewrite take_app. reflexivity.
  - reflexivity.
Qed.
Lemma acceptsb_iff b f : acceptsb b f = true <-> accepts b f.
Proof.
  unfold acceptsb, accepts. split.
  - intros H. repeat (apply andb_prop in H; destruct H as [H ?]).
    apply Bool.eqb_prop in H. repeat split; try lia; try assumption;
      repeat match goal with Hx: negb _ = true |- _ => apply negb_true_iff in Hx end; assumption.
  - intros [A1 [A2 [A3 [A4 [A5 [A6 A7]]]]]]. rewrite A1, A3, A4, A5, Bool.eqb_reflx. cbn [negb andb].
    assert (E1: (f_addr f =? b_addr b) = true) by lia. assert (E2: (f_id f =? nlen (b_frames b)) = true) by lia. assert (E3: (f_id f <? b_exp b) = true) by lia.
    rewrite E1, E2, E3. reflexivity.
Qed.
Lemma berr_of_code e : berr_of (berr_code e) = Some e.
Proof. destruct e; reflexivity. Qed.
Lemma push_frame_wf b f : wf_builder b -> wf_frame f = true -> accepts b f -> wf_builder (push_frame b f).
Proof.
  intros Hw Hf Ha. pose proof (offer_wf b f Hw Hf) as H. unfold offer in H.
  rewrite (proj1 (add_frame_accept_iff b f Hw) Ha) in H. exact H.
Qed.

Lemma bld_walk_accepts_model : forall fs b step, wf_builder b -> forallb wf_frame fs = true -> snd (bld_walk b fs (bld_steps b fs) step) = [].
Proof.
  induction fs as [|f fs IH]; intros b step Hw Hfs; [reflexivity|].
  cbn [forallb] in Hfs. apply andb_prop in Hfs. destruct Hfs as [Hf Hfs].
  cbn [bld_steps]. destruct (add_frame_no_panic b f) as [Hnp Hnh].
  destruct (add_frame b f) as [b'|e| |] eqn:Ea; try contradiction.
  - destruct (proj2 (add_frame_accept_iff b f Hw) b' Ea) as [Hacc ->].
    pose proof (push_frame_wf b f Hw Hf Hacc) as Hw'.
    cbn [bld_walk]. rewrite (bfinger_spec _ Hw'), finger_len_spec.
    assert (Eacc: acceptsb b f = true) by (apply acceptsb_iff; exact Hacc). rewrite Eacc.
    change (0 =? 0) with true. cbn [andb negb]. rewrite list_eqb_refl. cbn [negb].
    specialize (IH (push_frame b f) (step + 1) Hw' Hfs).
    destruct (bld_walk (push_frame b f) fs (bld_steps (push_frame b f) fs) (step + 1)) as [vs bads]. cbn [snd] in *. exact IH.
  - assert (Eacc: acceptsb b f = false).
    { destruct (acceptsb b f) eqn:E; [|reflexivity]. apply acceptsb_iff in E. rewrite (proj1 (add_frame_accept_iff b f Hw) E) in Ea. discriminate. }
    pose proof (add_frame_reject_reason b f e Hw Ea) as Hr.
    cbn [bld_walk]. rewrite (bfinger_spec _ Hw), finger_len_spec. rewrite Eacc, berr_of_code, Hr.
    change (1 =? 0) with false. cbn [andb negb]. rewrite list_eqb_refl. cbn [negb].
    specialize (IH b (step + 1) Hw Hfs).
    destruct (bld_walk b fs (bld_steps b fs) (step + 1)) as [vs bads]. cbn [snd] in *. exact IH.
Qed.
Theorem ok_C07_accepts_model case f0 fs : parse_frames case = Some (f0 :: fs, []) -> ok_C07 case (run_BLD case) = [].
Proof.
  intros Hc. unfold ok_C07, bld_eval, run_BLD. rewrite Hc.
  destruct (forallb wf_frame (f0 :: fs)) eqn:Ew; cbn [negb]; [|reflexivity].
  cbn [forallb] in Ew. apply andb_prop in Ew. destruct Ew as [Hf0 Hfs].
  destruct (builder_new_spec f0) as [S1 [_ S3]].
  destruct (builder_new f0) as [b|e| |] eqn:En.
  - destruct (S1 b eq_refl) as [Hst [Hla Hb]]. pose proof (builder_new_wf f0 b Hf0 En) as Hw.
    rewrite Hst, Hla. cbn [andb negb]. rewrite (bfinger_spec b Hw), finger_len_spec. rewrite <- Hb, list_eqb_refl. cbn [negb].
    pose proof (bld_walk_accepts_model fs b 1 Hw Hfs) as H.
    destruct (bld_walk b fs (bld_steps b fs) 1) as [vs bads]. cbn [snd] in *. exact H.
  - destruct (S3 e eq_refl) as [-> Hor]. cbn [berr_code].
    destruct Hor as [H|H]; rewrite H; cbn [andb]; try rewrite Bool.andb_false_r; reflexivity.
  - exfalso. unfold builder_new in En. destruct (wf_frame_parts f0 Hf0) as [_ [Hi _]].
    destruct (negb (f_st f0)); [discriminate|]. destruct (f_last f0); [|discriminate].
    assert (E: (f_id f0 + 1 <? 65536) = true) by lia. rewrite E in En. discriminate.
  - exfalso. unfold builder_new in En. destruct (negb (f_st f0)); [discriminate|]. destruct (f_last f0); [|discriminate].
    destruct (f_id f0 + 1 <? 65536); discriminate.
Qed.

(* ---------- C14, CAN: the SND checker accepts the model's observation ---------- *)
Require Import RP.Model.Links RP.Lemmas.Senders.
Lemma outcomes_codes ans : outcomes (map ttok_of ans) = map ttok_of (filter (fun x => negb (x =? 1)) ans).
Proof.
  induction ans as [|x t IH]; [reflexivity|]. cbn [map filter outcomes]. fold (outcomes (map ttok_of t)). rewrite IH.
  destruct x as [|q]; [reflexivity|]. destruct q; reflexivity.
Qed.
Lemma glue_can_expect_spec : forall cfs os, Forall (fun x => x <> 1) os ->
  RP.Glue.StreamLink.can_expect cfs os = (fst (RP.Lemmas.Senders.can_expect cfs (map ttok_of os)), show_sres (snd (RP.Lemmas.Senders.can_expect cfs (map ttok_of os)))).
Proof.
  induction cfs as [|c t IH]; intros os Hos; [reflexivity|]. cbn [RP.Glue.StreamLink.can_expect RP.Lemmas.Senders.can_expect].
  destruct os as [|o os']; [reflexivity|]. apply Forall_cons_iff in Hos. destruct Hos as [Ho Hos'].
  cbn [map]. destruct o as [|q].
  - cbn [ttok_of]. rewrite (IH os' Hos'). destruct (RP.Lemmas.Senders.can_expect t (map ttok_of os')) as [s r]. reflexivity.
  - destruct q; try (exfalso; apply Ho; reflexivity); reflexivity.
Qed.
Theorem ok_C14_can_accepts_model case p encs fl ans cfs :
  snd_split case = Some (0, p, encs, fl, ans) -> cans_of encs = Some cfs -> ok_C14 case (run_SND case) = [].
Proof.
  intros Hs Hc. unfold ok_C14, run_SND. rewrite Hs, Hc. rewrite can_send_spec, outcomes_codes.
  assert (Hf: Forall (fun x => x <> 1) (filter (fun x => negb (x =? 1)) ans)).
  { apply Forall_forall. intros x Hx. apply filter_In in Hx. destruct Hx as [_ Hx]. apply negb_true_iff, N.eqb_neq in Hx. exact Hx. }
  rewrite (glue_can_expect_spec cfs _ Hf).
  destruct (RP.Lemmas.Senders.can_expect cfs (map ttok_of (filter (fun x => negb (x =? 1)) ans))) as [sent r]. cbn [fst snd].
  rewrite list_eqb_refl. reflexivity.
Qed.

(* ---------- C14, USART: the SND checker accepts the model's observation (hard write errors are outside the property) ---------- *)
Lemma accepts_codes ans : existsb (fun x => 1 <? x) ans = false ->
  no_wfail (map wtok_of ans) /\ accepts_in (map wtok_of ans) = length (filter (fun x => x =? 0) ans).
Proof.
  induction ans as [|x t IH]; intros H; [split; [constructor|reflexivity]|].
  cbn [existsb] in H. apply orb_false_elim in H. destruct H as [Hx Ht]. destruct (IH Ht) as [I1 I2].
  unfold no_wfail, accepts_in in *. cbn [map filter].
  destruct x as [|q]; [split; [constructor; [discriminate|exact I1]|cbn [wtok_of filter length]; rewrite I2; reflexivity]|].
  destruct q; try discriminate Hx. split; [constructor; [discriminate|exact I1]|cbn [wtok_of N.eqb filter]; exact I2].
Qed.
Theorem ok_C14_usart_accepts_model case p encs fl ans :
  snd_split case = Some (1, p, encs, fl, ans) -> ok_C14 case (run_SND case) = [].
Proof.
  intros Hs. unfold ok_C14, run_SND. rewrite Hs.
  destruct (existsb (fun x => 1 <? x) ans) eqn:Eh; [reflexivity|].
  destruct (accepts_codes ans Eh) as [Hn Ha]. unfold usart_send.
  destruct (uwrite_all_spec (concat (map link_bytes encs)) (map wtok_of ans) Hn) as [S1 S2]. rewrite Ha in S1, S2.
  destruct (length (concat (map link_bytes encs)) <=? length (filter (fun x => (x =? 0)%N) ans))%nat eqn:El.
  - apply Nat.leb_le in El. destruct (S1 El) as [rest [Hw _]]. rewrite Hw. rewrite list_eqb_refl. reflexivity.
  - apply Nat.leb_gt in El. rewrite (S2 El). rewrite list_eqb_refl. reflexivity.
Qed.

(* ---------- C14, serial port: the SND checker accepts the model's observation ---------- *)
Lemma is_prefix_app a b : is_prefix a (a ++ b) = true.
Proof. induction a as [|x a IH]; [reflexivity|]. cbn [app is_prefix]. rewrite N.eqb_refl, IH. reflexivity. Qed.
Theorem ok_C14_serial_accepts_model case p encs fl ans :
  snd_split case = Some (2, p, encs, fl, ans) -> ok_C14 case (run_SND case) = [].
Proof.
  intros Hs. unfold ok_C14, run_SND. rewrite Hs.
  pose proof (serial_send_spec encs (map ptok_of ans) fl) as H.
  destruct (serial_send encs (map ptok_of ans) fl) as [w r] eqn:Ess. destruct H as [[rest Hp] [Hv _]].
  unfold wire in Hp, Hv. rewrite Hp, is_prefix_app. cbn [negb].
  destruct r as [u|e| |]; cbn [show_sres].
  - destruct u. destruct (Hv eq_refl) as [Hw Hf]. rewrite <- Hp, Hw, list_eqb_refl, Hf. cbn [N.eqb negb andb]. rewrite list_eqb_refl. reflexivity.
  - assert (E: (serr_code e =? 0) = false) by (destruct e; reflexivity). rewrite E. cbn [andb]. rewrite list_eqb_refl. reflexivity.
  - cbn [N.eqb andb]. rewrite list_eqb_refl. reflexivity.
  - cbn [N.eqb andb]. rewrite list_eqb_refl. reflexivity.
Qed.

(* ---------- C02: the REA checker accepts the model's observation of every well-formed packet, on all three frame paths ---------- *)
Require Import RP.Spec.Frag RP.Lemmas.PacketLemmas RP.Lemmas.Reasm RP.Lemmas.FragWf.
Definition flN (b: builder) : N := match frames_left b with Val n => n | _ => 0 end.

Lemma last_nonempty {A} (l: list A) x d d' : last (x :: l) d = last (x :: l) d'.
Proof. revert x. induction l as [|y l IH]; intros x; [reflexivity|]. cbn [last]. apply (IH y). Qed.

Lemma rea_feed_trace : forall fs m b k bs lefts early,
  feed_trace b fs = Val bs ->
  (forall x, In x (removelast (b :: bs)) -> build x = Fail MissingFrames) ->
  (forall x, In x bs -> exists n, frames_left x = Val n) ->
  rea_feed m b k fs lefts early = Val (rev lefts ++ map flN bs, early, last (b :: bs) b).
Proof.
  induction fs as [|f t IH]; intros m b k bs lefts early Ht Hb Hl.
  - cbn in Ht. inversion Ht; subst bs. cbn [rea_feed map last]. rewrite rev_append_rev, !app_nil_r. reflexivity.
  - cbn [feed_trace] in Ht. destruct (add_frame b f) as [b'| | |] eqn:Ea; try discriminate. cbn [bind] in Ht.
    destruct (feed_trace b' t) as [bs'| | |] eqn:Et; try discriminate. cbn [bind] in Ht. inversion Ht; subst bs. clear Ht.
    cbn [rea_feed]. assert (Hbb: build b = Fail MissingFrames) by (apply Hb; cbn [removelast]; left; reflexivity).
    rewrite Hbb. assert (Ee: (if probe m k then early else early) = early) by (destruct (probe m k); reflexivity). rewrite Ee.
    rewrite Ea. cbn [bind]. destruct (Hl b' (or_introl eq_refl)) as [n Hn]. rewrite Hn. cbn [bind].
    rewrite (IH m b' (S k) bs' (n :: lefts) early Et).
    + cbn [rev map]. unfold flN at 2. rewrite Hn. rewrite <- app_assoc. cbn [app]. change (last (b :: b' :: bs') b) with (last (b' :: bs') b). f_equal. f_equal. apply last_nonempty.
    + intros x Hx. apply Hb. cbn [removelast]. right. exact Hx.
    + intros x Hx. apply Hl. right. exact Hx.
Qed.

Lemma in_removelast_or_last {A} (l: list A) x d : In x l -> In x (removelast l) \/ x = last l d.
Proof.
  induction l as [|y l IH]; intros H; [destruct H|]. destruct l as [|z l'].
  - destruct H as [<-|[]]. right. reflexivity.
  - destruct H as [<-|H]; [left; left; reflexivity|]. destruct (IH H) as [H1|H1]; [left; right; exact H1|right; exact H1].
Qed.
Lemma removelast_map {A B} (f: A -> B) l : removelast (map f l) = map f (removelast l).
Proof. induction l as [|x l IH]; [reflexivity|]. destruct l as [|y l']; [reflexivity|]. cbn [map removelast] in *. rewrite IH. reflexivity. Qed.
Lemma last_map {A B} (f: A -> B) l x d : last (map f (x :: l)) d = f (last (x :: l) x).
Proof. revert x. induction l as [|y l IH]; intros x; [reflexivity|]. change (last (map f (x :: y :: l)) d) with (last (map f (y :: l)) d). rewrite (IH y). change (last (x :: y :: l) x) with (last (y :: l) x). f_equal. apply last_nonempty. Qed.

Lemma rea_path_direct p : small p -> path_summary p (rea_path (Val (frag_spec p))) = 1 :: show_out show_packet berr_code (@Val packet berr p).
Proof.
  intros Hs. destruct (reasm_direct p Hs) as [f0 [rest [b0 [bs [Hf [Hn [Ht [Hbefore [Hl0 Hbuild]]]]]]]]].
  assert (Hfl: forall x, In x (b0 :: bs) -> exists n, frames_left x = Val n).
  { intros x Hx. destruct (in_removelast_or_last _ x b0 Hx) as [H|H]; [destruct (Hbefore x H) as [n [Hn' _]]; exists n; exact Hn'|subst x; exists 0; exact Hl0]. }
  destruct (Hfl b0 (or_introl eq_refl)) as [l0 Hl0'].
  rewrite Hf. unfold rea_path. rewrite Hn. cbn [bind]. rewrite Hl0'. cbn [bind].
  rewrite (rea_feed_trace rest (S (length rest)) b0 1 bs [l0] false Ht).
  2:{ intros x Hx. destruct (Hbefore x Hx) as [n [_ [_ Hb]]]. exact Hb. }
  2:{ intros x Hx. apply Hfl. right. exact Hx. }
  cbn [bind rev app]. rewrite Hbuild.
  assert (Hlefts: l0 :: map flN bs = map flN (b0 :: bs)) by (cbn [map]; unfold flN at 2; rewrite Hl0'; reflexivity). rewrite Hlefts.
  unfold path_summary. rewrite app_comm_cons, Hlefts, take_app. cbn [app b2N].
  rewrite removelast_map, (last_map flN bs b0 1). unfold flN at 2. rewrite Hl0. rewrite N.eqb_refl.
  assert (Hnz: forallb (fun x => negb (x =? 0)) (map flN (removelast (b0 :: bs))) = true).
  { apply forallb_forall. intros y Hy. apply in_map_iff in Hy. destruct Hy as [x [<- Hx]]. destruct (Hbefore x Hx) as [n [Hn' [Hpos _]]].
    unfold flN. rewrite Hn'. apply negb_true_iff, N.eqb_neq. lia. }
  rewrite Hnz. reflexivity.
Qed.

Lemma split3_lp a b c : split3 ((nlen a :: a) ++ (nlen b :: b) ++ (nlen c :: c)) = Some [a; b; c].
Proof.
  unfold split3. cbn [app]. rewrite take_app. cbn [app]. rewrite take_app.
  rewrite <- (app_nil_r c) at 2. rewrite take_app. reflexivity.
Qed.

Theorem ok_C02_accepts_model p : wf_packet p = true -> small p -> ok_C02 (show_packet p) (run_REA (show_packet p)) = [].
Proof.
  intros Hw Hs. unfold run_REA, ok_C02. rewrite <- (app_nil_r (show_packet p)), parse_show_packet.
  rewrite to_frames_spec by assumption. rewrite (via_can_id p Hw Hs), (via_usart_id p Hw Hs).
  destruct (wf_packet p && smallb p); [|reflexivity]. cbn [negb].
  rewrite split3_lp. cbn [combine map concat fst snd]. rewrite (rea_path_direct p Hs), list_eqb_refl. reflexivity.
Qed.
