(* The printers and parsers of the line grammar invert each other, and the checkers accept the model's own
   observations: on an implementation that behaves like the model the checks cannot raise an alarm. *)
Require Import RP.Model.Base RP.Model.Packet RP.Model.Events RP.Spec.Frag RP.Spec.EventLayout
  RP.Lemmas.EventsRT RP.Lemmas.EventsLayout RP.Lemmas.PacketLemmas RP.Glue.Wire RP.Glue.StreamEV RP.Glue.StreamDEC RP.Glue.StreamFrame RP.Glue.StreamPacket.

Lemma take_app (a b: list N) : take (nlen a) (a ++ b) = Some (a, b).
Proof.
  unfold take, nlen. rewrite Nnat.Nat2N.id. rewrite app_length.
  assert (E: (length a <=? length a + length b)%nat = true) by (apply Nat.leb_le; lia). rewrite E.
  rewrite firstn_app, Nat.sub_diag, firstn_all. cbn [firstn]. rewrite app_nil_r.
  rewrite skipn_app, skipn_all, Nat.sub_diag. reflexivity.
Qed.

Lemma list_eqb_refl l : list_eqb l l = true.
Proof. apply list_eqb_eq. reflexivity. Qed.

Lemma parse_show_packet p r : parse_packet (show_packet p ++ r) = Some (p, r).
Proof.
  destruct p as [e a d]. unfold show_packet, parse_packet. cbn [p_err p_addr p_data app]. rewrite take_app.
  destruct e; reflexivity.
Qed.

Lemma event_of_fields e : event_of (event_fields e) = Some e.
Proof.
  destruct e; cbn [event_fields event_of]; try reflexivity.
  - destruct value as [[|]| | | | |]; reflexivity.
  - destruct value as [x|x|x|[|]]; reflexivity.
  - destruct target as [[|]| | | | |]; reflexivity.
  - destruct value as [[|]| | |]; reflexivity.
Qed.

Lemma parse_show_dec_val e : parse_dobs (show_dec (Val e)) = Some (DVal (event_fields e), []).
Proof.
  unfold show_dec, show_out, parse_dobs. rewrite <- (app_nil_r (event_fields e)) at 2. rewrite take_app. reflexivity.
Qed.

(* C03: the checker accepts what the model does for every well-formed event *)
Theorem ok_C03_accepts_model e : wf_event e = true -> ok_C03 (event_fields e) (run_EV (event_fields e)) = [].
Proof.
  intros Hw. destruct (roundtrip e Hw) as [Hd [He Ha]].
  unfold run_EV, ok_C03. rewrite event_of_fields, Hd, parse_show_packet, parse_show_dec_val.
  rewrite list_eqb_refl, He, Ha, N.eqb_refl. reflexivity.
Qed.

(* C11, encode side *)
Theorem ok_C11_EV_accepts_model e : wf_event e = true -> ok_C11_EV (event_fields e) (run_EV (event_fields e)) = [].
Proof.
  intros Hw. unfold run_EV, ok_C11_EV. rewrite event_of_fields, parse_show_packet, <- (encode_layout e Hw), list_eqb_refl. reflexivity.
Qed.

(* C10 *)
Theorem ok_C10_accepts_model p : small p -> ok_C10 (show_packet p) (run_FRG (show_packet p)) = [].
Proof.
  intros Hs. unfold run_FRG, ok_C10. rewrite <- (app_nil_r (show_packet p)), parse_show_packet.
  rewrite to_frames_spec by assumption. unfold show_out.
  destruct (wf_packet p && smallb p); [|reflexivity]. cbn [negb]. rewrite list_eqb_refl. reflexivity.
Qed.

(* ---------- C05 ---------- *)
Lemma kind_of_code_code k : kind_of_code (code k) = Some k.
Proof. destruct k; reflexivity. Qed.
Lemma cerr_of_code r : cerr_of (cerr_code r) = Some r.
Proof. destruct r; reflexivity. Qed.
Lemma kind_eqb_refl k : kind_eqb k k = true.
Proof. unfold kind_eqb. apply N.eqb_refl. Qed.

Require Import RP.Lemmas.EventsC05.
Theorem ok_C05_accepts_model k p : wf_packet p = true -> ok_C05 (code k :: show_packet p) (run_DEC (code k :: show_packet p)) = [].
Proof.
  intros Hw. destruct (decode_exact k p Hw) as [Hp [Hh [Hv Hf]]].
  unfold run_DEC, ok_C05. rewrite kind_of_code_code. rewrite <- (app_nil_r (show_packet p)), parse_show_packet.
  destruct (decode k p) as [e|r| |] eqn:Ed; try contradiction.
  - destruct (Hv e eq_refl) as [H1 [H2 [H3 [H4 [H5 [H6 H7]]]]]]. rewrite H7.
    unfold show_dec at 1. unfold show_out at 1. cbn [app]. unfold parse_dobs at 1.
    rewrite take_app. rewrite event_of_fields, H1. cbn [negb]. rewrite H2, kind_eqb_refl, H3. cbn [negb]. rewrite H4, N.eqb_refl. cbn [negb].
    rewrite H5, Nat.eqb_refl, H6. cbn [negb]. rewrite parse_show_dec_val, list_eqb_refl. reflexivity.
  - unfold show_dec, show_out. cbn [app parse_dobs]. rewrite cerr_of_code, (Hf r eq_refl). reflexivity.
Qed.

(* ---------- C04, USART side ---------- *)
Lemma parse_show_frame f r : length (f_data f) = 8%nat -> parse_frame (show_frame f ++ r) = Some (f, r).
Proof.
  intros Hl. destruct f as [ne st mf la id ad dl d]. unfold show_frame, parse_frame. cbn [f_ne f_st f_mf f_last f_id f_addr f_dlen f_data app] in *.
  assert (Ht: take 8 (d ++ r) = Some (d, r)) by (replace 8 with (nlen d) by (unfold nlen; rewrite Hl; reflexivity); apply take_app).
  rewrite Ht. destruct ne, st, mf, la; reflexivity.
Qed.

Require Import RP.Model.Cobs RP.Model.Frame RP.Lemmas.FrameUsart RP.Lemmas.FrameCan RP.Lemmas.Builder.
Lemma wf_frame_len f : wf_frame f = true -> length (f_data f) = 8%nat.
Proof. intros H. destruct (wf_frame_parts f H) as [_ [_ [_ [Hl _]]]]. exact Hl. Qed.

Lemma reencode_flags_zero f : wf_frame f = true -> reencode_flags f = [0; 0; 0; 0].
Proof.
  intros Hw. unfold reencode_flags.
  rewrite usart_layout by assumption. rewrite to_bxcan_layout by assumption.
  assert (Hn: pflag (builder_new f) = 0).
  { unfold builder_new. destruct (negb (f_st f)); [reflexivity|]. destruct (f_last f); [|reflexivity].
    destruct (wf_frame_parts f Hw) as [_ [Hi _]]. assert (E: (f_id f + 1 <? 65536) = true) by lia. rewrite E. reflexivity. }
  rewrite Hn. cbn [pflag].
  match goal with |- context [builder_new ?s] => assert (Hb: exists b, builder_new s = Val b) by (unfold builder_new; cbn [f_st f_last f_id negb]; eexists; reflexivity) end.
  destruct Hb as [b Hb]. rewrite Hb. destruct (add_frame_no_panic b f) as [H1 H2].
  destruct (add_frame b f); try contradiction; reflexivity.
Qed.

Theorem ok_C04_USD_accepts_model bs : bytes bs = true -> ok_C04_USD bs (run_USD bs) = [].
Proof.
  intros Hb. destruct (from_usart_total bs Hb) as [Hp [Hh Hv]]. unfold ok_C04_USD, run_USD, c04_ok.
  destruct (from_usart bs) as [f|e| |] eqn:Ef; try contradiction.
  - destruct (Hv f eq_refl) as [Hw _]. unfold show_out. cbn [app parse_fobs].
    rewrite take_app. rewrite <- (app_nil_r (show_frame f)), (parse_show_frame f [] (wf_frame_len f Hw)).
    rewrite Hw, (reencode_flags_zero f Hw). reflexivity.
  - reflexivity.
Qed.

(* ---------- C12, event cases: exactly the own kind accepts the encoding ---------- *)
Require Import RP.Lemmas.EventsExact.
Lemma kind_eqb_eq a b : kind_eqb a b = true <-> a = b.
Proof. unfold kind_eqb. split; [intros H; apply code_inj; lia|intros ->; apply N.eqb_refl]. Qed.

Lemma acc_flag_encode e k : wf_event e = true -> acc_flag (decode k (encode e)) = if kind_eqb k (kind_of e) then 1%N else 0%N.
Proof.
  intros Hw. destruct (kind_eqb k (kind_of e)) eqn:E.
  - apply kind_eqb_eq in E. subst k. destruct (roundtrip e Hw) as [-> _]. reflexivity.
  - assert (Hne: k <> kind_of e) by (intros ->; rewrite kind_eqb_refl in E; discriminate).
    destruct (cross_rejected e k Hw Hne) as [r ->]. reflexivity.
Qed.

Lemma no_other_accepts ke : forall l,
  existsb (fun kf => negb (kind_eqb (fst kf) ke) && (snd kf =? 1)) (combine l (map (fun k => if kind_eqb k ke then 1%N else 0%N) l)) = false.
Proof.
  induction l as [|k t IH]; [reflexivity|]. cbn [map combine existsb fst snd]. rewrite IH.
  destruct (kind_eqb k ke); reflexivity.
Qed.

Theorem ok_C12_accepts_model_events e : wf_event e = true -> ok_C12 (1 :: event_fields e) (run_AMB (1 :: event_fields e)) = [].
Proof.
  intros Hw. unfold run_AMB. rewrite event_of_fields.
  assert (Hobs: map (fun k => acc_flag (decode k (encode e))) all_kinds = map (fun k => if kind_eqb k (kind_of e) then 1%N else 0%N) all_kinds).
  { apply map_ext. intros k. apply acc_flag_encode. exact Hw. }
  rewrite Hobs. unfold ok_C12. rewrite map_length. cbn [all_kinds length Nat.eqb negb].
  assert (Hc: (1 <? count_ones (map (fun k => if kind_eqb k (kind_of e) then 1%N else 0%N) all_kinds))%nat = false) by (destruct (kind_of e); reflexivity).
  rewrite Hc. rewrite event_of_fields. fold all_kinds. rewrite no_other_accepts. reflexivity.
Qed.

(* ---------- C12, packet cases: for ANY packet the model's sixteen flags contain at most one acceptance ---------- *)
Lemma count_ones_zero {A} (f: A -> N) l : (forall x, In x l -> f x <> 1) -> count_ones (map f l) = 0%nat.
Proof.
  unfold count_ones. induction l as [|x t IH]; intros H; [reflexivity|]. cbn [map filter].
  destruct (f x =? 1) eqn:E; [apply N.eqb_eq in E; exfalso; apply (H x); [left; reflexivity|exact E]|].
  apply IH. intros y Hy. apply H. right. exact Hy.
Qed.
Lemma count_ones_unique {A} (f: A -> N) l : NoDup l -> (forall x y, f x = 1 -> f y = 1 -> x = y) -> (count_ones (map f l) <= 1)%nat.
Proof.
  intros Hnd Hu. induction Hnd as [|x t Hnin Hnd IH]; [unfold count_ones; cbn; lia|].
  unfold count_ones in *. cbn [map filter]. destruct (f x =? 1) eqn:E; [|exact IH].
  apply N.eqb_eq in E. cbn [length].
  assert (Hz: count_ones (map f t) = 0%nat).
  { apply count_ones_zero. intros y Hy Hfy. apply Hnin. rewrite (Hu x y E Hfy). exact Hy. }
  unfold count_ones in Hz. rewrite Hz. lia.
Qed.
Lemma all_kinds_nodup : NoDup all_kinds.
Proof.
  apply (NoDup_map_inv code). unfold all_kinds. cbn [map code].
  repeat (constructor; [cbn [In]; intros H; repeat (destruct H as [H|H]; [discriminate H|]); exact H|]). constructor.
Qed.
Theorem ok_C12_accepts_model_packets p : ok_C12 (0 :: show_packet p) (run_AMB (0 :: show_packet p)) = [].
Proof.
  unfold run_AMB. rewrite <- (app_nil_r (show_packet p)), parse_show_packet. unfold ok_C12. rewrite map_length.
  cbn [all_kinds length Nat.eqb negb]. fold all_kinds.
  assert (Hc: (count_ones (map (fun k => acc_flag (decode k p)) all_kinds) <= 1)%nat).
  { apply count_ones_unique; [exact all_kinds_nodup|]. intros x y Hx Hy.
    destruct (decode x p) as [ex| | |] eqn:Ex; try discriminate Hx.
    destruct (decode y p) as [ey| | |] eqn:Ey; try discriminate Hy.
    exact (unique_kind x y p ex ey Ex Ey). }
  destruct (Nat.ltb_spec 1 (count_ones (map (fun k => acc_flag (decode k p)) all_kinds))); [lia|reflexivity].
Qed.

(* ---------- C09, encode side: the checker accepts the model's observation for every well-formed frame ---------- *)
Require Import RP.Lemmas.CobsLemmas.
Lemma existsb_zero_false l : ~ In 0 l -> existsb (fun x => x =? 0) l = false.
Proof.
  intros H. destruct (existsb (fun x => x =? 0) l) eqn:E; [|reflexivity].
  apply existsb_exists in E. destruct E as [x [Hx Hz]]. apply N.eqb_eq in Hz. subst x. contradiction.
Qed.
Lemma parse_fobs_val f : length (f_data f) = 8%nat -> parse_fobs (show_out show_frame ferr_code (Val f)) = Some (inl f, []).
Proof.
  intros Hl. unfold show_out. cbn [parse_fobs]. rewrite <- (app_nil_r (show_frame f)) at 2. rewrite take_app.
  rewrite <- (app_nil_r (show_frame f)), (parse_show_frame f [] Hl). reflexivity.
Qed.
Theorem ok_C09_USE_accepts_model f : wf_frame f = true -> ok_C09_USE (show_frame f) (run_USE (show_frame f)) = [].
Proof.
  intros Hw. pose proof (wf_frame_len f Hw) as Hl. destruct (wf_frame_parts f Hw) as [Hd _].
  unfold ok_C09_USE, run_USE. rewrite <- (app_nil_r (show_frame f)), (parse_show_frame f [] Hl). rewrite Hw. cbn [negb].
  rewrite (usart_layout f Hw). remember (header_spec f ++ firstn (N.to_nat (f_dlen f)) (f_data f)) as body eqn:Hb.
  assert (Hbl: length body = (5 + N.to_nat (f_dlen f))%nat) by (subst body; unfold header_spec; rewrite app_length, firstn_length; cbn [length]; lia).
  unfold show_out at 1. cbn [app]. rewrite take_app. rewrite list_eqb_refl. cbn [negb].
  rewrite (existsb_zero_false _ (cobs_encode_nozero body)).
  rewrite cobs_encode_length by lia.
  assert (E14: (14 <? S (length body))%nat = false) by (apply Nat.ltb_ge; lia). rewrite E14.
  destruct (Bool.eqb (f_last f) (f_st f)) eqn:El; [|reflexivity].
  apply Bool.eqb_prop in El. destruct (usart_roundtrip f Hw El) as [enc [He [Hd' _]]].
  rewrite (usart_layout f Hw), <- Hb in He. inversion He as [He']. rewrite He', Hd'.
  rewrite (parse_fobs_val f Hl). unfold frame_eqb. rewrite list_eqb_refl. reflexivity.
Qed.

(* ---------- C08 and C04 (CAN side): the checkers accept the model's observations ---------- *)
Require Import RP.Spec.CanLayout.
Lemma b2N_flag b : negb (b2N b =? 0) = b.
Proof. destruct b; reflexivity. Qed.
Lemma parse_show_can c r : parse_can (show_can c ++ r) = Some (c, r).
Proof.
  destruct c as [e rm id dlc d]. unfold show_can, parse_can. cbn [cf_ext cf_remote cf_id cf_dlc cf_data app].
  rewrite take_app, !b2N_flag. reflexivity.
Qed.
Theorem ok_C08_CAE_accepts_model f : wf_frame f = true -> ok_C08_CAE (show_frame f) (run_CAE (show_frame f)) = [].
Proof.
  intros Hw. pose proof (wf_frame_len f Hw) as Hl.
  unfold ok_C08_CAE, run_CAE. rewrite <- (app_nil_r (show_frame f)), (parse_show_frame f [] Hl). rewrite Hw. cbn [negb].
  rewrite (to_bxcan_layout f Hw). remember (mkCF true false (can_id_spec f) (f_dlen f) (firstn (N.to_nat (f_dlen f)) (f_data f))) as c eqn:Hc.
  unfold show_out at 1. cbn [app]. rewrite take_app.
  rewrite <- (app_nil_r (show_can c)), parse_show_can.
  assert (Hx: cf_ext c = true) by (subst c; reflexivity). assert (Hr: cf_remote c = false) by (subst c; reflexivity).
  assert (Hi: cf_id c = can_id_spec f) by (subst c; reflexivity).
  assert (Hd: cf_data c = firstn (N.to_nat (f_dlen f)) (f_data f)) by (subst c; reflexivity).
  rewrite Hx, Hr, Hi, Hd, N.eqb_refl, list_eqb_refl. cbn [negb orb].
  destruct (fragment_shaped f) eqn:Hs; [|reflexivity].
  destruct (bxcan_roundtrip f Hw Hs) as [c' [Hc' [_ Hd']]].
  rewrite (to_bxcan_layout f Hw), <- Hc in Hc'. injection Hc' as Hcc. rewrite Hcc, Hd'.
  rewrite (parse_fobs_val f Hl). unfold frame_eqb. rewrite list_eqb_refl. reflexivity.
Qed.

Theorem ok_C08_CAD_accepts_model c : wf_canframe c = true -> ok_C08_CAD (show_can c) (run_CAD (show_can c)) = [].
Proof.
  intros Hw. unfold ok_C08_CAD, run_CAD. rewrite <- (app_nil_r (show_can c)), parse_show_can. rewrite Hw. cbn [negb].
  destruct (from_bxcan_total c Hw) as [Hp [Hh Hv]]. rewrite <- (from_bxcan_layout c Hw).
  destruct (from_bxcan c) as [f|e| |] eqn:Ef; try contradiction.
  - destruct (Hv f eq_refl) as [Hwf _]. pose proof (wf_frame_len f Hwf) as Hl.
    unfold show_out. cbn [app parse_fobs]. rewrite take_app.
    rewrite <- (app_nil_r (show_frame f)), (parse_show_frame f [] Hl). unfold frame_eqb. rewrite list_eqb_refl. reflexivity.
  - reflexivity.
Qed.

Theorem ok_C04_CAD_accepts_model c : wf_canframe c = true -> ok_C04_CAD (show_can c) (run_CAD (show_can c)) = [].
Proof.
  intros Hw. unfold ok_C04_CAD, run_CAD, c04_ok. rewrite <- (app_nil_r (show_can c)), parse_show_can.
  destruct (from_bxcan_total c Hw) as [Hp [Hh Hv]].
  destruct (from_bxcan c) as [f|e| |] eqn:Ef; try contradiction.
  - destruct (Hv f eq_refl) as [Hwf _]. unfold show_out. cbn [app parse_fobs].
    rewrite take_app. rewrite <- (app_nil_r (show_frame f)), (parse_show_frame f [] (wf_frame_len f Hwf)).
    rewrite Hwf, (reencode_flags_zero f Hwf). reflexivity.
  - reflexivity.
Qed.

(* ---------- C09, decode side ---------- *)
Require Import RP.Lemmas.Bits.
Lemma from_usart_decoded enc body : bytes body = true -> cobs_decode enc = Some body -> (5 <= length body)%nat ->
  nth 4 body 0 = N.of_nat (length body - 5) -> (length body <= 13)%nat -> from_usart enc = Val (frame_of_body body).
Proof.
  intros Hb Hdec Hl H4 Hl2. unfold from_usart. rewrite Hdec.
  assert (E5: (length body <? 5)%nat = false) by (apply Nat.ltb_ge; lia). rewrite E5.
  rewrite (idx_nth body 4) by lia. cbn [bind]. rewrite H4.
  assert (Eg: (8 <? N.of_nat (length body - 5)) || negb (length body =? N.to_nat (N.of_nat (length body - 5)) + 5)%nat = false).
  { apply orb_false_intro; [lia|]. apply negb_false_iff, Nat.eqb_eq. lia. }
  rewrite Eg. rewrite (idx_nth body 0), (idx_nth body 1), (idx_nth body 2), (idx_nth body 3) by lia. cbn [bind].
  rewrite slice_val by lia. cbn [bind]. unfold frame_of_body.
  pose proof (bytes_nth body 1 Hb) as H1. pose proof (bytes_nth body 3 Hb) as H3.
  rewrite !join16 by assumption. rewrite land_f, !bit_arith, H4.
  change (2 ^ 7) with 128. change (2 ^ 6) with 64. change (2 ^ 5) with 32.
  replace (firstn (N.to_nat (N.of_nat (length body - 5))) (skipn 5 body)) with (skipn 5 body)
    by (symmetry; apply firstn_all2; rewrite skipn_length; lia).
  reflexivity.
Qed.

Theorem ok_C09_USD_accepts_model bs : bytes bs = true -> ok_C09_USD bs (run_USD bs) = [].
Proof.
  intros Hb. unfold ok_C09_USD, c09_dec_expect, run_USD. rewrite Hb. cbn [negb].
  destruct (cobs_decode bs) as [body|] eqn:Ed.
  - pose proof (cobs_decode_bytes _ _ Hb Ed) as Hbb.
    destruct (length body <? 5)%nat eqn:E5.
    + unfold from_usart. rewrite Ed, E5. reflexivity.
    + apply Nat.ltb_ge in E5.
      destruct ((8 <? nth 4 body 0) || negb (length body =? N.to_nat (nth 4 body 0%N) + 5)%nat) eqn:Eg.
      * unfold from_usart. rewrite Ed. assert (E5': (length body <? 5)%nat = false) by (apply Nat.ltb_ge; lia). rewrite E5'.
        rewrite (idx_nth body 4) by lia. cbn [bind]. rewrite Eg. reflexivity.
      * apply orb_false_elim in Eg. destruct Eg as [E8 El]. apply negb_false_iff, Nat.eqb_eq in El.
        assert (H4: nth 4 body 0 = N.of_nat (length body - 5)) by lia.
        rewrite (from_usart_decoded bs body Hbb Ed E5 H4) by lia.
        destruct (from_usart_total bs Hb) as [_ [_ Hv]].
        destruct (Hv _ (from_usart_decoded bs body Hbb Ed E5 H4 ltac:(lia))) as [Hwf _].
        pose proof (wf_frame_len _ Hwf) as Hlen.
        unfold show_out at 1. cbn [app parse_fobs]. rewrite take_app.
        rewrite <- (app_nil_r (show_frame (frame_of_body body))), (parse_show_frame _ [] Hlen).
        unfold frame_eqb. rewrite list_eqb_refl. reflexivity.
  - unfold from_usart. rewrite Ed. reflexivity.
Qed.
