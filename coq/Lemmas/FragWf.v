Require Import RP.Model.Base RP.Model.Packet RP.Model.Cobs RP.Model.Frame RP.Spec.Frag RP.Spec.CanLayout
  RP.Lemmas.PacketLemmas RP.Lemmas.Reasm RP.Lemmas.FrameUsart RP.Lemmas.FrameCan.

Definition good_frame (f: frame) : Prop := wf_frame f = true /\ fragment_shaped f = true /\ f_last f = f_st f.

Lemma wf_frame_intro ne st mf la fid addr (c: list N) :
  fid < 4096 -> addr < 65536 -> (length c <= 8)%nat -> bytes c = true ->
  wf_frame (mkF ne st mf la fid addr (nlen c) (pad8 c)) = true.
Proof.
  intros Hf Ha Hl Hb. destruct (pad8_wf c Hl Hb) as [P1 [P2 P3]].
  unfold wf_frame. cbn [f_dlen f_id f_addr f_data]. unfold nlen. rewrite Nnat.Nat2N.id, P2, P3. lia.
Qed.

Lemma wf_packet_parts p : wf_packet p = true -> p_addr p < 65536 /\ bytes (p_data p) = true.
Proof. unfold wf_packet. intros H. apply andb_prop in H. destruct H as [H1 H2]. split; [lia|assumption]. Qed.

(* every frame fragmentation produces is well-formed, fragment-shaped, and carries the right id kind *)
Theorem frag_spec_good p : wf_packet p = true -> small p -> Forall good_frame (frag_spec p).
Proof.
  intros Hwf Hs. destruct (wf_packet_parts p Hwf) as [Ha Hb]. unfold small in Hs.
  destruct (le_gt_dec (length (p_data p)) 8) as [H8|H8].
  - rewrite frag_spec_single by lia. constructor; [|constructor]. unfold good_frame, sframe. split; [|split; reflexivity].
    apply wf_frame_intro; try assumption; lia.
  - rewrite frag_spec_multi by lia. set (cs := chunks7 _ _).
    assert (Hlen: length cs = ((length (p_data p) + 6) / 7)%nat) by (apply chunks7_length; lia).
    set (m := length cs) in *. apply Forall_forall. intros f Hf. apply in_map_iff in Hf. destruct Hf as [i [<- Hi]]. apply in_seq in Hi.
    assert (Hc: nth i cs [] = firstn 7 (skipn (7 * i) (p_data p))) by (apply chunks7_nth; lia).
    assert (Hcl: (length (nth i cs []) <= 7)%nat) by (rewrite Hc, firstn_length; lia).
    assert (Hcb: bytes (nth i cs []) = true) by (rewrite Hc; apply bytes_firstn, bytes_skipn, Hb).
    unfold good_frame, mframe. set (c := nth i cs []) in *.
    set (idb := if (i =? 0)%nat then N.of_nat (m - 1) mod 256 else N.of_nat i mod 256).
    set (fid := if (i =? 0)%nat then N.of_nat (m - 1) else N.of_nat i).
    assert (Hfid: fid < 4096) by (subst fid; destruct (i =? 0)%nat; lia).
    assert (Hidb: idb = fid mod 256) by (subst idb fid; destruct (i =? 0)%nat; reflexivity).
    replace (nlen c + 1) with (nlen (idb :: c)) by (unfold nlen; cbn [length]; lia).
    split; [|split].
    + apply wf_frame_intro; try assumption; [cbn [length]; lia|].
      unfold bytes. cbn [forallb]. fold (bytes c). rewrite Hcb. unfold byte. rewrite Hidb. lia.
    + unfold fragment_shaped. cbn [f_mf f_dlen f_data f_id f_last f_st]. unfold pad8. cbn [app nth].
      rewrite Hidb, N.eqb_refl, eqb_reflx. unfold nlen. cbn [length]. lia.
    + reflexivity.
Qed.

(* passing every frame through a codec and back *)
Definition via_can (fs: list frame) : out (list frame) ferr := mapM (fun f => do c <- to_bxcan f; from_bxcan c) fs.
Definition via_usart (fs: list frame) : out (list frame) ferr := mapM (fun f => do e <- to_usart f; from_usart e) fs.

Theorem via_can_id p : wf_packet p = true -> small p -> via_can (frag_spec p) = Val (frag_spec p).
Proof.
  intros Hwf Hs. pose proof (frag_spec_good p Hwf Hs) as Hg. unfold via_can.
  rewrite (mapM_ext_val _ (fun f => f)); [rewrite map_id; reflexivity|].
  intros f Hf. rewrite Forall_forall in Hg. destruct (Hg f Hf) as [H1 [H2 _]].
  destruct (bxcan_roundtrip f H1 H2) as [c [Hc [_ Hd]]]. rewrite Hc. cbn [bind]. exact Hd.
Qed.

Theorem via_usart_id p : wf_packet p = true -> small p -> via_usart (frag_spec p) = Val (frag_spec p).
Proof.
  intros Hwf Hs. pose proof (frag_spec_good p Hwf Hs) as Hg. unfold via_usart.
  rewrite (mapM_ext_val _ (fun f => f)); [rewrite map_id; reflexivity|].
  intros f Hf. rewrite Forall_forall in Hg. destruct (Hg f Hf) as [H1 [_ H3]].
  destruct (usart_roundtrip f H1 H3) as [e [He [Hd _]]]. rewrite He. cbn [bind]. exact Hd.
Qed.
