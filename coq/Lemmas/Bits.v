Require Import RP.Model.Base.

Lemma In_range x n : x < N.of_nat n -> In x (map N.of_nat (seq 0 n)).
Proof. intros H. apply in_map_iff. exists (N.to_nat x). split; [lia|]. apply in_seq. lia. Qed.

(* a finite sweep: the bound is part of the statement *)
Lemma sweep (P: N -> bool) n : forallb P (map N.of_nat (seq 0 n)) = true -> forall x, x < N.of_nat n -> P x = true.
Proof. intros H x Hx. rewrite forallb_forall in H. apply H, In_range, Hx. Qed.

Lemma testbit_small lo n k : lo < 2^n -> n <= k -> N.testbit lo k = false.
Proof.
  intros H Hk. destruct (N.eq_dec lo 0) as [->|Hz]; [apply N.bits_0|].
  apply N.bits_above_log2. apply N.log2_lt_pow2; [lia|].
  apply N.lt_le_trans with (2^n); [assumption|]. apply N.pow_le_mono_r; lia.
Qed.
Lemma land_disjoint hi lo n : lo < 2^n -> N.land (N.shiftl hi n) lo = 0.
Proof.
  intros H. apply N.bits_inj_0. intros k. rewrite N.land_spec.
  destruct (N.lt_ge_cases k n) as [Hk|Hk].
  - rewrite N.shiftl_spec_low by assumption. reflexivity.
  - rewrite (testbit_small lo n k) by assumption. apply andb_false_r.
Qed.
Lemma lor_shiftl_add hi lo n : lo < 2^n -> N.lor (N.shiftl hi n) lo = hi * 2^n + lo.
Proof.
  intros H. rewrite <- N.lxor_lor by (apply land_disjoint; assumption).
  rewrite <- N.add_nocarry_lxor by (apply land_disjoint; assumption).
  rewrite N.shiftl_mul_pow2. reflexivity.
Qed.

Definition nib (fid: N) := N.shiftr (N.land fid 0x0f00) 8.
Lemma nib_spec fid : fid < 4096 -> nib fid = fid / 256.
Proof. intros H. apply N.eqb_eq. revert fid H. change 4096 with (N.of_nat 4096). apply sweep. vm_compute. reflexivity. Qed.

Lemma land_ones_mod x k : N.land x (N.ones k) = x mod 2^k.
Proof. apply N.land_ones. Qed.
Lemma land_ff x : N.land x 0x00ff = x mod 256.
Proof. change 0x00ff with (N.ones 8). apply N.land_ones. Qed.
Lemma land_ffff x : N.land x 0xffff = x mod 65536.
Proof. change 0xffff with (N.ones 16). apply N.land_ones. Qed.
Lemma land_f x : N.land x 0xf = x mod 16.
Proof. change 0xf with (N.ones 4). apply N.land_ones. Qed.
Lemma land_1 x : N.land x 1 = x mod 2.
Proof. change 1 with (N.ones 1) at 1. apply N.land_ones. Qed.

Lemma land_shifted_ones a n m : N.land a (N.shiftl (N.ones m) n) = N.shiftl (N.land (N.shiftr a n) (N.ones m)) n.
Proof.
  apply N.bits_inj. intros k. rewrite N.land_spec.
  destruct (N.lt_ge_cases k n) as [Hk|Hk].
  - rewrite !N.shiftl_spec_low by assumption. apply andb_false_r.
  - rewrite !N.shiftl_spec_high' by assumption. rewrite N.land_spec, N.shiftr_spec'.
    replace (k - n + n) with k by lia. reflexivity.
Qed.

Lemma addr_hi a : a < 65536 -> N.shiftr (N.land a 0xff00) 8 = a / 256.
Proof.
  intros H. change 0xff00 with (N.shiftl (N.ones 8) 8). rewrite land_shifted_ones.
  rewrite N.shiftr_shiftl_l by lia. rewrite N.sub_diag, N.shiftl_0_r, N.land_ones, N.shiftr_div_pow2.
  change (2^8) with 256. rewrite N.mod_small; lia.
Qed.

Lemma join16 hi lo : lo < 256 -> N.lor (N.shiftl hi 8) lo = hi * 256 + lo.
Proof. intros H. rewrite lor_shiftl_add by (change (2^8) with 256; lia). reflexivity. Qed.

Definition flags8 := [(false,false,false);(false,false,true);(false,true,false);(false,true,true);
                      (true,false,false);(true,false,true);(true,true,false);(true,true,true)].
Lemma flags8_all a b c : In (a,b,c) flags8. Proof. destruct a, b, c; cbn; tauto. Qed.
