Require Import RP.Model.Base RP.Model.Packet RP.Model.Cobs RP.Model.Frame RP.Lemmas.Bits RP.Lemmas.CobsLemmas.

Lemma hdr0_decode ne st mf fid : fid < 4096 ->
  let b0 := hdr0 ne st mf fid in
  b0 < 256 /\ bit b0 7 = ne /\ bit b0 6 = st /\ bit b0 5 = mf /\ N.land b0 0x0f = fid / 256.
Proof.
  intros Hf. unfold hdr0. fold (nib fid). rewrite nib_spec by assumption.
  assert (Hn: fid / 256 < 16) by lia.
  assert (S: forallb (fun n => forallb (fun '(a,b,c) =>
               let b0 := N.lor (N.lor (N.lor (N.shiftl (b2N a) 7) (N.shiftl (b2N b) 6)) (N.shiftl (b2N c) 5)) n in
               (b0 <? 256) && Bool.eqb (bit b0 7) a && Bool.eqb (bit b0 6) b && Bool.eqb (bit b0 5) c && (N.land b0 0x0f =? n)) flags8)
             (map N.of_nat (seq 0 16)) = true) by (vm_compute; reflexivity).
  pose proof (sweep _ _ S (fid / 256) Hn) as Hs. cbv beta in Hs. rewrite forallb_forall in Hs.
  specialize (Hs (ne, st, mf) (flags8_all ne st mf)). cbv beta iota zeta in Hs.
  repeat (apply andb_prop in Hs; destruct Hs as [Hs ?]).
  repeat split; try (apply eqb_prop; assumption); try (apply N.eqb_eq; assumption). apply N.ltb_lt; assumption.
Qed.

(* arithmetic reading of header byte 0 (C09 layout): flags in bits 7..5, id nibble in bits 3..0 *)
Lemma hdr0_arith ne st mf fid : fid < 4096 -> hdr0 ne st mf fid = 128 * b2N ne + 64 * b2N st + 32 * b2N mf + fid / 256.
Proof.
  intros Hf. unfold hdr0. fold (nib fid). rewrite nib_spec by assumption.
  assert (Hn: fid / 256 < 16) by lia.
  assert (S: forallb (fun n => forallb (fun '(a,b,c) =>
               N.lor (N.lor (N.lor (N.shiftl (b2N a) 7) (N.shiftl (b2N b) 6)) (N.shiftl (b2N c) 5)) n =? 128 * b2N a + 64 * b2N b + 32 * b2N c + n) flags8)
             (map N.of_nat (seq 0 16)) = true) by (vm_compute; reflexivity).
  pose proof (sweep _ _ S (fid / 256) Hn) as Hs. cbv beta in Hs. rewrite forallb_forall in Hs.
  specialize (Hs (ne, st, mf) (flags8_all ne st mf)). cbv beta iota zeta in Hs. apply N.eqb_eq. exact Hs.
Qed.

Lemma wf_frame_parts f : wf_frame f = true ->
  f_dlen f <= 8 /\ f_id f < 4096 /\ f_addr f < 65536 /\ length (f_data f) = 8%nat /\ bytes (f_data f) = true
  /\ zeros_from (N.to_nat (f_dlen f)) (f_data f) = true.
Proof.
  unfold wf_frame. intros H.
  apply andb_prop in H. destruct H as [H H6]. apply andb_prop in H. destruct H as [H H5].
  apply andb_prop in H. destruct H as [H H4]. apply andb_prop in H. destruct H as [H H3].
  apply andb_prop in H. destruct H as [H1 H2].
  apply Nat.eqb_eq in H4. repeat split; try assumption; lia.
Qed.

Lemma pad8_restore l k : length l = 8%nat -> (k <= 8)%nat -> zeros_from k l = true -> pad8 (firstn k l) = l.
Proof.
  unfold zeros_from. intros Hl Hk Hz. unfold pad8. rewrite firstn_length, Nat.min_l by lia.
  transitivity (firstn k l ++ skipn k l); [|apply firstn_skipn]. f_equal.
  assert (Hlen: length (skipn k l) = (8 - k)%nat) by (rewrite skipn_length; lia).
  revert Hz Hlen. generalize (skipn k l) (8 - k)%nat. clear.
  intros l. induction l as [|x t IH]; intros n Hz Hn; cbn in *; subst n; [reflexivity|].
  apply andb_prop in Hz. destruct Hz as [Hx Hz]. apply N.eqb_eq in Hx. subst x. cbn. f_equal. apply IH; auto.
Qed.

Lemma forallb_repeat {A} (P: A -> bool) x n : P x = true -> forallb P (repeat x n) = true.
Proof. intros H. induction n; cbn; [reflexivity|]. rewrite H, IHn. reflexivity. Qed.

Lemma pad8_wf data : (length data <= 8)%nat -> bytes data = true ->
  length (pad8 data) = 8%nat /\ bytes (pad8 data) = true /\ zeros_from (length data) (pad8 data) = true.
Proof.
  intros Hl Hb. unfold pad8. split; [rewrite app_length, repeat_length; lia|]. split.
  - rewrite bytes_app, Hb. apply forallb_repeat. reflexivity.
  - unfold zeros_from. rewrite skipn_app, skipn_all, Nat.sub_diag. cbn [skipn app]. apply forallb_repeat. reflexivity.
Qed.

Lemma bytes_nth l i : bytes l = true -> nth i l 0 < 256.
Proof.
  unfold bytes. revert i. induction l as [|x t IH]; intros [|i] H; cbn in *; try lia;
  apply andb_prop in H; destruct H as [Hx Ht]; [unfold byte in Hx; lia|apply IH, Ht].
Qed.

Lemma idx_nth {E} l i : (i < length l)%nat -> @idx E l i = Val (nth i l 0).
Proof. intros H. unfold idx. rewrite (nth_error_nth' l 0 H). reflexivity. Qed.

(* the decoded frame, as a function of the decoded body (layout stated arithmetically) *)
Definition frame_of_body (body: list N) : frame :=
  let b0 := nth 0 body 0 in
  let st := (b0 / 64) mod 2 =? 1 in
  mkF ((b0 / 128) mod 2 =? 1) st ((b0 / 32) mod 2 =? 1) st
      ((b0 mod 16) * 256 + nth 1 body 0) (nth 2 body 0 * 256 + nth 3 body 0) (nth 4 body 0)
      (pad8 (skipn 5 body)).

Lemma bit_arith x k : bit x k = ((x / 2 ^ k) mod 2 =? 1).
Proof.
  unfold bit. rewrite N.shiftr_div_pow2, land_1. generalize (x / 2 ^ k). intros y.
  destruct (y mod 2 =? 0) eqn:E; cbn [negb]; symmetry; lia.
Qed.

(* ---------------- C09 core: layout, round trip, no zero byte, length ---------------- *)
Theorem usart_roundtrip f : wf_frame f = true -> f_last f = f_st f ->
  exists enc, to_usart f = Val enc /\ from_usart enc = Val f /\ ~ In 0 enc /\ (length enc = N.to_nat (f_dlen f) + 6)%nat.
Proof.
  intros Hwf Hlast. destruct (wf_frame_parts f Hwf) as [Hd [Hi [Ha [Hl [Hb Hz]]]]].
  unfold to_usart. rewrite slice_val by lia. cbn [bind skipn].
  set (k := N.to_nat (f_dlen f)) in *. set (payload := firstn k (f_data f)).
  assert (Hpl: length payload = k) by (unfold payload; rewrite firstn_length; lia).
  set (body := header f ++ payload).
  assert (Hbl: length body = (5 + k)%nat) by (unfold body; rewrite app_length, Hpl; reflexivity).
  eexists. split; [reflexivity|].
  assert (Hrt: cobs_decode (cobs_encode body) = Some body).
  { apply cobs_roundtrip; [lia|]. unfold body, header. discriminate. }
  split; [|split].
  - unfold from_usart. rewrite Hrt.
    assert (E5: (length body <? 5)%nat = false) by (apply Nat.ltb_ge; lia). rewrite E5.
    unfold body at 1. unfold idx at 1. cbn [header app nth_error bind].
    assert (E8: (8 <? f_dlen f) = false) by lia. rewrite E8. fold k. rewrite Hbl.
    assert (Ek: (5 + k =? k + 5)%nat = true) by (apply Nat.eqb_eq; lia). rewrite Ek. cbn [negb orb].
    unfold body at 1 2 3 4. unfold idx at 1 2 3 4. cbn [header app nth_error bind].
    rewrite slice_val by lia.
    assert (Hsk: skipn 5 body = payload) by reflexivity. rewrite Hsk. cbn [bind].
    replace (firstn k payload) with payload by (symmetry; rewrite <- Hpl at 1; apply firstn_all).
    destruct (hdr0_decode (f_ne f) (f_st f) (f_mf f) (f_id f) Hi) as [H0 [H7 [H6 [H5 Hn]]]].
    rewrite H7, H6, H5, Hn. rewrite !land_ff, addr_hi by assumption.
    rewrite !join16 by lia.
    replace (f_id f / 256 * 256 + f_id f mod 256) with (f_id f) by lia.
    replace (f_addr f / 256 * 256 + f_addr f mod 256) with (f_addr f) by lia.
    unfold payload. rewrite pad8_restore by (assumption || lia).
    destruct f as [ne st mf lst fid addr dl dat]. cbn [f_ne f_st f_mf f_last f_id f_addr f_dlen f_data] in *. subst lst. reflexivity.
  - apply cobs_encode_nozero.
  - rewrite cobs_encode_length by lia. lia.
Qed.

(* the encoder output is the COBS encoding of the arithmetic header followed by the data bytes *)
Definition header_spec (f: frame) : list N :=
  [128 * b2N (f_ne f) + 64 * b2N (f_st f) + 32 * b2N (f_mf f) + f_id f / 256; f_id f mod 256; f_addr f / 256; f_addr f mod 256; f_dlen f].
Theorem usart_layout f : wf_frame f = true ->
  to_usart f = Val (cobs_encode (header_spec f ++ firstn (N.to_nat (f_dlen f)) (f_data f))).
Proof.
  intros Hwf. destruct (wf_frame_parts f Hwf) as [Hd [Hi [Ha [Hl [Hb Hz]]]]].
  unfold to_usart. rewrite slice_val by lia. cbn [bind skipn]. unfold header, header_spec.
  rewrite hdr0_arith, !land_ff, addr_hi by assumption. reflexivity.
Qed.

(* ---------------- C04 core: the USART decoder is total; accepted frames are well-formed ---------------- *)
Theorem from_usart_total enc : bytes enc = true ->
  from_usart enc <> Panic /\ from_usart enc <> Hang /\ (forall f, from_usart enc = Val f -> wf_frame f = true /\ f_last f = f_st f).
Proof.
  intros He. unfold from_usart. destruct (cobs_decode enc) as [body|] eqn:Ed; [|repeat split; discriminate].
  pose proof (cobs_decode_bytes _ _ He Ed) as Hb.
  destruct (length body <? 5)%nat eqn:E5; [repeat split; discriminate|]. apply Nat.ltb_ge in E5.
  rewrite (idx_nth body 4) by lia. cbn [bind]. set (b4 := nth 4 body 0).
  destruct ((8 <? b4) || negb (length body =? N.to_nat b4 + 5)%nat) eqn:Eg; [repeat split; discriminate|].
  apply orb_false_elim in Eg. destruct Eg as [E8 El]. apply negb_false_iff, Nat.eqb_eq in El.
  rewrite (idx_nth body 0), (idx_nth body 1), (idx_nth body 2), (idx_nth body 3) by lia. cbn [bind].
  rewrite slice_val by lia. set (data := firstn (N.to_nat b4) (skipn 5 body)). cbn [bind].
  split; [discriminate|]. split; [discriminate|]. intros fr Hf. inversion Hf; subst fr; clear Hf. split; [|reflexivity].
  unfold wf_frame. cbn [f_dlen f_id f_addr f_data].
  pose proof (bytes_nth body 0 Hb) as H0. pose proof (bytes_nth body 1 Hb) as H1.
  pose proof (bytes_nth body 2 Hb) as H2. pose proof (bytes_nth body 3 Hb) as H3.
  assert (Hdl: length data = N.to_nat b4) by (unfold data; rewrite firstn_length, skipn_length; lia).
  assert (Hdb: bytes data = true) by (unfold data; apply bytes_firstn, bytes_skipn, Hb).
  clearbody data b4. rewrite !join16 by assumption.
  rewrite land_f.
  destruct (pad8_wf data) as [P1 [P2 P3]]; [lia|assumption|]. rewrite Hdl in P3.
  repeat (apply andb_true_intro; split); try lia; try assumption.
Qed.

(* what the decoder returns for the COBS encoding of any 5..13-byte body whose length byte matches *)
Theorem from_usart_body body : bytes body = true -> (5 <= length body <= 13)%nat -> nth 4 body 0 = N.of_nat (length body - 5) ->
  from_usart (cobs_encode body) = Val (frame_of_body body).
Proof.
  intros Hb Hl H4. unfold from_usart. rewrite cobs_roundtrip by (first [lia | destruct body; [cbn in Hl; lia|discriminate]]).
  assert (E5: (length body <? 5)%nat = false) by (apply Nat.ltb_ge; lia). rewrite E5.
  rewrite (idx_nth body 4) by lia. cbn [bind]. rewrite H4.
  assert (Eg: (8 <? N.of_nat (length body - 5)) || negb (length body =? N.to_nat (N.of_nat (length body - 5)) + 5)%nat = false).
  { apply orb_false_intro; [lia|]. apply negb_false_iff, Nat.eqb_eq. lia. }
  rewrite Eg. rewrite (idx_nth body 0), (idx_nth body 1), (idx_nth body 2), (idx_nth body 3) by lia. cbn [bind].
  rewrite slice_val by lia. cbn [bind]. unfold frame_of_body.
  pose proof (bytes_nth body 1 Hb) as H1. pose proof (bytes_nth body 3 Hb) as H3.
  rewrite !join16 by assumption. rewrite land_f, !bit_arith, H4.
  change (2 ^ 7) with 128. change (2 ^ 6) with 64. change (2 ^ 5) with 32.
  replace (firstn (N.to_nat (N.of_nat (length body - 5))) (skipn 5 body)) with (skipn 5 body)
    by (symmetry; apply firstn_all2; rewrite skipn_length; lia).
  reflexivity.
Qed.

(* a decoded body whose size disagrees with its declared data length is rejected *)
Theorem from_usart_size_mismatch body : bytes body = true -> (0 < length body)%nat -> (length body < 254)%nat ->
  ((length body < 5)%nat \/ 8 < nth 4 body 0 \/ length body <> (N.to_nat (nth 4 body 0%N) + 5)%nat) ->
  from_usart (cobs_encode body) = Fail WrongSize.
Proof.
  intros Hb Hl Hl2 H. unfold from_usart. rewrite cobs_roundtrip by (first [lia | destruct body; [cbn in Hl; lia|discriminate]]).
  destruct (length body <? 5)%nat eqn:E5; [reflexivity|]. apply Nat.ltb_ge in E5.
  rewrite (idx_nth body 4) by lia. cbn [bind].
  destruct ((8 <? nth 4 body 0) || negb (length body =? N.to_nat (nth 4 body 0%N) + 5)%nat) eqn:Eg; [reflexivity|].
  apply orb_false_elim in Eg. destruct Eg as [E8 El]. apply negb_false_iff, Nat.eqb_eq in El. lia.
Qed.
