(* The serial-port and CAN receiver automata, reduced to the same frame-level steps as USART. *)
Require Import RP.Model.Base RP.Model.Packet RP.Model.Cobs RP.Model.Frame RP.Model.Links RP.Spec.Frag RP.Spec.CanLayout
  RP.Lemmas.FrameUsart RP.Lemmas.FrameCan RP.Lemmas.Reasm RP.Lemmas.FragWf RP.Lemmas.Builder RP.Lemmas.OnFrame RP.Lemmas.LinkGeneric RP.Lemmas.LinkUsart.

(* on scripts of available bytes the serial-port receiver steps exactly like the USART receiver *)
Lemma serial_usart_bytes : forall xs ph b, run serial ph b (map SB xs) = run usart ph b (map UB xs).
Proof.
  induction xs as [|x xs IH]; intros ph b; [reflexivity|]. cbn [map run].
  assert (E: mstep serial ph b (SB x) = mstep usart ph b (UB x)) by (destruct ph; reflexivity).
  rewrite E. destruct (mstep usart ph b (UB x)) as [[r|ph'] b'].
  - change (idle serial) with UIdle. change (idle usart) with UIdle. rewrite IH. reflexivity.
  - apply IH.
Qed.

Lemma frun_srun st fs : frun st fs = srun on_frame st fs.
Proof. revert st. induction fs as [|f t IH]; intros st; [reflexivity|]. cbn [frun srun]. destruct (on_frame st f) as [st' r]. rewrite IH. reflexivity. Qed.

(* one whole link frame on the serial port *)
Lemma run_link_frame_serial body b : (length body < 256)%nat ->
  run serial UIdle b (map SB (link_frame body)) = (cons_opt' (snd (on_body b body)) [], UIdle, fst (on_body b body)).
Proof.
  intros Hl. rewrite serial_usart_bytes. rewrite <- (app_nil_r (map UB (link_frame body))). rewrite run_link_frame by exact Hl.
  unfold after. cbn [run]. destruct (on_body b body) as [b' [r|]]; reflexivity.
Qed.

Lemma run_serial_frames : forall fs st rest, Forall good_frame fs ->
  run serial UIdle st (concat (map (fun f => map SB (link_frame (enc_of f))) fs) ++ rest) =
  let '(rs1, st1) := frun st fs in let '(rs2, ph, bf) := run serial UIdle st1 rest in (rs1 ++ rs2, ph, bf).
Proof.
  intros fs st rest H. rewrite frun_srun.
  apply (run_items serial (fun f => map SB (link_frame (enc_of f))) on_frame good_frame); [|exact H].
  intros b f [Hw [_ Hl]]. destruct (enc_of_spec f Hw Hl) as [_ [Hd Hlen]].
  change (idle serial) with UIdle. rewrite run_link_frame_serial by exact Hlen. unfold on_body. rewrite Hd. reflexivity.
Qed.

(* CAN: one driver frame = one step *)
Definition can_of (f: frame) : canframe := mkCF true false (can_id_spec f) (f_dlen f) (firstn (N.to_nat (f_dlen f)) (f_data f)).
Lemma can_of_spec f : wf_frame f = true -> fragment_shaped f = true -> to_bxcan f = Val (can_of f) /\ from_bxcan (can_of f) = Val f.
Proof.
  intros Hw Hs. destruct (bxcan_roundtrip f Hw Hs) as [c [Hc [_ Hd]]]. rewrite to_bxcan_layout in Hc by assumption.
  assert (c = can_of f) by (unfold can_of; congruence). subst c. split; [apply to_bxcan_layout; assumption|exact Hd].
Qed.

Lemma run_can_frame c b : run can tt b [CF c] = (cons_opt' (snd (on_decoded b (from_bxcan c))) [], tt, fst (on_decoded b (from_bxcan c))).
Proof. cbn [run mstep can cstep]. destruct (on_decoded b (from_bxcan c)) as [b' [r|]]; reflexivity. Qed.

Lemma run_can_frames : forall fs st rest, Forall good_frame fs ->
  run can tt st (concat (map (fun f => [CF (can_of f)]) fs) ++ rest) =
  let '(rs1, st1) := frun st fs in let '(rs2, ph, bf) := run can tt st1 rest in (rs1 ++ rs2, ph, bf).
Proof.
  intros fs st rest H. rewrite frun_srun.
  apply (run_items can (fun f => [CF (can_of f)]) on_frame good_frame); [|exact H].
  intros b f [Hw [Hs _]]. destruct (can_of_spec f Hw Hs) as [_ Hd].
  change (idle can) with tt. rewrite run_can_frame. rewrite Hd. reflexivity.
Qed.
