(* The USART receiver automaton: one link frame = one on_body step; line noise is skipped; WouldBlock
   tokens anywhere change nothing but the number of 'nothing received' results. *)
Require Import RP.Model.Base RP.Model.Packet RP.Model.Cobs RP.Model.Frame RP.Model.Links RP.Spec.Frag
  RP.Lemmas.CobsLemmas RP.Lemmas.FrameUsart RP.Lemmas.Reasm RP.Lemmas.FragWf RP.Lemmas.Builder RP.Lemmas.OnFrame RP.Lemmas.LinkGeneric.

(* prepend the emission of a frame-level step to the run of the rest *)
Definition after (M: machine) (r: option builder * option res) (rest: list (tok M)) : list res * phase M * option builder :=
  let '(rs, ph, bf) := run M (idle M) (fst r) rest in (cons_opt (snd r) rs, ph, bf).

Lemma run_finish_u (r: option builder * option res) rest :
  (let '(sr, b') := finish UIdle r in
   match sr with Emit x => let '(rs, ph, bf) := run usart UIdle b' rest in (x :: rs, ph, bf) | Cont ph' => run usart ph' b' rest end)
  = after usart r rest.
Proof.
  destruct r as [b' [x|]]; unfold after; cbn [finish fst snd cons_opt idle usart]; [reflexivity|].
  destruct (run usart UIdle b' rest) as [[? ?] ?]. reflexivity.
Qed.

(* reading the body: n - |acc| more bytes complete the link frame *)
Lemma run_body : forall xs n acc b rest, xs <> [] -> (length acc + length xs = n)%nat ->
  run usart (UBody n acc) b (map UB xs ++ rest) = after usart (on_body b (acc ++ xs)) rest.
Proof.
  induction xs as [|x xs IH]; intros n acc b rest Hne Hl; [contradiction|].
  cbn [map app run]. cbn [mstep usart ustep].
  destruct xs as [|y ys].
  - assert (E: (length (acc ++ [x]) <? n)%nat = false) by (apply Nat.ltb_ge; rewrite app_length; cbn [length] in *; lia).
    rewrite E. cbn [map app]. apply run_finish_u.
  - assert (E: (length (acc ++ [x]) <? n)%nat = true) by (apply Nat.ltb_lt; rewrite app_length; cbn [length] in *; lia).
    rewrite E. rewrite IH; [|discriminate|rewrite app_length; cbn [length] in *; lia].
    rewrite <- app_assoc. reflexivity.
Qed.

(* one whole link frame from the idle phase: delimiter, length byte, body *)
Definition link_frame (body: list N) : list N := 0 :: nlen body :: body.
Lemma run_link_frame body b rest : (length body < 256)%nat ->
  run usart UIdle b (map UB (link_frame body) ++ rest) = after usart (on_body b body) rest.
Proof.
  intros Hl. unfold link_frame. cbn [map app run]. cbn [mstep usart ustep]. change (0 =? 0) with true. cbv iota.
  cbn [run]. cbn [mstep usart ustep].
  destruct body as [|x xs].
  - change (nlen [] =? 0) with true. cbv iota. apply run_finish_u.
  - assert (E: (nlen (x :: xs) =? 0) = false) by (unfold nlen; cbn [length]; lia). rewrite E.
    replace (N.to_nat (nlen (x :: xs))) with (length (x :: xs)) by (unfold nlen; lia).
    apply (run_body (x :: xs) _ [] b rest); [discriminate|reflexivity].
Qed.

(* non-zero line noise between frames is skipped *)
Lemma run_noise : forall xs b rest, Forall (fun x => x <> 0) xs -> run usart UIdle b (map UB xs ++ rest) = run usart UIdle b rest.
Proof.
  induction xs as [|x xs IH]; intros b rest H; [reflexivity|]. apply Forall_cons_iff in H. destruct H as [Hx Hxs].
  cbn [map app run]. cbn [mstep usart ustep]. assert (E: (x =? 0) = false) by lia. rewrite E. apply IH. exact Hxs.
Qed.

(* ---------- every polling schedule ---------- *)
Fixpoint bytes_of (s: list utok) : list N := match s with [] => [] | UB x :: t => x :: bytes_of t | _ :: t => bytes_of t end.
Definition no_rderr (s: list utok) := Forall (fun t => t <> UErr) s.

Theorem run_schedule_insensitive : forall s ph b, no_rderr s ->
  let '(rs, phf, bf) := run usart ph b s in
  let '(rs0, phf0, bf0) := run usart ph b (map UB (bytes_of s)) in
  filter notnone rs = filter notnone rs0 /\ phf = phf0 /\ bf = bf0.
Proof.
  induction s as [|t s IH]; intros ph b Hn.
  - cbn. auto.
  - apply Forall_cons_iff in Hn. destruct Hn as [Ht Hn]. destruct t as [x| |]; [| |contradiction].
    + cbn [bytes_of map run]. destruct (mstep usart ph b (UB x)) as [[r|ph'] b'].
      * specialize (IH UIdle b' Hn). cbn [idle usart]. destruct (run usart UIdle b' s) as [[rs phf] bf]. destruct (run usart UIdle b' (map UB (bytes_of s))) as [[rs0 phf0] bf0].
        destruct IH as [H1 [H2 H3]]. cbn [filter]. rewrite H1. auto.
      * apply IH, Hn.
    + cbn [bytes_of run]. destruct ph; cbn [mstep usart ustep].
      * specialize (IH UIdle b Hn). cbn [idle usart]. destruct (run usart UIdle b s) as [[rs phf] bf]. destruct (run usart UIdle b (map UB (bytes_of s))) as [[rs0 phf0] bf0]. cbn [filter notnone]. exact IH.
      * apply IH, Hn.
      * apply IH, Hn.
Qed.

(* ---------- frames and packets on the wire ---------- *)
(* the bytes the sender puts on the link for a list of frames (C14 ties this to try_send_packet) *)
Definition enc_of (f: frame) : list N := cobs_encode (header_spec f ++ firstn (N.to_nat (f_dlen f)) (f_data f)).
Definition wire_frames (fs: list frame) : list N := concat (map (fun f => link_frame (enc_of f)) fs).
Definition wire_packets (ps: list packet) : list N := wire_frames (concat (map frag_spec ps)).

Lemma enc_of_spec f : wf_frame f = true -> f_last f = f_st f ->
  to_usart f = Val (enc_of f) /\ from_usart (enc_of f) = Val f /\ (length (enc_of f) < 256)%nat.
Proof.
  intros Hw Hl. destruct (usart_roundtrip f Hw Hl) as [enc [He [Hd [_ Hlen]]]].
  assert (Henc: enc = enc_of f) by (rewrite usart_layout in He by assumption; unfold enc_of; congruence).
  subst enc. destruct (wf_frame_parts f Hw) as [Hd8 _]. split; [exact He|]. split; [exact Hd|lia].
Qed.

Lemma run_usart_frames : forall fs st rest, Forall good_frame fs ->
  run usart UIdle st (map UB (wire_frames fs) ++ rest) =
  let '(rs1, st1) := frun st fs in let '(rs2, ph, bf) := run usart UIdle st1 rest in (rs1 ++ rs2, ph, bf).
Proof.
  induction fs as [|f t IH]; intros st rest H.
  - cbn. destruct (run usart UIdle st rest) as [[? ?] ?]. reflexivity.
  - apply Forall_cons_iff in H. destruct H as [[Hw [_ Hl]] Ht]. destruct (enc_of_spec f Hw Hl) as [_ [Hd Hlen]].
    unfold wire_frames. cbn [map concat]. rewrite map_app, <- app_assoc. rewrite run_link_frame by exact Hlen.
    unfold after, on_body. rewrite Hd. cbn [on_decoded frun]. destruct (on_frame st f) as [st' r]. cbn [fst snd].
    fold (wire_frames t). rewrite IH by exact Ht. destruct (frun st' t) as [rs1 st1]. destruct (run usart UIdle st1 rest) as [[rs2 ph] bf].
    destruct r; reflexivity.
Qed.
