(* C07 core: what the reassembly state machine accepts, why it rejects, its invariant over any
   history of frames, and when/what it builds. *)
Require Import RP.Model.Base RP.Model.Packet RP.Lemmas.PacketLemmas RP.Lemmas.Reasm.

(* --- specification side (independent of add_frame) --- *)
Definition accepts (b: builder) (f: frame) : Prop :=
  f_ne f = negb (b_err b) /\ f_addr f = b_addr b /\ f_st f = false /\ f_mf f = true /\ f_last f = false /\
  f_id f = nlen (b_frames b) /\ f_id f < b_exp b.
Definition push_frame (b: builder) (f: frame) : builder := mkB (b_err b) (b_exp b) (b_addr b) (b_frames b ++ [f]).

Definition reject_reason_applies (b: builder) (f: frame) (r: berr) : bool :=
  match r with
  | WrongFrameType => negb (Bool.eqb (negb (f_ne f)) (b_err b))
  | DeviceAddressMismatch => negb (f_addr f =? b_addr b)
  | OutOfOrder => f_st f || f_last f || negb (f_id f =? nlen (b_frames b))
  | SingleFramePacket => negb (f_mf f)
  | TooManyFrames => b_exp b <=? f_id f
  | MissingFrames => false
  end.

Definition wf_builder (b: builder) : Prop :=
  1 <= nlen (b_frames b) /\ nlen (b_frames b) <= b_exp b /\ b_exp b <= 4096 /\ Forall (fun f => wf_frame f = true) (b_frames b).

Lemma b_count_small b : wf_builder b -> b_count b = nlen (b_frames b).
Proof. intros [H1 [H2 [H3 _]]]. unfold b_count. apply N.mod_small. lia. Qed.

Theorem add_frame_accept_iff b f : wf_builder b ->
  (accepts b f -> add_frame b f = Val (push_frame b f)) /\
  (forall b', add_frame b f = Val b' -> accepts b f /\ b' = push_frame b f).
Proof.
  intros Hwf. pose proof (b_count_small b Hwf) as Hc. destruct Hwf as [H1 [H2 [H3 H4]]]. split.
  - intros [A1 [A2 [A3 [A4 [A5 [A6 A7]]]]]]. apply add_frame_ok; try assumption; lia.
  - intros b' H. unfold add_frame in H. rewrite Hc in H.
    destruct (Bool.eqb (negb (f_ne f)) (b_err b)) eqn:E1; cbn [negb] in H; [|discriminate].
    destruct (f_addr f =? b_addr b) eqn:E2; cbn [negb] in H; [|discriminate].
    destruct (f_st f) eqn:E3; [discriminate|].
    destruct (f_mf f) eqn:E4; cbn [negb] in H; [|discriminate].
    destruct (f_last f) eqn:E5; [discriminate|].
    destruct (f_id f =? nlen (b_frames b)) eqn:E6; cbn [negb] in H; [|discriminate].
    destruct (b_exp b <=? f_id f) eqn:E7; [discriminate|].
    inversion H; subst b'. split; [|reflexivity]. apply eqb_prop in E1.
    unfold accepts. repeat split; try assumption; try lia.
    destruct (f_ne f), (b_err b); cbn in *; congruence.
Qed.

Theorem add_frame_reject_reason b f r : wf_builder b -> add_frame b f = Fail r -> reject_reason_applies b f r = true.
Proof.
  intros Hwf H. pose proof (b_count_small b Hwf) as Hc. unfold add_frame in H. rewrite Hc in H.
  destruct (Bool.eqb (negb (f_ne f)) (b_err b)) eqn:E1; cbn [negb] in H; [|inversion H; subst; cbn; rewrite E1; reflexivity].
  destruct (f_addr f =? b_addr b) eqn:E2; cbn [negb] in H; [|inversion H; subst; cbn; rewrite E2; reflexivity].
  destruct (f_st f) eqn:E3; [inversion H; subst; cbn; rewrite E3; reflexivity|].
  destruct (f_mf f) eqn:E4; cbn [negb] in H; [|inversion H; subst; cbn; rewrite E4; reflexivity].
  destruct (f_last f) eqn:E5; [inversion H; subst; cbn; rewrite E3, E5; reflexivity|].
  destruct (f_id f =? nlen (b_frames b)) eqn:E6; cbn [negb] in H; [|inversion H; subst; cbn; rewrite E3, E5, E6; reflexivity].
  destruct (b_exp b <=? f_id f) eqn:E7; [inversion H; subst; cbn; exact E7|discriminate].
Qed.

Theorem add_frame_no_panic b f : add_frame b f <> Panic /\ add_frame b f <> Hang.
Proof. unfold add_frame. repeat match goal with |- context [if ?c then _ else _] => destruct c end; split; discriminate. Qed.

(* --- histories: offer any sequence of frames, rejected ones leave the state unchanged --- *)
Definition offer (b: builder) (f: frame) : builder := match add_frame b f with Val b' => b' | _ => b end.
Definition offers (b: builder) (fs: list frame) : builder := fold_left offer fs b.

Lemma offer_wf b f : wf_builder b -> wf_frame f = true -> wf_builder (offer b f).
Proof.
  intros Hwf Hf. unfold offer. destruct (add_frame b f) as [b'| | |] eqn:E; try exact Hwf.
  destruct (proj2 (add_frame_accept_iff b f Hwf) b' E) as [[A1 [A2 [A3 [A4 [A5 [A6 A7]]]]]] ->].
  destruct Hwf as [H1 [H2 [H3 H4]]]. unfold wf_builder, push_frame, nlen in *. cbn [b_frames b_exp].
  rewrite app_length. cbn [length]. repeat split; try lia. apply Forall_app. split; [assumption|]. constructor; [assumption|constructor].
Qed.

Theorem offers_wf fs : forall b, wf_builder b -> Forall (fun f => wf_frame f = true) fs -> wf_builder (offers b fs).
Proof.
  induction fs as [|f t IH]; intros b Hb Hfs; [exact Hb|]. apply Forall_cons_iff in Hfs. destruct Hfs as [Hf Ht].
  cbn [offers fold_left]. apply IH; [apply offer_wf; assumption|assumption].
Qed.

Theorem builder_new_spec f :
  (forall b, builder_new f = Val b -> f_st f = true /\ f_last f = true /\ b = mkB (negb (f_ne f)) (f_id f + 1) (f_addr f) [f]) /\
  (f_st f = true -> f_last f = true -> f_id f < 4096 -> builder_new f = Val (mkB (negb (f_ne f)) (f_id f + 1) (f_addr f) [f])) /\
  (forall r, builder_new f = Fail r -> r = OutOfOrder /\ (f_st f = false \/ f_last f = false)).
Proof.
  unfold builder_new. repeat split.
  - destruct (f_st f); cbn [negb] in *; [reflexivity|discriminate].
  - destruct (f_st f); cbn [negb] in *; [|discriminate]. destruct (f_last f); [reflexivity|discriminate].
  - destruct (f_st f); cbn [negb] in *; [|discriminate]. destruct (f_last f); [|discriminate].
    destruct (f_id f + 1 <? 65536); [inversion H; reflexivity|discriminate].
  - intros -> -> Hi. cbn [negb]. assert (E: (f_id f + 1 <? 65536) = true) by lia. rewrite E. reflexivity.
  - destruct (f_st f); cbn [negb] in *; [|inversion H; reflexivity]. destruct (f_last f); [|inversion H; reflexivity].
    destruct (f_id f + 1 <? 65536); discriminate.
  - destruct (f_st f); cbn [negb] in *; [|left; reflexivity]. destruct (f_last f); [|right; reflexivity].
    destruct (f_id f + 1 <? 65536); discriminate.
Qed.

Lemma builder_new_wf f b : wf_frame f = true -> builder_new f = Val b -> wf_builder b.
Proof.
  intros Hf H. destruct (proj1 (builder_new_spec f) b H) as [_ [_ ->]].
  unfold wf_frame in Hf. repeat (apply andb_prop in Hf; destruct Hf as [Hf ?]).
  unfold wf_builder, nlen. cbn [b_frames b_exp length]. repeat split; try lia.
  constructor; [|constructor]. unfold wf_frame. repeat (apply andb_true_intro; split); assumption.
Qed.

(* accounting: accepted + remaining = announced, no underflow *)
Theorem frames_left_spec b : wf_builder b -> frames_left b = Val (b_exp b - nlen (b_frames b)) /\ nlen (b_frames b) + (b_exp b - nlen (b_frames b)) = b_exp b.
Proof.
  intros Hwf. pose proof (b_count_small b Hwf) as Hc. destruct Hwf as [H1 [H2 [H3 H4]]].
  unfold frames_left. rewrite Hc. assert (E: (b_exp b <? nlen (b_frames b)) = false) by lia. rewrite E. split; [reflexivity|lia].
Qed.

Lemma payload_wf f : wf_frame f = true ->
  payload f = Val (firstn (N.to_nat (f_dlen f) - (if f_mf f then 1 else 0)) (skipn (if f_mf f then 1 else 0) (f_data f))).
Proof.
  intros Hf. unfold wf_frame in Hf. repeat (apply andb_prop in Hf; destruct Hf as [Hf ?]).
  unfold payload. apply slice_val. destruct (f_mf f); lia.
Qed.
Definition payload_of (f: frame) : list N :=
  firstn (N.to_nat (f_dlen f) - (if f_mf f then 1 else 0)) (skipn (if f_mf f then 1 else 0) (f_data f)).

(* completion only with exactly the announced number of frames; payload = in-order concatenation *)
Theorem build_spec b : wf_builder b ->
  (nlen (b_frames b) = b_exp b -> build b = Val (mkP (b_err b) (b_addr b) (concat (map payload_of (b_frames b))))) /\
  (nlen (b_frames b) <> b_exp b -> build b = Fail MissingFrames).
Proof.
  intros [H1 [H2 [H3 H4]]]. unfold build, nlen in *. split; intros H.
  - assert (E: (length (b_frames b) =? N.to_nat (b_exp b))%nat = true) by (apply Nat.eqb_eq; lia). rewrite E. cbn [negb].
    rewrite (mapM_ext_val _ payload_of); [reflexivity|]. intros f Hf. rewrite Forall_forall in H4. apply payload_wf, H4, Hf.
  - assert (E: (length (b_frames b) =? N.to_nat (b_exp b))%nat = false) by (apply Nat.eqb_neq; lia). rewrite E. reflexivity.
Qed.
