Require Import RP.Model.Base RP.Model.Packet RP.Spec.Frag RP.Lemmas.PacketLemmas.

Definition feed (b: builder) (fs: list frame) : out builder berr :=
  fold_left (fun ob f => do b' <- ob; add_frame b' f) fs (Val b).

Lemma feed_cons b f fs : feed b (f :: fs) = do b' <- add_frame b f; feed b' fs.
Proof.
  unfold feed. cbn [fold_left bind]. destruct (add_frame b f) as [b'| e | |]; cbn [bind]; try reflexivity;
  induction fs as [|g gs IH]; cbn [fold_left bind]; auto.
Qed.

(* the i-th frame of a multi-frame fragmentation, given the chunk list *)
Definition mframe (p: packet) (m: nat) (cs: list (list N)) (i: nat) : frame :=
  let c := nth i cs [] in
  mkF (negb (p_err p)) (i =? 0)%nat true (i =? 0)%nat
      (if (i =? 0)%nat then N.of_nat (m - 1) else N.of_nat i) (p_addr p) (nlen c + 1)
      (pad8 ((if (i =? 0)%nat then N.of_nat (m - 1) mod 256 else N.of_nat i mod 256) :: c)).

Lemma frag_spec_multi p : (8 < length (p_data p))%nat ->
  let cs := chunks7 (length (p_data p)) (p_data p) in
  frag_spec p = map (mframe p (length cs) cs) (seq 0 (length cs)).
Proof.
  intros H cs. unfold frag_spec. destruct (length (p_data p) <=? 8)%nat eqn:E; [apply Nat.leb_le in E; lia|].
  fold cs. rewrite (combine_seq_nth cs []), map_map. reflexivity.
Qed.

Lemma add_frame_ok b f :
  f_ne f = negb (b_err b) -> f_addr f = b_addr b -> f_st f = false -> f_mf f = true -> f_last f = false ->
  f_id f = nlen (b_frames b) -> nlen (b_frames b) < b_exp b -> b_exp b <= 65536 ->
  add_frame b f = Val (mkB (b_err b) (b_exp b) (b_addr b) (b_frames b ++ [f])).
Proof.
  intros H1 H2 H3 H4 H5 H6 H7 H8. unfold add_frame. rewrite H1, H2, H3, H4, H5, H6.
  rewrite negb_involutive, Bool.eqb_reflx, N.eqb_refl. cbn [negb]. unfold b_count.
  assert (E1: (nlen (b_frames b) =? nlen (b_frames b) mod 65536) = true) by lia. rewrite E1. cbn [negb].
  assert (E2: (b_exp b <=? nlen (b_frames b)) = false) by lia. rewrite E2. reflexivity.
Qed.

Definition MB (p: packet) (m: nat) (cs: list (list N)) (k: nat) : builder :=
  mkB (p_err p) (N.of_nat m) (p_addr p) (map (mframe p m cs) (seq 0 k)).

Lemma add_frame_MB p m cs a : (1 <= a < m)%nat -> N.of_nat m <= 4096 ->
  add_frame (MB p m cs a) (mframe p m cs a) = Val (MB p m cs (S a)).
Proof.
  intros Ha Hm. assert (E0: (a =? 0)%nat = false) by (apply Nat.eqb_neq; lia).
  rewrite add_frame_ok.
  - unfold MB. cbn [b_err b_exp b_addr b_frames]. rewrite seq_S, map_app. reflexivity.
  - reflexivity.
  - reflexivity.
  - unfold mframe. cbn [f_st]. exact E0.
  - reflexivity.
  - unfold mframe. cbn [f_last]. exact E0.
  - unfold mframe, MB, nlen. cbn [f_id b_frames]. rewrite E0, map_length, seq_length. reflexivity.
  - unfold MB, nlen. cbn [b_frames b_exp]. rewrite map_length, seq_length. lia.
  - unfold MB. cbn [b_exp]. lia.
Qed.

Lemma frames_left_MB p m cs a : (a <= m)%nat -> N.of_nat m <= 4096 -> frames_left (MB p m cs a) = Val (N.of_nat (m - a)).
Proof.
  intros Ha Hm. unfold frames_left, b_count, nlen, MB. cbn [b_frames b_exp]. rewrite map_length, seq_length.
  assert (E: (N.of_nat m <? N.of_nat a mod 65536) = false) by lia. rewrite E. f_equal. lia.
Qed.

Lemma builder_new_MB p m cs : (1 <= m)%nat -> N.of_nat m <= 4096 -> builder_new (mframe p m cs 0) = Val (MB p m cs 1).
Proof.
  intros H1 Hm. unfold builder_new, mframe, MB. cbn [f_st f_last f_id f_ne f_addr Nat.eqb negb seq map].
  assert (E: (N.of_nat (m - 1) + 1 <? 65536) = true) by lia. rewrite E.
  replace (N.of_nat (m - 1) + 1) with (N.of_nat m) by lia. rewrite negb_involutive. reflexivity.
Qed.

Lemma feed_multi p m cs : N.of_nat m <= 4096 -> forall k a, (1 <= a)%nat -> (a + k <= m)%nat ->
  feed (MB p m cs a) (map (mframe p m cs) (seq a k)) = Val (MB p m cs (a + k)).
Proof.
  intros Hm. induction k as [|k IH]; intros a Ha Hk.
  - cbn. rewrite Nat.add_0_r. reflexivity.
  - cbn [seq map]. rewrite feed_cons, add_frame_MB by lia. cbn [bind]. rewrite IH by lia. f_equal. f_equal. lia.
Qed.

Lemma pad8_firstn l : (length l <= 8)%nat -> firstn (length l) (pad8 l) = l.
Proof. intros H. unfold pad8. rewrite firstn_app, Nat.sub_diag, firstn_all. cbn. apply app_nil_r. Qed.

Lemma payload_mframe p m cs i : (length (nth i cs []) <= 7)%nat -> payload (mframe p m cs i) = Val (nth i cs []).
Proof.
  intros H. unfold payload, mframe. cbn [f_mf f_dlen f_data].
  set (c := nth i cs []) in *. set (idb := if (i =? 0)%nat then _ else _).
  replace (N.to_nat (nlen c + 1) - 1)%nat with (length c) by (unfold nlen; lia).
  rewrite slice_val by (unfold pad8; rewrite app_length, repeat_length; cbn [length]; lia).
  cbn [skipn pad8 app]. f_equal.
  change ((idb :: c) ++ repeat 0 (8 - length (idb :: c))) with (idb :: (c ++ repeat 0 (8 - length (idb :: c)))).
  cbn [skipn]. rewrite firstn_app, Nat.sub_diag, firstn_all. cbn. apply app_nil_r.
Qed.

Lemma build_MB p m cs : cs = chunks7 (length (p_data p)) (p_data p) -> m = length cs -> (1 <= m)%nat ->
  build (MB p m cs m) = Val (mkP (p_err p) (p_addr p) (p_data p)).
Proof.
  intros Hcs Hm H1. unfold build, MB. cbn [b_frames b_exp b_err b_addr]. rewrite map_length, seq_length, Nnat.Nat2N.id.
  rewrite Nat.eqb_refl. cbn [negb].
  rewrite mapM_map. rewrite (mapM_ext_val _ (fun i => nth i cs [])).
  - cbn [bind]. f_equal. f_equal.
    assert (Hc: map (fun i => nth i cs []) (seq 0 m) = cs).
    { rewrite Hm. clear. induction cs as [|c t IH]; [reflexivity|]. cbn [length seq map nth]. f_equal.
      rewrite <- seq_shift, map_map. exact IH. }
    rewrite Hc, Hcs. apply chunks7_concat. lia.
  - intros i Hi. apply in_seq in Hi.
    rewrite payload_mframe; [reflexivity|].
    assert (Hl: length cs = ((length (p_data p) + 6) / 7)%nat) by (rewrite Hcs; apply chunks7_length; lia).
    rewrite Hcs, chunks7_nth by lia. rewrite firstn_length. lia.
Qed.

Lemma seq_head m : (1 <= m)%nat -> seq 0 m = 0%nat :: seq 1 (m - 1).
Proof. intros H. destruct m; [lia|]. cbn [seq]. replace (S m - 1)%nat with m by lia. reflexivity. Qed.

(* single-frame packets *)
Definition sframe (p: packet) : frame := mkF (negb (p_err p)) true false true 0 (p_addr p) (nlen (p_data p)) (pad8 (p_data p)).
Lemma frag_spec_single p : (length (p_data p) <= 8)%nat -> frag_spec p = [sframe p].
Proof. intros H. unfold frag_spec. destruct (length (p_data p) <=? 8)%nat eqn:E; [reflexivity|apply Nat.leb_gt in E; lia]. Qed.

Definition same_packet (p: packet) : packet := mkP (p_err p) (p_addr p) (p_data p).
Lemma same_packet_eq p : same_packet p = p. Proof. destruct p; reflexivity. Qed.

(* the builder states passed through while feeding the frames of p in order: after the start frame
   and after each continuation; completion (frames_left = 0) exactly at the last one *)
Fixpoint feed_trace (b: builder) (fs: list frame) : out (list builder) berr :=
  match fs with
  | [] => Val []
  | f :: t => do b' <- add_frame b f; do rest <- feed_trace b' t; Val (b' :: rest)
  end.

Lemma feed_trace_multi p m cs : N.of_nat m <= 4096 -> forall k a, (1 <= a)%nat -> (a + k <= m)%nat ->
  feed_trace (MB p m cs a) (map (mframe p m cs) (seq a k)) = Val (map (MB p m cs) (seq (S a) k)).
Proof.
  intros Hm. induction k as [|k IH]; intros a Ha Hk; [reflexivity|].
  cbn [seq map feed_trace]. rewrite add_frame_MB by lia. cbn [bind]. rewrite IH by lia. reflexivity.
Qed.

Lemma reasm_direct' p : small p ->
  exists f0 rest b0 bs, frag_spec p = f0 :: rest /\ builder_new f0 = Val b0 /\ feed_trace b0 rest = Val bs /\
    (* not complete before the last frame *)
    (forall b, In b (removelast (b0 :: bs)) -> exists n, frames_left b = Val n /\ 0 < n /\ build b = Fail MissingFrames) /\
    (* complete exactly at the last frame, and the packet is the original *)
    frames_left (last (b0 :: bs) b0) = Val 0 /\ build (last (b0 :: bs) b0) = Val (same_packet p).
Proof.
  intros Hs. unfold small in Hs. unfold same_packet.
  set (d := p_data p) in *. set (n := length d) in *.
  assert (Hn: N.of_nat n <= 28672) by (subst n; lia).
  destruct (le_gt_dec n 8) as [H8|H8].
  - rewrite frag_spec_single by (fold d; fold n; lia).
    exists (sframe p), [], (mkB (p_err p) 1 (p_addr p) [sframe p]), [].
    split; [reflexivity|]. split; [|split; [reflexivity|split; [|split]]].
    + unfold builder_new, sframe. cbn [f_st f_last f_id f_ne f_addr negb]. change (0 + 1) with 1.
      rewrite negb_involutive. reflexivity.
    + cbn [removelast]. intros b [].
    + reflexivity.
    + cbn [last]. unfold build. cbn [b_frames length b_exp b_err b_addr]. change (N.to_nat 1) with 1%nat. cbn [Nat.eqb negb mapM].
      unfold payload, sframe. cbn [f_mf f_dlen f_data]. fold d. unfold nlen. fold n. rewrite Nat.sub_0_r, Nnat.Nat2N.id.
      rewrite slice_val by (unfold pad8; rewrite app_length; fold n; lia). cbn [skipn bind].
      subst n. rewrite pad8_firstn by lia. cbn [concat]. rewrite app_nil_r. reflexivity.
  - rewrite frag_spec_multi by (fold d; fold n; lia). fold d. fold n.
    set (cs := chunks7 n d). assert (Hlen: length cs = ((n + 6) / 7)%nat) by (apply chunks7_length; subst n; lia).
    set (m := length cs) in *. assert (Hm2: (2 <= m)%nat /\ N.of_nat m <= 4096) by lia.
    rewrite (seq_head m) by lia. cbn [map].
    exists (mframe p m cs 0), (map (mframe p m cs) (seq 1 (m - 1))), (MB p m cs 1), (map (MB p m cs) (seq 2 (m - 1))).
    split; [reflexivity|]. split; [apply builder_new_MB; lia|]. split; [apply (feed_trace_multi p m cs); lia|].
    assert (Hall: MB p m cs 1 :: map (MB p m cs) (seq 2 (m - 1)) = map (MB p m cs) (seq 1 m)).
    { destruct m as [|m']; [lia|]. cbn [seq map]. replace (S m' - 1)%nat with m' by lia. reflexivity. }
    rewrite Hall.
    assert (Hsplit: seq 1 m = seq 1 (m - 1) ++ [m]).
    { replace m with (S (m - 1)) at 1 by lia. rewrite seq_S. f_equal. f_equal. lia. }
    rewrite Hsplit, map_app. cbn [map]. split; [|split].
    + rewrite removelast_last. intros b Hb. apply in_map_iff in Hb. destruct Hb as [a [<- Ha]]. apply in_seq in Ha.
      exists (N.of_nat (m - a)). split; [apply frames_left_MB; lia|]. split; [lia|].
      unfold build, MB. cbn [b_frames b_exp]. rewrite map_length, seq_length, Nnat.Nat2N.id.
      assert (E: (a =? m)%nat = false) by (apply Nat.eqb_neq; lia). rewrite E. reflexivity.
    + rewrite last_last. rewrite frames_left_MB by lia. f_equal. lia.
    + rewrite last_last. apply build_MB; try lia. reflexivity.
Qed.

Theorem reasm_direct p : small p ->
  exists f0 rest b0 bs, frag_spec p = f0 :: rest /\ builder_new f0 = Val b0 /\ feed_trace b0 rest = Val bs /\
    (forall b, In b (removelast (b0 :: bs)) -> exists n, frames_left b = Val n /\ 0 < n /\ build b = Fail MissingFrames) /\
    frames_left (last (b0 :: bs) b0) = Val 0 /\ build (last (b0 :: bs) b0) = Val p.
Proof. intros Hs. pose proof (reasm_direct' p Hs) as H. rewrite same_packet_eq in H. exact H. Qed.
