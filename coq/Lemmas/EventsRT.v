Require Import RP.Model.Base RP.Model.Packet RP.Model.Events.

Lemma be16_rt x : x < 65536 -> x / 256 mod 256 * 256 + x mod 256 = x. Proof. lia. Qed.
Lemma be32_rt x : x < 4294967296 -> ((x / 16777216 mod 256 * 256 + x / 65536 mod 256) * 256 + x / 256 mod 256) * 256 + x mod 256 = x. Proof. lia. Qed.

Ltac bools := repeat match goal with H: (_ && _) = true |- _ => apply andb_prop in H; destruct H end;
              unfold u8, u16, u32 in *.
Ltac crunch :=
  unfold decode, encode, pre, eqn, gen, pk, u16_at, u32_at, u8_at, u16_ne_at, u32_ne_at, slice, idx,
         bcm_de, relay_de, msg_de, bcm_ser, relay_ser, msg_ser, ne32, ne16;
  cbn [p_data p_err p_addr app be16 be32 length Nat.eqb Nat.ltb negb Nat.add Nat.leb skipn firstn bind nth_error recv_of kind_of code];
  rewrite ?be16_rt, ?be32_rt by lia;
  cbn [code]; rewrite ?N.eqb_refl; cbn [negb bind].

Lemma bcm_rt v : wf_bcm v = true -> bcm_de (bcm_ser v) = Val v.
Proof.
  intros H.
  destruct v; cbn [wf_bcm] in H; bools; unfold bcm_de, bcm_ser, idx; cbn [length Nat.ltb Nat.leb Nat.eqb negb nth_error bind]; try reflexivity.
  destruct b; reflexivity.
Qed.

Lemma relay_rt v : relay_de (relay_ser v) = Val v.
Proof. destruct v as [[|]| | |]; reflexivity. Qed.

Lemma msg_rt v hd : wf_msg v = true -> length hd = 6%nat -> msg_de (hd ++ msg_ser v) = Val v.
Proof.
  intros H Hl. do 7 (destruct hd as [|? hd]; try discriminate). clear Hl.
  destruct v; cbn [wf_msg] in H; unfold u8, u16, u32 in H;
  unfold msg_de, msg_ser, u32_ne_at, u16_ne_at, slice, idx, ne32, ne16;
  cbn [app length Nat.add Nat.leb skipn firstn bind nth_error].
  - change (((0 / 16777216 mod 256 * 256 + 0 / 65536 mod 256) * 256 + 0 / 256 mod 256) * 256 + 0 mod 256) with 0. reflexivity.
  - change (((1 / 16777216 mod 256 * 256 + 1 / 65536 mod 256) * 256 + 1 / 256 mod 256) * 256 + 1 mod 256) with 1.
    cbv iota beta. cbn [bind]. rewrite be16_rt by lia. reflexivity.
  - change (((2 / 16777216 mod 256 * 256 + 2 / 65536 mod 256) * 256 + 2 / 256 mod 256) * 256 + 2 mod 256) with 2.
    cbv iota beta. cbn [bind]. rewrite be32_rt by lia. reflexivity.
  - change (((3 / 16777216 mod 256 * 256 + 3 / 65536 mod 256) * 256 + 3 / 256 mod 256) * 256 + 3 mod 256) with 3.
    cbv iota beta. cbn [bind]. destruct b; reflexivity.
Qed.

Theorem roundtrip e : wf_event e = true ->
  decode (kind_of e) (encode e) = Val e /\ p_err (encode e) = false /\ p_addr (encode e) = recv_of e.
Proof.
  intros H. destruct e; cbn [wf_event] in H; bools.
  - crunch. auto.
  - crunch. auto.
  - crunch. auto.
  - crunch. auto.
  - (* Data *)
    match goal with Hq: (N.of_nat _ =? _) = true |- _ => apply N.eqb_eq in Hq end.
    unfold decode, encode, pre, gen, pk, u16_at, slice. cbn [p_data p_err p_addr kind_of recv_of].
    rewrite !app_length. cbn [be16 length].
    assert (E6: (6 <=? 2 + (2 + (2 + length data)))%nat = true) by (apply Nat.leb_le; lia). rewrite E6. cbn [negb].
    assert (E2: (0 + 2 <=? 2 + (2 + (2 + length data)))%nat = true) by (apply Nat.leb_le; lia). rewrite E2.
    cbn [be16 app skipn firstn bind]. rewrite be16_rt by lia. cbn [code]. rewrite N.eqb_refl. cbn [negb].
    assert (E4: (2 + 2 <=? 2 + (2 + (2 + length data)))%nat = true) by (apply Nat.leb_le; lia). rewrite E4.
    cbn [skipn firstn bind]. rewrite be16_rt by lia.
    assert (E46: (4 + 2 <=? 2 + (2 + (2 + length data)))%nat = true) by (apply Nat.leb_le; lia). rewrite E46.
    cbn [skipn firstn bind]. rewrite be16_rt by lia.
    assert (El: (2 + (2 + (2 + length data)) =? N.to_nat data_len + 6)%nat = true) by (apply Nat.eqb_eq; lia). rewrite El. cbn [negb].
    assert (E7: (6 + N.to_nat data_len <=? 2 + (2 + (2 + length data)))%nat = true) by (apply Nat.leb_le; lia). rewrite E7.
    cbn [skipn bind].
    replace (N.to_nat data_len) with (length data) by lia. rewrite firstn_all. auto.
  - crunch. auto.
  - (* BcmChange *)
    unfold decode, encode, pre, gen, pk, u16_at, u8_at, slice, idx.
    cbn [p_data p_err p_addr kind_of recv_of]. rewrite !app_length. cbn [be16 length].
    assert (E7: (7 <=? 2 + (2 + (1 + length (bcm_ser value))))%nat = true) by (apply Nat.leb_le; destruct value; cbn; lia). rewrite E7. cbn [negb].
    assert (E2: (0 + 2 <=? 2 + (2 + (1 + length (bcm_ser value))))%nat = true) by (apply Nat.leb_le; lia). rewrite E2.
    assert (E4: (2 + 2 <=? 2 + (2 + (1 + length (bcm_ser value))))%nat = true) by (apply Nat.leb_le; lia). rewrite E4.
    cbn [be16 be32 app skipn firstn bind nth_error]. rewrite !be16_rt by lia. cbn [code]. rewrite N.eqb_refl. cbn [negb bind].
    rewrite bcm_rt by auto. auto.
  - crunch. auto.
  - crunch. auto.
  - crunch. auto.
  - crunch. auto.
  - crunch. auto.
  - (* Message *)
    unfold decode, encode, pre, eqn, pk, u16_at, slice.
    cbn [p_data p_err p_addr kind_of recv_of]. rewrite !app_length. cbn [be16 length].
    assert (Hm: length (msg_ser value) = 8%nat) by (destruct value; reflexivity). rewrite Hm.
    cbn [be16 be32 Nat.add Nat.eqb negb Nat.leb app skipn firstn bind]. rewrite !be16_rt by lia. cbn [code]. rewrite N.eqb_refl. cbn [negb bind].
    change (?a :: ?b :: ?c :: ?d :: ?e :: ?f :: msg_ser value) with ([a;b;c;d;e;f] ++ msg_ser value).
    rewrite msg_rt by auto. auto.
  - (* BcmAnimate *)
    unfold decode, encode, pre, gen, pk, u16_at, u32_at, u8_at, slice, idx.
    cbn [p_data p_err p_addr kind_of recv_of]. rewrite !app_length. cbn [be16 be32 length].
    assert (L2: (2 <= length (bcm_ser target))%nat) by (destruct target; cbn; lia).
    assert (E11: (11 <=? 2 + (2 + (1 + (4 + length (bcm_ser target)))))%nat = true) by (apply Nat.leb_le; lia). rewrite E11. cbn [negb].
    assert (E2: (0 + 2 <=? 2 + (2 + (1 + (4 + length (bcm_ser target)))))%nat = true) by (apply Nat.leb_le; lia). rewrite E2.
    assert (E4: (2 + 2 <=? 2 + (2 + (1 + (4 + length (bcm_ser target)))))%nat = true) by (apply Nat.leb_le; lia). rewrite E4.
    assert (E9: (5 + 4 <=? 2 + (2 + (1 + (4 + length (bcm_ser target)))))%nat = true) by (apply Nat.leb_le; lia). rewrite E9.
    cbn [be16 be32 app skipn firstn bind nth_error]. rewrite !be16_rt, be32_rt by lia. cbn [code]. rewrite N.eqb_refl. cbn [negb bind].
    rewrite bcm_rt by auto. auto.
  - (* RelaySet *)
    unfold decode, encode, pre, eqn, pk, u16_at, u8_at, slice, idx.
    cbn [p_data p_err p_addr kind_of recv_of]. rewrite !app_length. cbn [be16 length].
    assert (Hr: length (relay_ser value) = 1%nat) by (destruct value; reflexivity). rewrite Hr.
    cbn [be16 be32 Nat.add Nat.eqb negb Nat.leb app skipn firstn bind nth_error]. rewrite !be16_rt by lia. cbn [code]. rewrite N.eqb_refl. cbn [negb bind].
    rewrite relay_rt. auto.
  - crunch. auto.
Qed.
