Require Import RP.Model.Base RP.Model.Packet RP.Model.Events RP.Spec.EventLayout RP.Lemmas.EventsRT.

(* what passing the common preamble means *)
Lemma pre_val {A} size_ok k p (body: out A cerr) v : pre size_ok k p body = Val v ->
  size_ok (length (p_data p)) = true /\ p_err p = false /\ (u16_at (p_data p) 0 = Val (code k)) /\ body = Val v.
Proof.
  unfold pre. intros H. destruct (size_ok (length (p_data p))); [|discriminate]. cbn [negb] in H.
  destruct (p_err p); [discriminate|]. destruct (u16_at (p_data p) 0) as [c| | |] eqn:Ec; try discriminate. cbn [bind] in H.
  destruct (c =? code k) eqn:E; [|discriminate]. apply N.eqb_eq in E. subst c. auto.
Qed.

Lemma decode_is_pre k p : exists size_ok (body: out event cerr), decode k p = pre size_ok k p body.
Proof. destruct k; cbn [decode]; eauto. Qed.

Lemma code_inj k1 k2 : code k1 = code k2 -> k1 = k2.
Proof. destruct k1, k2; cbn [code]; intros H; try reflexivity; discriminate. Qed.

(* C12: at most one kind accepts a packet *)
Theorem unique_kind k1 k2 p e1 e2 : decode k1 p = Val e1 -> decode k2 p = Val e2 -> k1 = k2.
Proof.
  intros H1 H2. destruct (decode_is_pre k1 p) as [s1 [b1 E1]]. destruct (decode_is_pre k2 p) as [s2 [b2 E2]].
  rewrite E1 in H1. rewrite E2 in H2. apply pre_val in H1. apply pre_val in H2.
  destruct H1 as [_ [_ [C1 _]]]. destruct H2 as [_ [_ [C2 _]]]. rewrite C1 in C2. inversion C2. apply code_inj. assumption.
Qed.

(* ... and the encoding of an event is rejected (with an error value) by every other kind's decoder *)
Lemma u16_at_val d i : (i + 2 <= length d)%nat -> exists v, u16_at d i = Val v.
Proof.
  intros H. unfold u16_at, slice. destruct (i + 2 <=? length d)%nat eqn:E; [|apply Nat.leb_gt in E; lia]. cbn [bind].
  assert (Hl: length (firstn 2 (skipn i d)) = 2%nat) by (rewrite firstn_length, skipn_length; lia).
  destruct (firstn 2 (skipn i d)) as [|a [|b [|c t]]]; cbn in Hl; try lia. eauto.
Qed.

Lemma encode_code e : wf_event e = true -> exists t, p_data (encode e) = 0 :: code (kind_of e) :: t.
Proof.
  intros H. destruct e; cbn [encode pk p_data be16 app kind_of code]; eexists; reflexivity.
Qed.

Theorem cross_rejected e k : wf_event e = true -> k <> kind_of e -> exists r, decode k (encode e) = Fail r.
Proof.
  intros Hw Hk. destruct (encode_code e Hw) as [t Ht].
  destruct (decode_is_pre k (encode e)) as [so [body E]]. rewrite E. unfold pre. rewrite Ht.
  destruct (so (length (0 :: code (kind_of e) :: t))); cbn [negb]; [|eauto].
  assert (Hpe: p_err (encode e) = false) by (destruct e; reflexivity). rewrite Hpe.
  unfold u16_at, slice. cbn [length Nat.add Nat.leb skipn firstn bind].
  assert (Hc: (0 * 256 + code (kind_of e) =? code k) = false).
  { apply N.eqb_neq. intros Hc. apply Hk. apply code_inj. lia. }
  rewrite Hc. cbn [negb]. eauto.
Qed.

(* the first size guard of every decoder, as a table (tied to the source by Generated/TieGuards.v) *)
Definition size_guard (k: kind) : bool * nat :=
  match k with
  | KBootloaderHello | KProgrammerHello | KAck | KGatewayDiscover => (true, 4%nat)
  | KStartFirmware | KStartConfig => (true, 8%nat)
  | KConfiguratorHello | KSystemTick => (true, 2%nat)
  | KButtonPressed | KButtonReleased => (true, 5%nat)
  | KSetAddress | KRelaySet => (true, 6%nat)
  | KMessage => (true, 14%nat)
  | KData => (false, 6%nat) | KBcmChange => (false, 7%nat) | KBcmAnimate => (false, 11%nat)
  end.
Definition guard_fn (g: bool * nat) : nat -> bool := if fst g then eqn (snd g) else gen (snd g).
Lemma decode_guard k p : exists body: out event cerr, decode k p = pre (guard_fn (size_guard k)) k p body.
Proof. destruct k; cbn [decode size_guard guard_fn fst snd]; eauto. Qed.
