(* C05 core: for every kind and every well-formed packet the decoder returns a value or an error
   (never Panic/Hang); a value is returned only for a non-error packet with the kind's code and
   exactly the layout's length, is in the domain, and is stable under re-encoding; a reported
   rejection reason truly applies. *)
Require Import RP.Model.Base RP.Model.Packet RP.Model.Events RP.Spec.EventLayout RP.Lemmas.EventsRT RP.Lemmas.EventsLayout.

Definition exact (k: kind) (p: packet) : Prop :=
  decode k p <> Panic /\ decode k p <> Hang /\
  (forall e, decode k p = Val e ->
     wf_event e = true /\ kind_of e = k /\ p_err p = false /\ code_of p = Some (code k) /\
     length (p_data p) = layout_len e /\ tag_unknown k p = false /\ decode k (encode e) = Val e) /\
  (forall r, decode k p = Fail r -> reason_applies k r p = true).

Lemma exact_fail k p r : decode k p = Fail r -> reason_applies k r p = true -> exact k p.
Proof.
  intros H Hr. unfold exact. rewrite H. split; [discriminate|]. split; [discriminate|]. split; [intros; discriminate|].
  intros r' Hr'. inversion Hr'; subst. exact Hr.
Qed.

Lemma exact_val k p e : decode k p = Val e ->
  wf_event e = true -> kind_of e = k -> p_err p = false -> code_of p = Some (code k) -> length (p_data p) = layout_len e ->
  tag_unknown k p = false -> exact k p.
Proof.
  intros H Hw Hk He Hc Hl Ht. unfold exact. rewrite H. split; [discriminate|]. split; [discriminate|]. split; [|intros; discriminate].
  intros e' He'. inversion He'; subst e'. repeat split; try assumption. subst k. apply roundtrip. assumption.
Qed.

Ltac bh := unfold bytes, byte in *;
  repeat match goal with
  | H: forallb _ (_ :: _) = true |- _ => cbn [forallb] in H
  | H: _ && _ = true |- _ => let H1 := fresh "Hb" in apply andb_prop in H; destruct H as [H1 H]
  end.

Ltac split_tag t := destruct t as [|t]; [|destruct t as [t|t|]; [destruct t as [t|t|]|destruct t as [t|t|]|]; try (destruct t as [t|t|])].
Lemma tag4_eq {A} (t: N) (a b c d e: A) :
  match t with 0 => a | 1 => b | 2 => c | 3 => d | _ => e end =
  if t =? 0 then a else if t =? 1 then b else if t =? 2 then c else if t =? 3 then d else e.
Proof. split_tag t; reflexivity. Qed.
Lemma tag5_eq {A} (t: N) (a b c d e f: A) :
  match t with 0 => a | 1 => b | 2 => c | 3 => d | 4 => e | _ => f end =
  if t =? 0 then a else if t =? 1 then b else if t =? 2 then c else if t =? 3 then d else if t =? 4 then e else f.
Proof. split_tag t; reflexivity. Qed.
Lemma tag6_eq {A} (t: N) (a b c d e f g: A) :
  match t with 0 => a | 1 => b | 2 => c | 3 => d | 4 => e | 5 => f | _ => g end =
  if t =? 0 then a else if t =? 1 then b else if t =? 2 then c else if t =? 3 then d else if t =? 4 then e else if t =? 5 then f else g.
Proof. split_tag t; reflexivity. Qed.
Lemma tag2_eq {A} (t: N) (a b c: A) :
  match t with 0 => a | 1 => b | _ => c end = if t =? 0 then a else if t =? 1 then b else c.
Proof. split_tag t; reflexivity. Qed.

(* relay value: one byte *)
Lemma relay_de_cases x : (exists v, relay_de [x] = Val v /\ x <= 4) \/ (relay_de [x] = Fail CUnknownEnumVariant /\ 4 < x).
Proof.
  unfold relay_de, idx. cbn [length Nat.eqb negb nth_error bind]. rewrite tag5_eq.
  destruct (x =? 0) eqn:E0; [left; eexists; split; [reflexivity|lia]|]. destruct (x =? 1) eqn:E1; [left; eexists; split; [reflexivity|lia]|].
  destruct (x =? 2) eqn:E2; [left; eexists; split; [reflexivity|lia]|]. destruct (x =? 3) eqn:E3; [left; eexists; split; [reflexivity|lia]|].
  destruct (x =? 4) eqn:E4; [left; eexists; split; [reflexivity|lia]|]. right. split; [reflexivity|lia].
Qed.

(* brightness value *)
Lemma bcm_de_cases v : bytes v = true ->
  (exists bv, bcm_de v = Val bv /\ wf_bcm bv = true /\ bcm_len (nth0 0 v) = Some (length v) /\ length (ser (bcm_layout bv)) = length v) \/
  (bcm_de v = Fail CWrongSize /\ ((length v < 2)%nat \/ exists l, bcm_len (nth0 0 v) = Some l /\ length v <> l)) \/
  (bcm_de v = Fail CUnknownEnumVariant /\ (2 <= length v)%nat /\ bcm_len (nth0 0 v) = None).
Proof.
  intros Hb. unfold bcm_de. destruct (length v <? 2)%nat eqn:E2.
  { right. left. split; [reflexivity|]. left. apply Nat.ltb_lt in E2. exact E2. }
  apply Nat.ltb_ge in E2. destruct v as [|t v]; [cbn in E2; lia|]. change (@idx cerr (t :: v) 0) with (@Val N cerr t). cbn [bind].
  unfold nth0. cbn [nth]. unfold bcm_len. rewrite !tag6_eq. bh. cbn [p_data p_addr].
  destruct (t =? 0) eqn:T0.
  { destruct (length (t :: v) =? 2)%nat eqn:El; cbn [negb].
    - apply Nat.eqb_eq in El. destruct v as [|x [|? ?]]; cbn [length] in El; try lia. bh. left. unfold idx. cbn [nth_error bind].
      eexists. split; [reflexivity|]. split; [reflexivity|]. split; reflexivity.
    - right. left. split; [reflexivity|]. right. exists 2%nat. split; [reflexivity|]. apply Nat.eqb_neq in El. exact El. }
  destruct (t =? 1) eqn:T1.
  { destruct (length (t :: v) =? 2)%nat eqn:El; cbn [negb].
    - apply Nat.eqb_eq in El. destruct v as [|x [|? ?]]; cbn [length] in El; try lia. bh. left. unfold idx. cbn [nth_error bind].
      eexists. split; [reflexivity|]. split; [cbn [wf_bcm]; unfold u8; lia|]. split; reflexivity.
    - right. left. split; [reflexivity|]. right. exists 2%nat. split; [reflexivity|]. apply Nat.eqb_neq in El. exact El. }
  destruct (t =? 2) eqn:T2.
  { destruct (length (t :: v) =? 4)%nat eqn:El; cbn [negb].
    - apply Nat.eqb_eq in El. destruct v as [|x1 [|x2 [|x3 [|? ?]]]]; cbn [length] in El; try lia. bh. left. unfold idx. cbn [nth_error bind].
      eexists. split; [reflexivity|]. split; [cbn [wf_bcm]; unfold u8; lia|]. split; reflexivity.
    - right. left. split; [reflexivity|]. right. exists 4%nat. split; [reflexivity|]. apply Nat.eqb_neq in El. exact El. }
  destruct (t =? 3) eqn:T3.
  { destruct (length (t :: v) =? 5)%nat eqn:El; cbn [negb].
    - apply Nat.eqb_eq in El. destruct v as [|x1 [|x2 [|x3 [|x4 [|? ?]]]]]; cbn [length] in El; try lia. bh. left. unfold idx. cbn [nth_error bind].
      eexists. split; [reflexivity|]. split; [cbn [wf_bcm]; unfold u8; lia|]. split; reflexivity.
    - right. left. split; [reflexivity|]. right. exists 5%nat. split; [reflexivity|]. apply Nat.eqb_neq in El. exact El. }
  destruct (t =? 4) eqn:T4.
  { destruct (length (t :: v) =? 5)%nat eqn:El; cbn [negb].
    - apply Nat.eqb_eq in El. destruct v as [|x1 [|x2 [|x3 [|x4 [|? ?]]]]]; cbn [length] in El; try lia. bh. left. unfold idx. cbn [nth_error bind].
      eexists. split; [reflexivity|]. split; [cbn [wf_bcm]; unfold u8; lia|]. split; reflexivity.
    - right. left. split; [reflexivity|]. right. exists 5%nat. split; [reflexivity|]. apply Nat.eqb_neq in El. exact El. }
  destruct (t =? 5) eqn:T5.
  { destruct (length (t :: v) =? 6)%nat eqn:El; cbn [negb].
    - apply Nat.eqb_eq in El. destruct v as [|x1 [|x2 [|x3 [|x4 [|x5 [|? ?]]]]]]; cbn [length] in El; try lia. bh. left. unfold idx. cbn [nth_error bind].
      eexists. split; [reflexivity|]. split; [cbn [wf_bcm]; unfold u8; lia|]. split; reflexivity.
    - right. left. split; [reflexivity|]. right. exists 6%nat. split; [reflexivity|]. apply Nat.eqb_neq in El. exact El. }
  right. right. split; [reflexivity|]. split; [exact E2|reflexivity].
Qed.

Theorem decode_exact k p : wf_packet p = true -> exact k p.
Proof.
  intros Hwf. unfold wf_packet in Hwf. apply andb_prop in Hwf. destruct Hwf as [Ha Hb].
  destruct p as [pe pa d]. cbn [p_addr p_data] in Ha, Hb.
  (* the three guards shared by all decoders, for a given size test *)
  assert (G: forall (so: nat -> bool) (body: out event cerr),
             decode k (mkP pe pa d) = pre so k (mkP pe pa d) body ->
             (so (length d) = false -> reason_applies k CWrongSize (mkP pe pa d) = true) ->
             (so (length d) = true -> pe = false -> forall c1 c0 t, d = c1 :: c0 :: t -> c1 * 256 + c0 = code k ->
                (body <> Panic /\ body <> Hang /\
                 (forall e, body = Val e -> wf_event e = true /\ kind_of e = k /\ length d = layout_len e /\ tag_unknown k (mkP pe pa d) = false) /\
                 (forall r, body = Fail r -> reason_applies k r (mkP pe pa d) = true))) ->
             (so (length d) = true -> (2 <= length d)%nat) ->
             exact k (mkP pe pa d)).
  { intros so body Hd Hsz Hbody Hlen2. unfold pre in Hd. cbn [p_data p_err] in Hd.
    destruct (so (length d)) eqn:Es; cbn [negb] in Hd.
    2:{ apply (exact_fail _ _ _ Hd). apply Hsz. reflexivity. }
    destruct pe.
    { apply (exact_fail _ _ _ Hd). reflexivity. }
    specialize (Hlen2 eq_refl). destruct d as [|c1 [|c0 t]]; cbn [length] in Hlen2; try lia.
    unfold u16_at, slice in Hd. cbn [length Nat.add Nat.leb skipn firstn bind] in Hd.
    destruct (c1 * 256 + c0 =? code k) eqn:Ec; cbn [negb] in Hd.
    2:{ apply (exact_fail _ _ _ Hd). unfold reason_applies, code_of. cbn [p_data]. rewrite Ec. reflexivity. }
    apply N.eqb_eq in Ec. destruct (Hbody eq_refl eq_refl c1 c0 t eq_refl Ec) as [Hp [Hh [Hv Hf]]].
    destruct body as [e|r| |] eqn:Eb; try contradiction.
    - destruct (Hv e eq_refl) as [Hw [Hk [Hl Ht]]].
      apply (exact_val _ _ e Hd Hw Hk eq_refl); [|exact Hl|exact Ht]. unfold code_of. cbn [p_data]. f_equal. exact Ec.
    - apply (exact_fail _ _ _ Hd). apply Hf. reflexivity. }
  bh. cbn [p_data p_addr].
  destruct k.
  - (* BootloaderHello *)
    eapply G; [reflexivity| | |].
    + unfold eqn, reason_applies, len_allowed. cbn [p_data]. intros ->. reflexivity.
    + unfold eqn. intros Es _ c1 c0 t -> Ec. apply Nat.eqb_eq in Es. cbn [length] in Es.
      do 2 (destruct t as [|? t]; [cbn [length] in Es; lia|]). destruct t; [|cbn [length] in Es; lia]. bh. cbn [p_data p_addr].
      unfold u16_at, u32_at, u8_at, slice, idx. cbn [length Nat.add Nat.leb skipn firstn bind nth_error].
      split; [discriminate|]. split; [discriminate|]. split; [|intros; discriminate].
      intros e He; inversion He; subst. split; [cbn [wf_event]; unfold u16, u8, u32; lia|]. split; [reflexivity|]. split; reflexivity.
    + unfold eqn. intros Es. apply Nat.eqb_eq in Es. lia.
  - (* ProgrammerHello *)
    eapply G; [reflexivity| | |].
    + unfold eqn, reason_applies, len_allowed. cbn [p_data]. intros ->. reflexivity.
    + unfold eqn. intros Es _ c1 c0 t -> Ec. apply Nat.eqb_eq in Es. cbn [length] in Es.
      do 2 (destruct t as [|? t]; [cbn [length] in Es; lia|]). destruct t; [|cbn [length] in Es; lia]. bh. cbn [p_data p_addr].
      unfold u16_at, u32_at, u8_at, slice, idx. cbn [length Nat.add Nat.leb skipn firstn bind nth_error].
      split; [discriminate|]. split; [discriminate|]. split; [|intros; discriminate].
      intros e He; inversion He; subst. split; [cbn [wf_event]; unfold u16, u8, u32; lia|]. split; [reflexivity|]. split; reflexivity.
    + unfold eqn. intros Es. apply Nat.eqb_eq in Es. lia.
  - (* StartFirmware *)
    eapply G; [reflexivity| | |].
    + unfold eqn, reason_applies, len_allowed. cbn [p_data]. intros ->. reflexivity.
    + unfold eqn. intros Es _ c1 c0 t -> Ec. apply Nat.eqb_eq in Es. cbn [length] in Es.
      do 6 (destruct t as [|? t]; [cbn [length] in Es; lia|]). destruct t; [|cbn [length] in Es; lia]. bh. cbn [p_data p_addr].
      unfold u16_at, u32_at, u8_at, slice, idx. cbn [length Nat.add Nat.leb skipn firstn bind nth_error].
      split; [discriminate|]. split; [discriminate|]. split; [|intros; discriminate].
      intros e He; inversion He; subst. split; [cbn [wf_event]; unfold u16, u8, u32; lia|]. split; [reflexivity|]. split; reflexivity.
    + unfold eqn. intros Es. apply Nat.eqb_eq in Es. lia.
  - (* Ack *)
    eapply G; [reflexivity| | |].
    + unfold eqn, reason_applies, len_allowed. cbn [p_data]. intros ->. reflexivity.
    + unfold eqn. intros Es _ c1 c0 t -> Ec. apply Nat.eqb_eq in Es. cbn [length] in Es.
      do 2 (destruct t as [|? t]; [cbn [length] in Es; lia|]). destruct t; [|cbn [length] in Es; lia]. bh. cbn [p_data p_addr].
      unfold u16_at, u32_at, u8_at, slice, idx. cbn [length Nat.add Nat.leb skipn firstn bind nth_error].
      split; [discriminate|]. split; [discriminate|]. split; [|intros; discriminate].
      intros e He; inversion He; subst. split; [cbn [wf_event]; unfold u16, u8, u32; lia|]. split; [reflexivity|]. split; reflexivity.
    + unfold eqn. intros Es. apply Nat.eqb_eq in Es. lia.
  - (* Data *)
    eapply G; [reflexivity| | |].
    + unfold gen, reason_applies, len_allowed. cbn [p_data]. intros ->. reflexivity.
    + unfold gen. intros Es _ c1 c0 t -> Ec. apply Nat.leb_le in Es. cbn [length] in Es.
      destruct t as [|t1 [|t0 [|l1 [|l0 rest]]]]; cbn [length] in Es; try lia. bh. cbn [p_data p_addr].
      unfold u16_at, slice. cbn [length Nat.add Nat.leb skipn firstn bind].
      destruct (S (S (S (S (S (S (length rest)))))) =? N.to_nat (l1 * 256 + l0) + 6)%nat eqn:El; cbn [negb].
      * apply Nat.eqb_eq in El.
        assert (E6: (N.to_nat (l1 * 256 + l0) <=? length rest)%nat = true) by (apply Nat.leb_le; lia).
        rewrite E6. cbn [skipn bind]. replace (N.to_nat (l1 * 256 + l0)) with (length rest) by lia. rewrite firstn_all.
        split; [discriminate|]. split; [discriminate|]. split; [|intros; discriminate].
        intros e He; inversion He; subst. split.
        { cbn [wf_event]. unfold u16, bytes, byte. rewrite Hb. lia. }
        split; [reflexivity|]. split; [|reflexivity]. unfold layout_len, layout_encode, layout_of, ser. cbn [map ser_fld concat app p_data length]. rewrite app_nil_r. reflexivity.
      * split; [discriminate|]. split; [discriminate|]. split; [intros; discriminate|].
        intros r Hr; inversion Hr; subst. unfold reason_applies, len_allowed, nth0, w16. cbn [p_data length nth].
        apply Nat.eqb_neq in El. lia.
    + unfold gen. intros Es. apply Nat.leb_le in Es. lia.
  - (* ConfiguratorHello *)
    eapply G; [reflexivity| | |].
    + unfold eqn, reason_applies, len_allowed. cbn [p_data]. intros ->. reflexivity.
    + unfold eqn. intros Es _ c1 c0 t -> Ec. apply Nat.eqb_eq in Es. cbn [length] in Es.
      do 0 (destruct t as [|? t]; [cbn [length] in Es; lia|]). destruct t; [|cbn [length] in Es; lia]. bh. cbn [p_data p_addr].
      unfold u16_at, u32_at, u8_at, slice, idx. cbn [length Nat.add Nat.leb skipn firstn bind nth_error].
      split; [discriminate|]. split; [discriminate|]. split; [|intros; discriminate].
      intros e He; inversion He; subst. split; [cbn [wf_event]; unfold u16, u8, u32; lia|]. split; [reflexivity|]. split; reflexivity.
    + unfold eqn. intros Es. apply Nat.eqb_eq in Es. lia.
  - (* BcmChange *)
    eapply G; [reflexivity| | |].
    + unfold gen, reason_applies, len_allowed. cbn [p_data]. intros Es. apply Nat.leb_gt in Es.
      assert (E: (5 + 2 <=? length d)%nat = false) by (apply Nat.leb_gt; lia). rewrite E. reflexivity.
    + unfold gen. intros Es _ c1 c0 t -> Ec. apply Nat.leb_le in Es. cbn [length] in Es.
      destruct t as [|x0 [|x1 [|x2 v]]]; cbn [length] in Es; try lia. bh. cbn [p_data p_addr].
      unfold u16_at, u32_at, u8_at, slice, idx. cbn [length Nat.add Nat.leb skipn firstn bind nth_error].
      assert (Hn0: nth0 5 (c1 :: c0 :: x0 :: x1 :: x2 :: v) = nth0 0 v) by reflexivity.
      destruct (bcm_de_cases v Hb) as [[bv [Hv [Hw [Hl Hs]]]]|[[Hf Hc]|[Hf [Hc1 Hc2]]]]; rewrite ?Hv, ?Hf; cbn [bind].
      * split; [discriminate|]. split; [discriminate|]. split; [|intros; discriminate].
        intros e He; inversion He; subst. split; [cbn [wf_event]; unfold u16, u8, u32; rewrite Hw; lia|]. split; [reflexivity|].
        split; [unfold layout_len, layout_encode, layout_of; cbn [app]; rewrite !ser_cons; cbn [ser_fld app p_data length]; rewrite Hs; reflexivity|].
        unfold tag_unknown. cbn [p_data]. rewrite Hn0, Hl. reflexivity.
      * split; [discriminate|]. split; [discriminate|]. split; [intros; discriminate|].
        intros r Hr; inversion Hr; subst. unfold reason_applies, len_allowed. cbn [p_data]. rewrite Hn0. cbn [length] in *.
        destruct Hc as [Hc|[l [Hc Hne]]]; [lia|]. rewrite Hc. lia.
      * split; [discriminate|]. split; [discriminate|]. split; [intros; discriminate|].
        intros r Hr; inversion Hr; subst. unfold reason_applies, tag_unknown. cbn [p_data]. rewrite Hn0, Hc2. reflexivity.
    + unfold gen. intros Es. apply Nat.leb_le in Es. lia.
  - (* ButtonPressed *)
    eapply G; [reflexivity| | |].
    + unfold eqn, reason_applies, len_allowed. cbn [p_data]. intros ->. reflexivity.
    + unfold eqn. intros Es _ c1 c0 t -> Ec. apply Nat.eqb_eq in Es. cbn [length] in Es.
      do 3 (destruct t as [|? t]; [cbn [length] in Es; lia|]). destruct t; [|cbn [length] in Es; lia]. bh. cbn [p_data p_addr].
      unfold u16_at, u32_at, u8_at, slice, idx. cbn [length Nat.add Nat.leb skipn firstn bind nth_error].
      split; [discriminate|]. split; [discriminate|]. split; [|intros; discriminate].
      intros e He; inversion He; subst. split; [cbn [wf_event]; unfold u16, u8, u32; lia|]. split; [reflexivity|]. split; reflexivity.
    + unfold eqn. intros Es. apply Nat.eqb_eq in Es. lia.
  - (* ButtonReleased *)
    eapply G; [reflexivity| | |].
    + unfold eqn, reason_applies, len_allowed. cbn [p_data]. intros ->. reflexivity.
    + unfold eqn. intros Es _ c1 c0 t -> Ec. apply Nat.eqb_eq in Es. cbn [length] in Es.
      do 3 (destruct t as [|? t]; [cbn [length] in Es; lia|]). destruct t; [|cbn [length] in Es; lia]. bh. cbn [p_data p_addr].
      unfold u16_at, u32_at, u8_at, slice, idx. cbn [length Nat.add Nat.leb skipn firstn bind nth_error].
      split; [discriminate|]. split; [discriminate|]. split; [|intros; discriminate].
      intros e He; inversion He; subst. split; [cbn [wf_event]; unfold u16, u8, u32; lia|]. split; [reflexivity|]. split; reflexivity.
    + unfold eqn. intros Es. apply Nat.eqb_eq in Es. lia.
  - (* SystemTick *)
    eapply G; [reflexivity| | |].
    + unfold eqn, reason_applies, len_allowed. cbn [p_data]. intros ->. reflexivity.
    + unfold eqn. intros Es _ c1 c0 t -> Ec. apply Nat.eqb_eq in Es. cbn [length] in Es.
      do 0 (destruct t as [|? t]; [cbn [length] in Es; lia|]). destruct t; [|cbn [length] in Es; lia]. bh. cbn [p_data p_addr].
      unfold u16_at, u32_at, u8_at, slice, idx. cbn [length Nat.add Nat.leb skipn firstn bind nth_error].
      split; [discriminate|]. split; [discriminate|]. split; [|intros; discriminate].
      intros e He; inversion He; subst. split; [cbn [wf_event]; unfold u16, u8, u32; lia|]. split; [reflexivity|]. split; reflexivity.
    + unfold eqn. intros Es. apply Nat.eqb_eq in Es. lia.
  - (* StartConfig *)
    eapply G; [reflexivity| | |].
    + unfold eqn, reason_applies, len_allowed. cbn [p_data]. intros ->. reflexivity.
    + unfold eqn. intros Es _ c1 c0 t -> Ec. apply Nat.eqb_eq in Es. cbn [length] in Es.
      do 6 (destruct t as [|? t]; [cbn [length] in Es; lia|]). destruct t; [|cbn [length] in Es; lia]. bh. cbn [p_data p_addr].
      unfold u16_at, u32_at, u8_at, slice, idx. cbn [length Nat.add Nat.leb skipn firstn bind nth_error].
      split; [discriminate|]. split; [discriminate|]. split; [|intros; discriminate].
      intros e He; inversion He; subst. split; [cbn [wf_event]; unfold u16, u8, u32; lia|]. split; [reflexivity|]. split; reflexivity.
    + unfold eqn. intros Es. apply Nat.eqb_eq in Es. lia.
  - (* SetAddress *)
    eapply G; [reflexivity| | |].
    + unfold eqn, reason_applies, len_allowed. cbn [p_data]. intros ->. reflexivity.
    + unfold eqn. intros Es _ c1 c0 t -> Ec. apply Nat.eqb_eq in Es. cbn [length] in Es.
      do 4 (destruct t as [|? t]; [cbn [length] in Es; lia|]). destruct t; [|cbn [length] in Es; lia]. bh. cbn [p_data p_addr].
      unfold u16_at, u32_at, u8_at, slice, idx. cbn [length Nat.add Nat.leb skipn firstn bind nth_error].
      split; [discriminate|]. split; [discriminate|]. split; [|intros; discriminate].
      intros e He; inversion He; subst. split; [cbn [wf_event]; unfold u16, u8, u32; lia|]. split; [reflexivity|]. split; reflexivity.
    + unfold eqn. intros Es. apply Nat.eqb_eq in Es. lia.
  - (* Message *)
    eapply G; [reflexivity| | |].
    + unfold eqn, reason_applies, len_allowed. cbn [p_data]. intros ->. reflexivity.
    + unfold eqn. intros Es -> c1 c0 t -> Ec. apply Nat.eqb_eq in Es. cbn [length] in Es.
      do 12 (destruct t as [|? t]; [cbn [length] in Es; lia|]). destruct t; [|cbn [length] in Es; lia]. bh. cbn [p_data p_addr].
      unfold u16_at, slice. cbn [length Nat.add Nat.leb skipn firstn bind].
      unfold msg_de, u32_ne_at, u16_ne_at, slice, idx. cbn [length Nat.add Nat.leb skipn firstn bind nth_error].
      rewrite tag4_eq.
      match goal with |- context [if ?tg =? 0 then _ else _] => set (tag := tg) in * end.
      assert (Htag: reason_applies KMessage CUnknownEnumVariant (mkP false pa (c1 :: c0 :: n :: n0 :: n1 :: n2 :: n3 :: n4 :: n5 :: n6 :: n7 :: n8 :: n9 :: n10 :: [])) =
                    (3 <? tag) || ((tag =? 3) && (1 <? n7))) by reflexivity.
      assert (Htag': tag_unknown KMessage (mkP false pa (c1 :: c0 :: n :: n0 :: n1 :: n2 :: n3 :: n4 :: n5 :: n6 :: n7 :: n8 :: n9 :: n10 :: [])) =
                    (3 <? tag) || ((tag =? 3) && (1 <? n7))) by reflexivity.
      destruct (tag =? 0) eqn:T0; cbn [bind].
      { split; [discriminate|]. split; [discriminate|]. split; [|intros; discriminate].
        intros e He; inversion He; subst. split; [cbn [wf_event wf_msg]; unfold u16, u8; lia|]. split; [reflexivity|]. split; [reflexivity|]. rewrite Htag'. lia. }
      destruct (tag =? 1) eqn:T1; cbn [bind].
      { split; [discriminate|]. split; [discriminate|]. split; [|intros; discriminate].
        intros e He; inversion He; subst. split; [cbn [wf_event wf_msg]; unfold u16, u8; lia|]. split; [reflexivity|]. split; [reflexivity|]. rewrite Htag'. lia. }
      destruct (tag =? 2) eqn:T2; cbn [bind].
      { split; [discriminate|]. split; [discriminate|]. split; [|intros; discriminate].
        intros e He; inversion He; subst. split; [cbn [wf_event wf_msg]; unfold u16, u8, u32; lia|]. split; [reflexivity|]. split; [reflexivity|]. rewrite Htag'. lia. }
      destruct (tag =? 3) eqn:T3; cbn [bind].
      { rewrite tag2_eq. destruct (n7 =? 0) eqn:B0.
        { split; [discriminate|]. split; [discriminate|]. split; [|intros; discriminate].
          intros e He; inversion He; subst. split; [cbn [wf_event wf_msg]; unfold u16, u8; lia|]. split; [reflexivity|]. split; [reflexivity|]. rewrite Htag'. lia. }
        destruct (n7 =? 1) eqn:B1.
        { split; [discriminate|]. split; [discriminate|]. split; [|intros; discriminate].
          intros e He; inversion He; subst. split; [cbn [wf_event wf_msg]; unfold u16, u8; lia|]. split; [reflexivity|]. split; [reflexivity|]. rewrite Htag'. lia. }
        split; [discriminate|]. split; [discriminate|]. split; [intros; discriminate|].
        intros r Hr; inversion Hr; subst. rewrite Htag. lia. }
      split; [discriminate|]. split; [discriminate|]. split; [intros; discriminate|].
      intros r Hr; inversion Hr; subst. rewrite Htag. lia.
    + unfold eqn. intros Es. apply Nat.eqb_eq in Es. lia.
  - (* BcmAnimate *)
    eapply G; [reflexivity| | |].
    + unfold gen, reason_applies, len_allowed. cbn [p_data]. intros Es. apply Nat.leb_gt in Es.
      assert (E: (9 + 2 <=? length d)%nat = false) by (apply Nat.leb_gt; lia). rewrite E. reflexivity.
    + unfold gen. intros Es _ c1 c0 t -> Ec. apply Nat.leb_le in Es. cbn [length] in Es.
      destruct t as [|x0 [|x1 [|x2 [|x3 [|x4 [|x5 [|x6 v]]]]]]]; cbn [length] in Es; try lia. bh. cbn [p_data p_addr].
      unfold u16_at, u32_at, u8_at, slice, idx. cbn [length Nat.add Nat.leb skipn firstn bind nth_error].
      assert (Hn0: nth0 9 (c1 :: c0 :: x0 :: x1 :: x2 :: x3 :: x4 :: x5 :: x6 :: v) = nth0 0 v) by reflexivity.
      destruct (bcm_de_cases v Hb) as [[bv [Hv [Hw [Hl Hs]]]]|[[Hf Hc]|[Hf [Hc1 Hc2]]]]; rewrite ?Hv, ?Hf; cbn [bind].
      * split; [discriminate|]. split; [discriminate|]. split; [|intros; discriminate].
        intros e He; inversion He; subst. split; [cbn [wf_event]; unfold u16, u8, u32; rewrite Hw; lia|]. split; [reflexivity|].
        split; [unfold layout_len, layout_encode, layout_of; cbn [app]; rewrite !ser_cons; cbn [ser_fld app p_data length]; rewrite Hs; reflexivity|].
        unfold tag_unknown. cbn [p_data]. rewrite Hn0, Hl. reflexivity.
      * split; [discriminate|]. split; [discriminate|]. split; [intros; discriminate|].
        intros r Hr; inversion Hr; subst. unfold reason_applies, len_allowed. cbn [p_data]. rewrite Hn0. cbn [length] in *.
        destruct Hc as [Hc|[l [Hc Hne]]]; [lia|]. rewrite Hc. lia.
      * split; [discriminate|]. split; [discriminate|]. split; [intros; discriminate|].
        intros r Hr; inversion Hr; subst. unfold reason_applies, tag_unknown. cbn [p_data]. rewrite Hn0, Hc2. reflexivity.
    + unfold gen. intros Es. apply Nat.leb_le in Es. lia.
  - (* RelaySet *)
    eapply G; [reflexivity| | |].
    + unfold eqn, reason_applies, len_allowed. cbn [p_data]. intros ->. reflexivity.
    + unfold eqn. intros Es _ c1 c0 t -> Ec. apply Nat.eqb_eq in Es. cbn [length] in Es.
      destruct t as [|x1 [|x2 [|x3 [|x4 [|? ?]]]]]; cbn [length] in Es; try lia. bh. cbn [p_data p_addr].
      unfold u16_at, u8_at, slice, idx. cbn [length Nat.add Nat.leb skipn firstn bind nth_error].
      destruct (relay_de_cases x4) as [[v [Hv Hx]]|[Hf Hx]]; rewrite ?Hv, ?Hf; cbn [bind].
      * split; [discriminate|]. split; [discriminate|]. split; [|intros; discriminate].
        intros e He; inversion He; subst. split; [cbn [wf_event]; unfold u16, u8; lia|]. split; [reflexivity|].
        split; [destruct v as [[|]| | |]; reflexivity|]. unfold tag_unknown, nth0. cbn [p_data nth]. lia.
      * split; [discriminate|]. split; [discriminate|]. split; [intros; discriminate|].
        intros r Hr; inversion Hr; subst. unfold reason_applies, tag_unknown, nth0. cbn [p_data nth]. lia.
    + unfold eqn. intros Es. apply Nat.eqb_eq in Es. lia.
  - (* GatewayDiscover *)
    eapply G; [reflexivity| | |].
    + unfold eqn, reason_applies, len_allowed. cbn [p_data]. intros ->. reflexivity.
    + unfold eqn. intros Es _ c1 c0 t -> Ec. apply Nat.eqb_eq in Es. cbn [length] in Es.
      do 2 (destruct t as [|? t]; [cbn [length] in Es; lia|]). destruct t; [|cbn [length] in Es; lia]. bh. cbn [p_data p_addr].
      unfold u16_at, u32_at, u8_at, slice, idx. cbn [length Nat.add Nat.leb skipn firstn bind nth_error].
      split; [discriminate|]. split; [discriminate|]. split; [|intros; discriminate].
      intros e He; inversion He; subst. split; [cbn [wf_event]; unfold u16, u8, u32; lia|]. split; [reflexivity|]. split; reflexivity.
    + unfold eqn. intros Es. apply Nat.eqb_eq in Es. lia.
Qed.
