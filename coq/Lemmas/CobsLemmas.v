Require Import RP.Model.Base RP.Model.Cobs.

Definition nozero (l: list N) := Forall (fun b => b <> 0) l.

(* feeding k nonzero bytes in Grab k *)
Lemma push_grab_run cap run : forall out rest,
  nozero run -> (length out + length run <= cap)%nat ->
  push cap (Grab (nlen run)) out (run ++ rest) = push cap (Grab 0) (out ++ run) rest.
Proof.
  induction run as [|x run IH]; intros out rest Hnz Hcap.
  - rewrite app_nil_r. reflexivity.
  - apply Forall_cons_iff in Hnz. destruct Hnz as [Hx Hnz].
    cbn [app push]. cbn [length] in Hcap.
    assert (Hk: nlen (x :: run) = N.succ (nlen run)) by (unfold nlen; cbn [length]; lia).
    rewrite Hk. unfold feed.
    destruct (N.succ (nlen run)) as [|p] eqn:Ek; [lia|]. rewrite <- Ek.
    destruct (x =? 0) eqn:Ex; [apply N.eqb_eq in Ex; contradiction|].
    destruct (length out <? cap)%nat eqn:Ec; [|apply Nat.ltb_ge in Ec; lia].
    replace (N.succ (nlen run) - 1) with (nlen run) by lia.
    rewrite IH; [ rewrite <- app_assoc; reflexivity | assumption | rewrite app_length; cbn [length]; lia ].
Qed.

(* one block: code byte then run, from a "block boundary" state *)
Inductive bstate := BIdle | BGrab0.
Definition to_d (b: bstate) := match b with BIdle => Idle | BGrab0 => Grab 0 end.
Definition sep (b: bstate) : list N := match b with BIdle => [] | BGrab0 => [0] end.

Lemma push_block cap b run out rest :
  nozero run -> nlen run + 1 < 255 -> (length out + length (sep b) + length run <= cap)%nat ->
  push cap (to_d b) out ((nlen run + 1) :: run ++ rest) = push cap (Grab 0) (out ++ sep b ++ run) rest.
Proof.
  intros Hnz Hlen Hcap. cbn [push].
  assert (E0: (nlen run + 1 =? 0) = false) by lia.
  assert (E255: (nlen run + 1 =? 255) = false) by lia.
  destruct b; cbn [to_d sep feed]; cbn [sep length] in Hcap.
  - rewrite E0, E255. replace (nlen run + 1 - 1) with (nlen run) by lia.
    cbn [length] in Hcap. rewrite push_grab_run by (assumption || lia). reflexivity.
  - unfold feed. rewrite E0. cbn [length] in Hcap.
    destruct (length out <? cap)%nat eqn:Ec; [|apply Nat.ltb_ge in Ec; lia].
    rewrite E255. replace (nlen run + 1 - 1) with (nlen run) by lia.
    rewrite push_grab_run; [ rewrite <- app_assoc; reflexivity | assumption | rewrite app_length; cbn [length]; lia ].
Qed.

Ltac len := unfold nlen in *; cbn [length sep] in *; rewrite ?app_length in *; cbn [length] in *; lia.
Lemma push_enc_go cap : forall src run b out,
  nozero run -> (nlen run + nlen src + 1 < 255) ->
  (length out + length (sep b) + length run + length src <= cap)%nat ->
  push cap (to_d b) out (enc_go run src) = (More, Grab 0, out ++ sep b ++ run ++ src).
Proof.
  induction src as [|x t IH]; intros run b out Hnz Hlen Hcap.
  - cbn [enc_go]. rewrite <- (app_nil_r run) at 2.
    rewrite push_block by (assumption || len). cbn [push]. rewrite !app_nil_r. reflexivity.
  - cbn [enc_go].
    destruct (x =? 0) eqn:Ex.
    + apply N.eqb_eq in Ex. subst x. rewrite <- app_comm_cons.
      rewrite push_block by (assumption || len).
      specialize (IH [] BGrab0 (out ++ sep b ++ run)).
      cbn [to_d sep] in IH. rewrite IH.
      * rewrite <- !app_assoc. reflexivity.
      * constructor.
      * len.
      * destruct b; len.
    + assert (E: (nlen (run ++ [x]) + 1 =? 255) = false) by len.
      rewrite E. rewrite IH.
      * rewrite <- !app_assoc. reflexivity.
      * apply Forall_app. split; [assumption|]. constructor; [lia|constructor].
      * len.
      * destruct b; len.
Qed.

Lemma enc_go_length : forall src run, nlen run + nlen src + 1 < 255 -> length (enc_go run src) = S (length run + length src).
Proof.
  induction src as [|x t IH]; intros run H; cbn [enc_go].
  - cbn [length]. lia.
  - destruct (x =? 0).
    + rewrite app_length. cbn [length]. rewrite IH by len. cbn [length]. lia.
    + assert (E: (nlen (run ++ [x]) + 1 =? 255) = false) by len.
      rewrite E, IH by len. rewrite app_length. cbn [length]. lia.
Qed.

Lemma max_enc_len_small n : (0 < n < 254)%nat -> max_enc_len n = S n.
Proof. intros H. unfold max_enc_len. rewrite Nat.div_small, Nat.mod_small by lia.
  destruct (n =? 0)%nat eqn:E; [apply Nat.eqb_eq in E; lia|lia]. Qed.

Lemma cobs_encode_ne b : b <> [] -> cobs_encode b = firstn (max_enc_len (length b)) (enc_go [] b).
Proof. destruct b; [congruence|reflexivity]. Qed.

Theorem cobs_roundtrip src : (length src < 254)%nat -> src <> [] -> cobs_decode (cobs_encode src) = Some src.
Proof.
  intros Hlen Hne. unfold cobs_encode. destruct src as [|x t] eqn:E; [contradiction|]. rewrite <- E in *.
  assert (Hl: (0 < length src)%nat) by (subst src; cbn; lia). clear E Hne x t.
  rewrite max_enc_len_small by lia.
  assert (Hg: length (enc_go [] src) = S (length src)) by (rewrite enc_go_length; [reflexivity|len]).
  rewrite <- Hg, firstn_all. unfold cobs_decode. rewrite Hg.
  rewrite (push_enc_go _ src [] BIdle []); [| constructor | len | len].
  cbn [sep app]. unfold feed. change (0 =? 0) with true. cbv iota. rewrite firstn_all. reflexivity.
Qed.

Theorem enc_go_nozero : forall src run, nozero run -> Forall (fun b => b <> 0) (enc_go run src).
Proof.
  induction src as [|x t IH]; intros run H; cbn [enc_go].
  - constructor; [lia|assumption].
  - destruct (x =? 0) eqn:Ex.
    + apply Forall_app. split; [constructor; [lia|assumption]|]. apply IH. constructor.
    + assert (Hr: nozero (run ++ [x])) by (apply Forall_app; split; [assumption|constructor; [lia|constructor]]).
      destruct (nlen (run ++ [x]) + 1 =? 255).
      * apply Forall_app. split; [constructor; [lia|assumption]|]. apply IH. constructor.
      * apply IH, Hr.
Qed.

Lemma In_firstn' {A} (x: A) n l : In x (firstn n l) -> In x l.
Proof. revert n. induction l as [|y t IH]; intros [|n] H; cbn in *; try contradiction. destruct H as [H|H]; [left; exact H|right; eapply IH; exact H]. Qed.

Lemma cobs_encode_nozero b : ~ In 0 (cobs_encode b).
Proof.
  destruct b as [|x t]; [intros []|]. rewrite cobs_encode_ne by discriminate.
  intros Hin. apply In_firstn' in Hin.
  pose proof (enc_go_nozero (x :: t) [] (Forall_nil _)) as Hnz. rewrite Forall_forall in Hnz.
  apply (Hnz 0 Hin). reflexivity.
Qed.

Lemma cobs_encode_length b : (0 < length b < 254)%nat -> length (cobs_encode b) = S (length b).
Proof.
  intros H. rewrite cobs_encode_ne by (destruct b; [cbn in H; lia|discriminate]).
  rewrite max_enc_len_small by lia. rewrite firstn_length, enc_go_length by (unfold nlen; cbn [length]; lia). cbn [length]. lia.
Qed.

(* ---- the decoder only ever outputs bytes it was given (or zeros) ---- *)
Lemma feed_bytes cap st out d r st' out' : byte d = true -> bytes out = true -> feed cap st out d = (r, st', out') -> bytes out' = true.
Proof.
  intros Hd Ho H. unfold feed in H.
  assert (Hadd: forall x, byte x = true -> bytes (out ++ [x]) = true).
  { intros x Hx. rewrite bytes_app. rewrite Ho. cbn. rewrite Hx. reflexivity. }
  destruct st as [|n|n|]; repeat match type of H with
    | context [if ?c then _ else _] => destruct c
    | context [match ?n with N0 => _ | Npos _ => _ end] => destruct n
    end; inversion H; subst; auto.
Qed.

Lemma push_bytes cap : forall data st out r st' out', bytes data = true -> bytes out = true ->
  push cap st out data = (r, st', out') -> bytes out' = true.
Proof.
  induction data as [|d t IH]; intros st out r st' out' Hd Ho H; cbn [push] in H.
  - inversion H; subst; assumption.
  - unfold bytes in Hd. cbn [forallb] in Hd. apply andb_prop in Hd. destruct Hd as [Hd Ht].
    destruct (feed cap st out d) as [[r0 st0] out0] eqn:Ef.
    pose proof (feed_bytes _ _ _ _ _ _ _ Hd Ho Ef) as Hb0.
    destruct r0; try (inversion H; subst; assumption). eapply IH; eauto.
Qed.

Lemma cobs_decode_bytes enc body : bytes enc = true -> cobs_decode enc = Some body -> bytes body = true.
Proof.
  intros He H. unfold cobs_decode in H.
  destruct (push (length enc) Idle [] enc) as [[r st] out] eqn:Ep.
  assert (Hnil: bytes [] = true) by reflexivity.
  pose proof (push_bytes _ _ _ _ _ _ _ He Hnil Ep) as Hb.
  destruct r; try discriminate.
  destruct (feed (length enc) st out 0) as [[r1 st1] out1] eqn:Ef.
  assert (Hz0: byte 0 = true) by reflexivity.
  pose proof (feed_bytes _ _ _ _ _ _ _ Hz0 Hb Ef) as Hb1.
  destruct r1; try discriminate. inversion H; subst. apply bytes_firstn. exact Hb1.
Qed.
