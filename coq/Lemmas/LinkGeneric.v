(* Generic facts about the token automata of Model/Links.v: how the harness loop (polls) relates to
   the flat run of the automaton. *)
Require Import RP.Model.Base RP.Model.Packet RP.Model.Frame RP.Model.Links.

Lemma poll_go_consumes (M: machine) : forall s ph b r b' s', poll_go M ph b s = (r, b', s') -> s <> [] -> (length s' < length s)%nat.
Proof.
  induction s as [|t s IH]; intros ph b r b' s' H Hne; [contradiction|].
  cbn [poll_go] in H. destruct (mstep M ph b t) as [[r0|ph0] b0].
  - inversion H; subst. cbn. lia.
  - destruct s as [|t2 s2].
    + cbn in H. inversion H; subst; cbn; lia.
    + apply IH in H; [cbn in *; lia|discriminate].
Qed.

(* a poll either stops at the first emission of the run, or runs out of script in the phase where the run ends *)
Lemma poll_go_run (M: machine) : forall s ph b r b' s',
  poll_go M ph b s = (r, b', s') ->
  forall rs phf bf, run M ph b s = (rs, phf, bf) ->
  (exists rs', rs = r :: rs' /\ run M (idle M) b' s' = (rs', phf, bf)) \/ (rs = [] /\ r = mexh M phf /\ s' = [] /\ b' = bf).
Proof.
  induction s as [|t s IH]; intros ph b r b' s' Hp rs phf bf Hr.
  - cbn in Hp, Hr. inversion Hr; subst. inversion Hp; subst. right. auto.
  - cbn [poll_go] in Hp. cbn [run] in Hr. destruct (mstep M ph b t) as [[r0|ph0] b0].
    + inversion Hp; subst. destruct (run M (idle M) b' s') as [[rs1 ph1] b1]. inversion Hr; subst. left. eauto.
    + eapply IH; eauto.
Qed.

(* the harness loop returns the emissions of the run, in order, followed by one or two 'nothing received';
   it ends in the state in which the run ends *)
Theorem polls_run (M: machine) : mexh M (idle M) = RNone ->
  forall fuel s b rs bf, (length s < fuel)%nat -> run M (idle M) b s = (rs, idle M, bf) ->
  exists k, (1 <= k <= 2)%nat /\ map fst (fst (polls M fuel b s)) = rs ++ repeat RNone k /\ snd (polls M fuel b s) = bf.
Proof.
  intros Hex. induction fuel as [|f IH]; intros s b rs bf Hf Hr; [lia|].
  destruct s as [|t s].
  - cbn in Hr. inversion Hr; subst. cbn [polls poll poll_go]. rewrite Hex. exists 1%nat. split; [lia|]. split; reflexivity.
  - cbn [polls]. destruct (poll M b (t :: s)) as [[r b'] s'] eqn:Hp.
    assert (Hlen: (length s' < length (t :: s))%nat) by (eapply poll_go_consumes; [exact Hp|discriminate]).
    destruct (poll_go_run M _ _ _ _ _ _ Hp _ _ _ Hr) as [[rs' [-> Hr']]|[-> [-> [-> ->]]]].
    + destruct (IH s' b' rs' bf ltac:(cbn in *; lia) Hr') as [k [Hk [H1 H2]]].
      destruct (polls M f b' s') as [rl bfl]. cbn [fst snd map] in *. exists k. split; [exact Hk|]. split; [rewrite H1; reflexivity|exact H2].
    + destruct f as [|f']; [cbn in *; lia|]. cbn [polls poll poll_go]. rewrite Hex. cbn [fst snd map]. exists 2%nat. split; [lia|]. split; reflexivity.
Qed.

(* appending scripts *)
Lemma run_app (M: machine) : forall s1 s2 ph b rs1 b1,
  run M ph b s1 = (rs1, idle M, b1) ->
  run M ph b (s1 ++ s2) = let '(rs2, ph2, b2) := run M (idle M) b1 s2 in (rs1 ++ rs2, ph2, b2).
Proof.
  induction s1 as [|t s1 IH]; intros s2 ph b rs1 b1 H.
  - cbn in H. inversion H; subst. cbn [app]. destruct (run M (idle M) b1 s2) as [[? ?] ?]. reflexivity.
  - cbn [app run] in *. destruct (mstep M ph b t) as [[r|ph'] b'].
    + destruct (run M (idle M) b' s1) as [[rsa pha] ba] eqn:Ea. inversion H; subst.
      rewrite (IH s2 _ _ _ _ Ea). destruct (run M (idle M) b1 s2) as [[? ?] ?]. reflexivity.
    + apply IH. exact H.
Qed.

Definition notnone (r: res) : bool := match r with RNone => false | _ => true end.
Lemma filter_notnone_repeat k : filter notnone (repeat RNone k) = [].
Proof. induction k; [reflexivity|exact IHk]. Qed.

(* ---------- scripts made of items, each of which is one frame-level step from the idle phase ---------- *)
Definition cons_opt' {A} (o: option A) (l: list A) : list A := match o with Some x => x :: l | None => l end.
Fixpoint srun {A} (stepf: option builder -> A -> option builder * option res) (st: option builder) (items: list A) : list res * option builder :=
  match items with
  | [] => ([], st)
  | a :: t => let '(st', r) := stepf st a in let '(rs, stf) := srun stepf st' t in (cons_opt' r rs, stf)
  end.

Lemma run_items (M: machine) {A} (enc: A -> list (tok M)) (stepf: option builder -> A -> option builder * option res) (P: A -> Prop) :
  (forall b a, P a -> run M (idle M) b (enc a) = (cons_opt' (snd (stepf b a)) [], idle M, fst (stepf b a))) ->
  forall items b rest, Forall P items ->
  run M (idle M) b (concat (map enc items) ++ rest) =
  let '(rs1, b1) := srun stepf b items in let '(rs2, ph, bf) := run M (idle M) b1 rest in (rs1 ++ rs2, ph, bf).
Proof.
  intros Hstep. induction items as [|a t IH]; intros b rest H.
  - cbn. destruct (run M (idle M) b rest) as [[? ?] ?]. reflexivity.
  - apply Forall_cons_iff in H. destruct H as [Ha Ht]. cbn [map concat srun]. rewrite <- app_assoc.
    rewrite (run_app M _ _ _ _ _ _ (Hstep b a Ha)). rewrite IH by exact Ht.
    destruct (stepf b a) as [st' r]. cbn [fst snd]. destruct (srun stepf st' t) as [rs1 b1].
    destruct (run M (idle M) b1 rest) as [[rs2 ph] bf]. destruct r; reflexivity.
Qed.
