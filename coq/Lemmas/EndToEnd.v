(* C01: composition of the sender routing (C16), the senders' wire image (C14 / C13_sender_wire), link
   transparency under every schedule (C13), dispatch (C15) and the event round trip (C03). *)
Require Import RP.Model.Base RP.Model.Packet RP.Model.Events RP.Model.Frame RP.Model.Links RP.Model.Protocol RP.Spec.Frag
  RP.Lemmas.EventsRT RP.Lemmas.OnFrame RP.Lemmas.LinkGeneric RP.Lemmas.LinkUsart RP.Lemmas.LinkSerialCan RP.Lemmas.LinkTheorems
  RP.Lemmas.Registry RP.Lemmas.ProtocolLemmas.

(* node A (no local handlers) sends the events one after the other over an always-accepting link *)
Fixpoint send_all (own: N) (ps: list packet) (i: iface) : list (out unit perr) * iface :=
  match ps with
  | [] => ([], i)
  | p :: r => let '(ret, _, i1) := send_packet own [] p i in let '(rets, i2) := send_all own r i1 in (ret :: rets, i2)
  end.
Lemma send_all_sent own : forall ps i, i_sends i = [] ->
  i_sent (snd (send_all own ps i)) = i_sent i ++ filter (transmitted own) ps /\ Forall (fun r => r = Val tt) (fst (send_all own ps i)).
Proof.
  induction ps as [|p r IH]; intros i Hs; cbn [send_all filter]; [rewrite app_nil_r; split; [reflexivity|constructor]|].
  assert (Hsend: send_packet own [] p i =
                 if transmitted own p then (Val tt, [], mkI (i_gets i) [] (i_sent i ++ [p])) else (Val tt, [], i)).
  { unfold send_packet, transmitted, handle_packet. cbn [handle_go].
    destruct (p_addr p =? own); destruct (own =? BROADCAST); cbn [andb negb orb]; unfold isend; rewrite ?Hs; reflexivity. }
  rewrite Hsend. destruct (transmitted own p).
  - destruct (IH (mkI (i_gets i) [] (i_sent i ++ [p])) eq_refl) as [H1 H2].
    destruct (send_all own r (mkI (i_gets i) [] (i_sent i ++ [p]))) as [rets i2]. cbn [fst snd i_sent] in *.
    split; [rewrite H1, <- app_assoc; reflexivity|constructor; [reflexivity|exact H2]].
  - destruct (IH i Hs) as [H1 H2]. destruct (send_all own r i) as [rets i2]. cbn [fst snd] in *. split; [exact H1|constructor; [reflexivity|exact H2]].
Qed.

(* node B ticks once per poll result of its link receiver *)
Definition gres_of (r: res) : gres := match r with RPacket p => GPacket p | RNone => GNone | _ => GErr 0 end.
Fixpoint ticks (own: N) (t: table) (gs: list gres) : list (out unit perr) * list logent :=
  match gs with
  | [] => ([], [])
  | g :: r => let '(ret, log, _) := tick own t (mkI [g] [] []) in let '(rets, logs) := ticks own t r in (ret :: rets, log ++ logs)
  end.
(* per selected handler, in key order: its entry for p, followed by the nested deliveries of what that handler itself sent to the own
   address (none when quiet own t: C15_quiet) *)
Definition deliveries (own: N) (t: table) (p: packet) : list logent := dispatch_log own t p (owned_addr own p).

Lemma ticks_spec own t : forall rs ps,
  filter notnone rs = map RPacket ps -> (forall r, In r rs -> r = RNone \/ exists p, r = RPacket p) ->
  snd (ticks own t (map gres_of rs)) = concat (map (deliveries own t) ps) /\ Forall (fun r => r = Val tt) (fst (ticks own t (map gres_of rs))).
Proof.
  induction rs as [|r rs IH]; intros ps Hf Hall.
  - destruct ps; [|discriminate]. split; [reflexivity|constructor].
  - cbn [map ticks]. destruct (Hall r (or_introl eq_refl)) as [->|[p ->]].
    + cbn [filter notnone] in Hf. destruct (IH ps Hf (fun x Hx => Hall x (or_intror Hx))) as [H1 H2].
      cbn [gres_of tick iget i_gets]. destruct (ticks own t (map gres_of rs)) as [rets logs]. cbn [fst snd app] in *. split; [exact H1|constructor; [reflexivity|exact H2]].
    + cbn [filter notnone] in Hf. destruct ps as [|q ps]; [discriminate|]. cbn [map] in Hf. inversion Hf as [[Hq Hrest]]. subst q.
      destruct (IH ps Hrest (fun x Hx => Hall x (or_intror Hx))) as [H1 H2].
      cbn [gres_of]. unfold tick. cbn [iget i_gets]. rewrite handle_packet_spec.
      destruct (ticks own t (map gres_of rs)) as [rets logs]. cbn [fst snd map concat] in *. split; [rewrite H1; reflexivity|constructor; [reflexivity|exact H2]].
Qed.

Definition sent_by (ownA: N) (es: list event) : list packet := filter (transmitted ownA) (map encode es).

(* every logged packet is the encoding of a sent event and decodes to it *)
Lemma sent_by_decodes ownA es : Forall (fun e => wf_event e = true) es ->
  Forall (fun p => exists e, In e es /\ p = encode e /\ decode (kind_of e) p = Val e) (sent_by ownA es).
Proof.
  intros Hw. unfold sent_by. apply Forall_forall. intros p Hp. apply filter_In in Hp. destruct Hp as [Hp _].
  apply in_map_iff in Hp. destruct Hp as [e [<- He]]. exists e. split; [exact He|]. split; [reflexivity|].
  rewrite Forall_forall in Hw. apply (roundtrip e (Hw e He)).
Qed.

Lemma sent_by_wf ownA es : Forall (fun e => wf_event e = true) es -> Forall wfp (sent_by ownA es).
Proof.
  intros Hw. unfold sent_by. apply Forall_forall. intros p Hp. apply filter_In in Hp. destruct Hp as [Hp _].
  apply in_map_iff in Hp. destruct Hp as [e [<- He]]. rewrite Forall_forall in Hw. specialize (Hw e He).
  unfold wfp, wf_packet. destruct (roundtrip e Hw) as [_ [_ Ha]].
  assert (Haddr: p_addr (encode e) < 65536).
  { rewrite Ha. destruct e; cbn [recv_of wf_event] in *; unfold BROADCAST; bools; try lia. }
  assert (Hb: bytes (p_data (encode e)) = true).
  { destruct e; cbn [wf_event] in Hw; bools; unfold encode, pk, be16, be32; cbn [p_data]; rewrite ?bytes_app; unfold bytes; cbn [forallb app]; unfold byte;
      repeat (apply andb_true_intro; split); try lia; try reflexivity.
    - fold (bytes data). assumption.
    - destruct value; cbn [bcm_ser wf_bcm forallb] in *; bools; unfold byte; try destruct b; repeat (apply andb_true_intro; split); try lia; reflexivity.
    - destruct value; cbn [msg_ser wf_msg forallb app ne32 ne16] in *; unfold u8, u16, u32, byte in *; try destruct b; repeat (apply andb_true_intro; split); try lia; reflexivity.
    - destruct target; cbn [bcm_ser wf_bcm forallb] in *; bools; unfold byte; try destruct b; repeat (apply andb_true_intro; split); try lia; reflexivity.
    - destruct value as [[|]| | |]; reflexivity. }
  rewrite Hb. lia.
Qed.

Lemma only_packets_or_none rs ps : filter notnone rs = map RPacket ps -> forall r, In r rs -> r = RNone \/ exists p, r = RPacket p.
Proof.
  intros Hf r Hin. destruct (notnone r) eqn:En.
  - assert (H: In r (filter notnone rs)) by (apply filter_In; split; assumption). rewrite Hf in H. apply in_map_iff in H.
    destruct H as [p [Hp _]]. right. exists p. symmetry. exact Hp.
  - destruct r; try discriminate. left. reflexivity.
Qed.

(* the generic end-to-end statement, given transparency of the link for the schedule at hand *)
Theorem end_to_end (M: machine) fuel s ownA ownB tblB es :
  Forall (fun e => wf_event e = true) es ->
  filter notnone (map fst (fst (polls M fuel None s))) = map RPacket (sent_by ownA es) ->
  i_sent (snd (send_all ownA (map encode es) (mkI [] [] []))) = sent_by ownA es /\
  Forall (fun r => r = Val tt) (fst (send_all ownA (map encode es) (mkI [] [] []))) /\
  snd (ticks ownB tblB (map gres_of (map fst (fst (polls M fuel None s))))) = concat (map (deliveries ownB tblB) (sent_by ownA es)) /\
  Forall (fun r => r = Val tt) (fst (ticks ownB tblB (map gres_of (map fst (fst (polls M fuel None s)))))) /\
  Forall (fun p => exists e, In e es /\ p = encode e /\ decode (kind_of e) p = Val e) (sent_by ownA es).
Proof.
  intros Hw Hf. destruct (send_all_sent ownA (map encode es) (mkI [] [] []) eq_refl) as [S1 S2]. cbn [i_sent app] in S1.
  destruct (ticks_spec ownB tblB _ _ Hf (only_packets_or_none _ _ Hf)) as [T1 T2].
  split; [exact S1|]. split; [exact S2|]. split; [exact T1|]. split; [exact T2|]. apply sent_by_decodes. exact Hw.
Qed.
