(* Frame-level behaviour of the receivers (link independent): the builder logic on_frame folded over
   a sequence of decoded frames.  Delivery of a fragmented packet, orphans, resynchronisation after
   ANY prior state, the receiver invariant, no panic on well-formed frames, bounded holding. *)
Require Import RP.Model.Base RP.Model.Packet RP.Model.Frame RP.Model.Links RP.Spec.Frag
  RP.Lemmas.PacketLemmas RP.Lemmas.Reasm RP.Lemmas.Builder.

Definition cons_opt {A} (o: option A) (l: list A) : list A := match o with Some x => x :: l | None => l end.

(* all emissions of a frame sequence, state carried along *)
Fixpoint frun (st: option builder) (fs: list frame) : list res * option builder :=
  match fs with
  | [] => ([], st)
  | f :: t => let '(st', r) := on_frame st f in
              let '(rs, stf) := frun st' t in (cons_opt r rs, stf)
  end.

Lemma frun_app st fs gs : frun st (fs ++ gs) = let '(r1, s1) := frun st fs in let '(r2, s2) := frun s1 gs in (r1 ++ r2, s2).
Proof.
  revert st. induction fs as [|f t IH]; intros st; cbn [app frun].
  - destruct (frun st gs). reflexivity.
  - destruct (on_frame st f) as [st' r]. rewrite IH. destruct (frun st' t) as [r1 s1]. destruct (frun s1 gs) as [r2 s2].
    destruct r; reflexivity.
Qed.

(* start frames are never accepted as continuations *)
Lemma add_frame_start b f : f_st f = true -> exists e, add_frame b f = Fail e.
Proof.
  intros H. unfold add_frame.
  destruct (negb (Bool.eqb (negb (f_ne f)) (b_err b))); [eauto|].
  destruct (negb (f_addr f =? b_addr b)); [eauto|]. rewrite H. eauto.
Qed.

Lemma builder_new_nonstart f : f_st f = false -> builder_new f = Fail OutOfOrder.
Proof. intros H. unfold builder_new. rewrite H. reflexivity. Qed.

Definition is_err (r: res) := match r with RErr (LBuilder _) => True | _ => False end.

(* shape of a fragmentation: first frame is a start frame, the others are not *)
Lemma frag_spec_shape p : small p -> exists f0 rest, frag_spec p = f0 :: rest /\ f_st f0 = true /\ Forall (fun f => f_st f = false) rest.
Proof.
  intros Hs. unfold small in Hs. destruct (le_gt_dec (length (p_data p)) 8) as [H8|H8].
  - rewrite frag_spec_single by lia. eexists _, []. split; [reflexivity|]. split; [reflexivity|constructor].
  - rewrite frag_spec_multi by lia. set (cs := chunks7 _ _).
    assert (Hl: (1 <= length cs)%nat) by (unfold cs; rewrite chunks7_length by lia; lia).
    rewrite (seq_head _ Hl). cbn [map]. eexists _, _. split; [reflexivity|]. split; [reflexivity|].
    apply Forall_forall. intros f Hf. apply in_map_iff in Hf. destruct Hf as [i [<- Hi]]. apply in_seq in Hi.
    unfold mframe. cbn [f_st]. apply Nat.eqb_neq. lia.
Qed.

Lemma on_frame_MB_mid p m cs a : (1 <= a)%nat -> (S a < m)%nat -> N.of_nat m <= 4096 ->
  on_frame (Some (MB p m cs a)) (mframe p m cs a) = (Some (MB p m cs (S a)), None).
Proof.
  intros H1 H2 Hm. unfold on_frame. rewrite add_frame_MB by lia. rewrite frames_left_MB by lia.
  assert (E: (N.of_nat (m - S a) =? 0) = false) by lia. rewrite E. reflexivity.
Qed.

Lemma frun_MB_mid p m cs : N.of_nat m <= 4096 -> forall k a, (1 <= a)%nat -> (a + k < m)%nat ->
  frun (Some (MB p m cs a)) (map (mframe p m cs) (seq a k)) = ([], Some (MB p m cs (a + k))).
Proof.
  intros Hm. induction k as [|k IH]; intros a H1 H2.
  - cbn. rewrite Nat.add_0_r. reflexivity.
  - cbn [seq map frun]. rewrite on_frame_MB_mid by lia. rewrite IH by lia. replace (S a + k)%nat with (a + S k)%nat by lia. reflexivity.
Qed.

(* from an empty receiver, the frames of p deliver exactly p and leave the receiver empty *)
Lemma frun_deliver p : small p -> frun None (frag_spec p) = ([RPacket p], None).
Proof.
  intros Hs. rewrite <- (same_packet_eq p) at 2. unfold same_packet. unfold small in Hs.
  destruct (le_gt_dec (length (p_data p)) 8) as [H8|H8].
  - rewrite frag_spec_single by lia. cbn [frun]. unfold on_frame.
    assert (Hn: builder_new (sframe p) = Val (mkB (p_err p) 1 (p_addr p) [sframe p])).
    { unfold builder_new, sframe. cbn [f_st f_last f_id f_ne f_addr negb]. change (0 + 1) with 1. rewrite negb_involutive. reflexivity. }
    rewrite Hn. change (frames_left (mkB (p_err p) 1 (p_addr p) [sframe p])) with (@Val N berr 0). change (0 =? 0) with true. cbv iota.
    assert (Hb: build (mkB (p_err p) 1 (p_addr p) [sframe p]) = Val (mkP (p_err p) (p_addr p) (p_data p))).
    { unfold build. cbn [b_frames length b_exp b_err b_addr]. change (N.to_nat 1) with 1%nat. cbn [Nat.eqb negb mapM].
      unfold payload, sframe. cbn [f_mf f_dlen f_data]. unfold nlen. rewrite Nat.sub_0_r, Nnat.Nat2N.id.
      rewrite slice_val by (unfold pad8; rewrite app_length; lia). cbn [skipn bind].
      rewrite pad8_firstn by lia. cbn [concat]. rewrite app_nil_r. reflexivity. }
    rewrite Hb. reflexivity.
  - rewrite frag_spec_multi by lia. set (cs := chunks7 _ _).
    assert (Hl: length cs = ((length (p_data p) + 6) / 7)%nat) by (unfold cs; apply chunks7_length; lia).
    set (m := length cs) in *. assert (Hm: (2 <= m)%nat /\ N.of_nat m <= 4096) by lia.
    rewrite (seq_head m) by lia. cbn [map frun].
    assert (H0: on_frame None (mframe p m cs 0) = (Some (MB p m cs 1), None)).
    { unfold on_frame. rewrite builder_new_MB by lia. rewrite frames_left_MB by lia.
      assert (E: (N.of_nat (m - 1) =? 0) = false) by lia. rewrite E. reflexivity. }
    rewrite H0.
    replace (seq 1 (m - 1)) with (seq 1 (m - 2) ++ [(m - 1)%nat]).
    2:{ replace (m - 1)%nat with (S (m - 2)) at 2 by lia. rewrite seq_S. f_equal. f_equal. lia. }
    rewrite map_app, frun_app. rewrite frun_MB_mid by lia. cbn [map frun].
    replace (1 + (m - 2))%nat with (m - 1)%nat by lia.
    assert (HL: on_frame (Some (MB p m cs (m - 1))) (mframe p m cs (m - 1)) = (None, Some (RPacket (mkP (p_err p) (p_addr p) (p_data p))))).
    { unfold on_frame. rewrite add_frame_MB by lia. replace (S (m - 1)) with m by lia.
      rewrite frames_left_MB by lia. rewrite Nat.sub_diag. change (N.of_nat 0 =? 0) with true. cbv iota.
      rewrite (build_MB p m cs); [reflexivity|reflexivity|reflexivity|lia]. }
    rewrite HL. reflexivity.
Qed.

(* a sequence of packets through an empty receiver: exactly those packets, in order, receiver empty again *)
Theorem frun_packets ps : Forall small ps -> frun None (concat (map frag_spec ps)) = (map RPacket ps, None).
Proof.
  induction ps as [|p t IH]; intros H; [reflexivity|]. apply Forall_cons_iff in H. destruct H as [Hp Ht].
  cbn [map concat]. rewrite frun_app, frun_deliver by assumption. rewrite IH by assumption. reflexivity.
Qed.

(* non-start frames on an empty receiver: one error each, receiver stays empty *)
Lemma frun_orphans fs : Forall (fun f => f_st f = false) fs ->
  exists errs, frun None fs = (errs, None) /\ Forall is_err errs /\ length errs = length fs.
Proof.
  induction fs as [|f t IH]; intros H.
  - exists []. repeat split; constructor.
  - apply Forall_cons_iff in H. destruct H as [Hf Ht]. destruct (IH Ht) as [errs [He [Hall Hlen]]].
    exists (RErr (LBuilder OutOfOrder) :: errs). cbn [frun]. unfold on_frame. rewrite builder_new_nonstart by assumption.
    rewrite He. repeat split; [constructor; [exact I|assumption] | cbn; lia].
Qed.

(* C06, frame level: whatever state the history left behind, two back-to-back packets: the second is
   delivered intact; the first is delivered intact, or dropped with errors only; never a third packet,
   never an altered or merged one; the receiver ends empty *)
Theorem resync st p1 p2 : small p1 -> small p2 ->
  let '(rs, stf) := frun st (frag_spec p1 ++ frag_spec p2) in
  stf = None /\
  ((st = None /\ rs = [RPacket p1; RPacket p2]) \/
   (st <> None /\ exists errs, errs <> [] /\ Forall is_err errs /\ rs = errs ++ [RPacket p2])).
Proof.
  intros H1 H2. rewrite frun_app. destruct st as [b|].
  - destruct (frag_spec_shape p1 H1) as [f0 [rest [Hf [Hst Hrest]]]]. rewrite Hf. cbn [frun].
    destruct (add_frame_start b f0 Hst) as [e He].
    assert (Hon: on_frame (Some b) f0 = (None, Some (RErr (LBuilder e)))) by (unfold on_frame; rewrite He; reflexivity).
    rewrite Hon. destruct (frun_orphans rest Hrest) as [errs [Hr [Hall _]]]. rewrite Hr.
    rewrite (frun_deliver p2 H2). split; [reflexivity|]. right. split; [discriminate|].
    exists (RErr (LBuilder e) :: errs). split; [discriminate|]. split; [constructor; [exact I|assumption]|reflexivity].
  - rewrite (frun_deliver p1 H1), (frun_deliver p2 H2). split; [reflexivity|]. left. split; reflexivity.
Qed.

(* ---------- the receiver invariant ---------- *)
Definition rx_ok (st: option builder) : Prop :=
  match st with None => True | Some b => wf_builder b /\ nlen (b_frames b) < b_exp b end.
Definition good_res (r: option res) : Prop :=
  match r with Some RPanic | Some RHang | Some ROutOfFuel => False | _ => True end.
Definition held (st: option builder) : N := match st with Some b => nlen (b_frames b) | None => 0 end.
Definition announced (st: option builder) : N := match st with Some b => b_exp b | None => 0 end.

Lemma on_frame_started b : wf_builder b ->
  let r := match frames_left b with
           | Val lft => if lft =? 0 then match build b with
                                         | Val p => (None, Some (RPacket p))
                                         | Fail e => (Some b, Some (RErr (LBuilder e)))
                                         | Panic => (Some b, Some RPanic) | Hang => (Some b, Some RHang) end
                        else (Some b, None)
           | Fail e => (Some b, Some (RErr (LBuilder e)))
           | Panic => (Some b, Some RPanic) | Hang => (Some b, Some RHang) end in
  rx_ok (fst r) /\ good_res (snd r) /\ (forall p, snd r = Some (RPacket p) -> fst r = None).
Proof.
  intros Hw. destruct (frames_left_spec b Hw) as [Hfl Hsum]. rewrite Hfl.
  assert (Hb2: nlen (b_frames b) <= b_exp b) by (destruct Hw as [? [? ?]]; assumption).
  destruct (b_exp b - nlen (b_frames b) =? 0) eqn:E.
  - destruct (build_spec b Hw) as [Hb _]. rewrite Hb by lia. cbn. split; [exact I|]. split; [exact I|]. intros; reflexivity.
  - cbn. split; [split; [exact Hw|lia]|]. split; [exact I|]. intros; discriminate.
Qed.

Theorem on_frame_ok st f : rx_ok st -> wf_frame f = true ->
  rx_ok (fst (on_frame st f)) /\ good_res (snd (on_frame st f)) /\
  (forall p, snd (on_frame st f) = Some (RPacket p) -> fst (on_frame st f) = None) /\
  (forall e, snd (on_frame st f) = Some (RErr (LBuilder e)) -> fst (on_frame st f) = None).
Proof.
  intros Hst Hf. unfold on_frame. destruct st as [b|].
  - destruct Hst as [Hw Hlt]. destruct (add_frame b f) as [b'|e| |] eqn:Ea.
    + assert (Hw': wf_builder b').
      { pose proof (offer_wf b f Hw Hf) as H. unfold offer in H. rewrite Ea in H. exact H. }
      destruct (frames_left_spec _ Hw') as [Hfl _]. rewrite Hfl.
      assert (Hb2: nlen (b_frames b') <= b_exp b') by (destruct Hw' as [? [? ?]]; assumption).
      destruct (b_exp b' - nlen (b_frames b') =? 0) eqn:E.
      * destruct (build_spec _ Hw') as [Hb _]. rewrite Hb by lia. cbn. split; [exact I|]. split; [exact I|]. split; [intros; reflexivity|intros; discriminate].
      * cbn. split; [split; [exact Hw'|lia]|]. split; [exact I|]. split; intros; discriminate.
    + cbn. split; [exact I|]. split; [exact I|]. split; [intros; discriminate|intros; reflexivity].
    + destruct (add_frame_no_panic b f) as [H _]. contradiction.
    + destruct (add_frame_no_panic b f) as [_ H]. contradiction.
  - destruct (builder_new f) as [b|e| |] eqn:En.
    + pose proof (builder_new_wf f b Hf En) as Hw'.
      destruct (frames_left_spec _ Hw') as [Hfl _]. rewrite Hfl.
      assert (Hb2: nlen (b_frames b) <= b_exp b) by (destruct Hw' as [? [? ?]]; assumption).
      destruct (b_exp b - nlen (b_frames b) =? 0) eqn:E.
      * destruct (build_spec _ Hw') as [Hb _]. rewrite Hb by lia. cbn. split; [exact I|]. split; [exact I|]. split; [intros; reflexivity|intros; discriminate].
      * cbn. split; [split; [exact Hw'|lia]|]. split; [exact I|]. split; intros; discriminate.
    + cbn. split; [exact I|]. split; [exact I|]. split; [intros; discriminate|intros; reflexivity].
    + exfalso. unfold builder_new in En. destruct (negb (f_st f)); [discriminate|]. destruct (f_last f); [|discriminate].
      unfold wf_frame in Hf. repeat (apply andb_prop in Hf; destruct Hf as [Hf ?]).
      assert (E: (f_id f + 1 <? 65536) = true) by lia. rewrite E in En. discriminate.
    + exfalso. unfold builder_new in En. destruct (negb (f_st f)); [discriminate|]. destruct (f_last f); [|discriminate].
      destruct (f_id f + 1 <? 65536); discriminate.
Qed.

(* memory bookkeeping (C19): what is held never exceeds the announced size, itself at most 4096 frames *)
Lemma rx_ok_bound st : rx_ok st -> held st <= announced st /\ announced st <= 4096.
Proof. destruct st as [b|]; cbn; [|lia]. intros [[H1 [H2 [H3 _]]] H4]. lia. Qed.

(* a decoded frame (or a decode error) *)
Theorem on_decoded_ok st d : rx_ok st -> d <> Panic -> d <> Hang -> (forall f, d = Val f -> wf_frame f = true) ->
  rx_ok (fst (on_decoded st d)) /\ good_res (snd (on_decoded st d)) /\
  (forall p, snd (on_decoded st d) = Some (RPacket p) -> fst (on_decoded st d) = None) /\
  (forall e, snd (on_decoded st d) = Some (RErr (LBuilder e)) -> fst (on_decoded st d) = None).
Proof.
  intros Hst Hp Hh Hwf. destruct d as [f|e| |]; try contradiction.
  - cbn [on_decoded]. apply on_frame_ok; [assumption|apply Hwf; reflexivity].
  - cbn. split; [exact Hst|]. split; [exact I|]. split; intros; discriminate.
Qed.
