Require Import RP.Model.Base RP.Model.Packet RP.Model.Events RP.Spec.EventLayout RP.Lemmas.EventsRT.

Lemma hi16 x : x < 65536 -> x / 256 mod 256 = x / 256. Proof. lia. Qed.
Lemma hi32 x : x < 4294967296 -> x / 16777216 mod 256 = x / 16777216. Proof. lia. Qed.

Lemma bcm_ser_layout v : wf_bcm v = true -> bcm_ser v = ser (bcm_layout v).
Proof. destruct v as [[|]| | | | |]; reflexivity. Qed.
Lemma relay_ser_layout v : relay_ser v = ser (relay_layout v).
Proof. destruct v as [[|]| | |]; reflexivity. Qed.
Lemma msg_ser_layout v : wf_msg v = true -> msg_ser v = ser (msg_layout v).
Proof.
  destruct v as [x|x|x|[|]]; cbn [wf_msg]; unfold u8, u16, u32; intros H; try reflexivity.
  - unfold msg_ser, msg_layout, ser, ne16, le16. cbn [map ser_fld concat app ne32 le32]. rewrite (hi16 x) by lia. reflexivity.
  - unfold msg_ser, msg_layout, ser, ne32, le32. cbn [map ser_fld concat app]. rewrite (hi32 x) by lia. reflexivity.
Qed.

Lemma ser_cons a b : ser (a :: b) = ser_fld a ++ ser b.
Proof. reflexivity. Qed.
Lemma ser_app a b : ser (a ++ b) = ser a ++ ser b.
Proof. unfold ser. rewrite map_app, concat_app. reflexivity. Qed.

(* C11, encode side: every encoder emits exactly the published layout *)
Theorem encode_layout e : wf_event e = true -> encode e = layout_encode e.
Proof.
  intros H. destruct e; cbn [wf_event] in H; bools; unfold encode, layout_encode, layout_of, pk, BROADCAST, be16, be32;
    rewrite ?ser_app; unfold ser at 1; cbn [map ser_fld concat app];
    rewrite ?hi16, ?hi32 by lia; rewrite ?app_nil_r; try reflexivity.
  - rewrite bcm_ser_layout by assumption. rewrite ?app_nil_r. reflexivity.
  - rewrite msg_ser_layout by assumption. rewrite ?app_nil_r. reflexivity.
  - rewrite bcm_ser_layout by assumption. rewrite ?app_nil_r. reflexivity.
  - rewrite relay_ser_layout. rewrite ?app_nil_r. reflexivity.
Qed.

(* ---------- the reference decoder inverts the published layout ---------- *)
Ltac bytes_hyps :=
  unfold bytes, byte in *;
  repeat match goal with
  | H: forallb _ (_ :: _) = true |- _ => cbn [forallb] in H
  | H: _ && _ = true |- _ => let H1 := fresh "Hb" in apply andb_prop in H; destruct H as [H1 H]
  end.

Lemma ref_bcm_sound v bv : bytes v = true -> ref_bcm v = Some bv -> wf_bcm bv = true /\ v = ser (bcm_layout bv).
Proof.
  intros Hb H. unfold bytes in Hb.
  destruct v as [|t [|a [|b [|c [|d [|e [|f v]]]]]]]; cbn [ref_bcm] in H; try discriminate; bytes_hyps.
  - destruct (t =? 0) eqn:E0.
    + destruct (a =? 0) eqn:A0; [inversion H; subst; split; [reflexivity|]; cbn; f_equal; [lia|f_equal; lia]|].
      destruct (a =? 1) eqn:A1; [inversion H; subst; split; [reflexivity|]; cbn; f_equal; [lia|f_equal; lia]|discriminate].
    + destruct (t =? 1) eqn:E1; [|discriminate]. inversion H; subst. split; [cbn; unfold u8; lia|]. cbn. f_equal. lia.
  - destruct (t =? 2) eqn:E; [|discriminate]. inversion H; subst. split; [cbn; unfold u8; lia|]. cbn. f_equal. lia.
  - destruct (t =? 3) eqn:E3.
    + inversion H; subst. split; [cbn; unfold u8; lia|]. cbn. f_equal. lia.
    + destruct (t =? 4) eqn:E4; [|discriminate]. inversion H; subst. split; [cbn; unfold u8; lia|]. cbn. f_equal. lia.
  - destruct (t =? 5) eqn:E; [|discriminate]. inversion H; subst. split; [cbn; unfold u8; lia|]. cbn. f_equal. lia.
Qed.

Lemma ref_relay_sound v rv : ref_relay v = Some rv -> v = ser (relay_layout rv).
Proof.
  intros H. destruct v as [|t [|? ?]]; cbn [ref_relay] in H; try discriminate.
  destruct (t =? 0) eqn:E0; [inversion H; cbn; f_equal; lia|].
  destruct (t =? 1) eqn:E1; [inversion H; cbn; f_equal; lia|].
  destruct (t =? 2) eqn:E2; [inversion H; cbn; f_equal; lia|].
  destruct (t =? 3) eqn:E3; [inversion H; cbn; f_equal; lia|].
  destruct (t =? 4) eqn:E4; [inversion H; cbn; f_equal; lia|discriminate].
Qed.

Lemma ref_msg_sound v mv : bytes v = true -> ref_msg v = Some mv -> wf_msg mv = true /\ v = ser (msg_layout mv).
Proof.
  intros Hb H. unfold bytes in Hb.
  destruct v as [|t0 [|t1 [|t2 [|t3 [|b0 [|b1 [|b2 [|b3 [|? ?]]]]]]]]]; cbn [ref_msg] in H; try discriminate; bytes_hyps.
  destruct ((t1 =? 0) && (t2 =? 0) && (t3 =? 0)) eqn:ET; cbn [negb] in H; [|discriminate].
  assert (t1 = 0 /\ t2 = 0 /\ t3 = 0) as [-> [-> ->]] by lia. clear ET.
  destruct (t0 =? 0) eqn:E0.
  { destruct ((b1 =? 0) && (b2 =? 0) && (b3 =? 0)) eqn:EB; [|discriminate].
    assert (b1 = 0 /\ b2 = 0 /\ b3 = 0) as [-> [-> ->]] by lia. inversion H; subst. split; [cbn; unfold u8; lia|].
    assert (t0 = 0) as -> by lia. reflexivity. }
  destruct (t0 =? 1) eqn:E1.
  { destruct ((b2 =? 0) && (b3 =? 0)) eqn:EB; [|discriminate].
    assert (b2 = 0 /\ b3 = 0) as [-> ->] by lia. inversion H; subst. split; [cbn; unfold u16; lia|].
    assert (t0 = 1) as -> by lia. unfold msg_layout, ser, le16. cbn [map ser_fld concat app le32].
    repeat f_equal; lia. }
  destruct (t0 =? 2) eqn:E2.
  { inversion H; subst. split; [cbn; unfold u32; lia|].
    assert (t0 = 2) as -> by lia. unfold msg_layout, ser, le32. cbn [map ser_fld concat app].
    repeat f_equal; lia. }
  destruct (t0 =? 3) eqn:E3; [|discriminate].
  destruct ((b1 =? 0) && (b2 =? 0) && (b3 =? 0)) eqn:EB; [|discriminate].
  assert (b1 = 0 /\ b2 = 0 /\ b3 = 0) as [-> [-> ->]] by lia. assert (t0 = 3) as -> by lia.
  destruct (b0 =? 0) eqn:B0; [inversion H; subst; split; [reflexivity|]; assert (b0 = 0) as -> by lia; reflexivity|].
  destruct (b0 =? 1) eqn:B1; [inversion H; subst; split; [reflexivity|]; assert (b0 = 1) as -> by lia; reflexivity|discriminate].
Qed.

Lemma w16_hi a b : a < 256 -> b < 256 -> w16 a b / 256 = a /\ w16 a b mod 256 = b /\ w16 a b < 65536.
Proof. unfold w16. lia. Qed.
Lemma w32_parts a b c d : a < 256 -> b < 256 -> c < 256 -> d < 256 ->
  w32 a b c d / 16777216 = a /\ w32 a b c d / 65536 mod 256 = b /\ w32 a b c d / 256 mod 256 = c /\ w32 a b c d mod 256 = d /\ w32 a b c d < 4294967296.
Proof. unfold w32. lia. Qed.

Theorem ref_decode_sound k p e : ref_decode k p = Some e ->
  wf_event e = true /\ kind_of e = k /\ p = layout_encode e.
Proof.
  unfold ref_decode. destruct p as [pe pa d]. cbn [p_err p_addr p_data].
  destruct pe; [discriminate|].
  destruct ((pa <? 65536) && bytes d) eqn:G; cbn [negb]; [|discriminate].
  apply andb_prop in G. destruct G as [Ga Gb].
  destruct d as [|c1 [|c0 body]]; try discriminate.
  destruct (w16 c1 c0 =? code k) eqn:Ec; cbn [negb]; [|discriminate]. apply N.eqb_eq in Ec.
  bytes_hyps.
  assert (Hc: c1 = 0 /\ c0 = code k) by (unfold w16 in Ec; destruct k; cbn [code] in *; lia).
  destruct Hc as [-> ->]. clear Ec.
  destruct k.
  - (* BootloaderHello *) destruct body as [|b1 [|b0 [|? ?]]]; try discriminate. bytes_hyps. intros HH; inversion HH; subst.
    destruct (w16_hi b1 b0) as [? [? ?]]; try lia.
    split; [cbn [wf_event]; unfold u16; lia|]. split; [reflexivity|]. unfold layout_encode, layout_of, ser. cbn [map ser_fld concat app code]. repeat f_equal; lia.
  - (* ProgrammerHello *) destruct body as [|b1 [|b0 [|? ?]]]; try discriminate. bytes_hyps. destruct (pa =? 65535) eqn:EA; [|discriminate]. intros HH; inversion HH; subst.
    destruct (w16_hi b1 b0) as [? [? ?]]; try lia.
    split; [cbn [wf_event]; unfold u16; lia|]. split; [reflexivity|]. unfold layout_encode, layout_of, ser. cbn [map ser_fld concat app code]. repeat f_equal; lia.
  - (* StartFirmware *) destruct body as [|x1 [|x0 [|s3 [|s2 [|s1 [|s0 [|? ?]]]]]]]; try discriminate. bytes_hyps. intros HH; inversion HH; subst.
    destruct (w16_hi x1 x0) as [? [? ?]]; try lia. destruct (w32_parts s3 s2 s1 s0) as [? [? [? [? ?]]]]; try lia.
    split; [cbn [wf_event]; unfold u16, u32; lia|]. split; [reflexivity|]. unfold layout_encode, layout_of, ser. cbn [map ser_fld concat app code]. repeat f_equal; lia.
  - (* Ack *) destruct body as [|b1 [|b0 [|? ?]]]; try discriminate. bytes_hyps. intros HH; inversion HH; subst.
    destruct (w16_hi b1 b0) as [? [? ?]]; try lia.
    split; [cbn [wf_event]; unfold u16; lia|]. split; [reflexivity|]. unfold layout_encode, layout_of, ser. cbn [map ser_fld concat app code]. repeat f_equal; lia.
  - (* Data *) destruct body as [|t1 [|t0 [|l1 [|l0 dd]]]]; try discriminate. bytes_hyps.
    destruct (nlen dd =? w16 l1 l0) eqn:EL; [|discriminate]. intros HH; inversion HH; subst.
    destruct (w16_hi t1 t0) as [? [? ?]]; try lia. destruct (w16_hi l1 l0) as [? [? ?]]; try lia.
    split. { cbn [wf_event]. unfold u16, nlen in *. unfold bytes, byte. rewrite Gb. lia. }
    split; [reflexivity|]. unfold layout_encode, layout_of, ser. cbn [map ser_fld concat app code]. rewrite app_nil_r. repeat f_equal; lia.
  - (* ConfiguratorHello *) destruct body; try discriminate. destruct (pa =? 65535) eqn:EA; [|discriminate]. intros HH; inversion HH; subst.
    split; [reflexivity|]. split; [reflexivity|]. unfold layout_encode, layout_of, ser. cbn [map ser_fld concat app code]. repeat f_equal; lia.
  - (* BcmChange *) destruct body as [|t1 [|t0 [|i v]]]; try discriminate. bytes_hyps.
    destruct (ref_bcm v) as [bv|] eqn:EB; [|discriminate]. cbn [option_map]. intros HH; inversion HH; subst.
    destruct (ref_bcm_sound v bv Gb EB) as [Hw Hv].
    destruct (w16_hi t1 t0) as [? [? ?]]; try lia.
    split; [cbn [wf_event]; unfold u16, u8; rewrite Hw; lia|]. split; [reflexivity|]. unfold layout_encode, layout_of. rewrite Hv.
    cbn [app]. rewrite !ser_cons. cbn [ser_fld app code]. repeat f_equal; lia.
  - (* ButtonPressed *) destruct body as [|b1 [|b0 [|i [|? ?]]]]; try discriminate. bytes_hyps. intros HH; inversion HH; subst.
    destruct (w16_hi b1 b0) as [? [? ?]]; try lia.
    split; [cbn [wf_event]; unfold u16, u8; lia|]. split; [reflexivity|]. unfold layout_encode, layout_of, ser. cbn [map ser_fld concat app code]. repeat f_equal; lia.
  - (* ButtonReleased *) destruct body as [|b1 [|b0 [|i [|? ?]]]]; try discriminate. bytes_hyps. intros HH; inversion HH; subst.
    destruct (w16_hi b1 b0) as [? [? ?]]; try lia.
    split; [cbn [wf_event]; unfold u16, u8; lia|]. split; [reflexivity|]. unfold layout_encode, layout_of, ser. cbn [map ser_fld concat app code]. repeat f_equal; lia.
  - (* SystemTick *) destruct body; try discriminate. intros HH; inversion HH; subst.
    split; [cbn [wf_event]; unfold u16; lia|]. split; [reflexivity|]. unfold layout_encode, layout_of, ser. cbn [map ser_fld concat app code]. repeat f_equal; lia.
  - (* StartConfig *) destruct body as [|x1 [|x0 [|s3 [|s2 [|s1 [|s0 [|? ?]]]]]]]; try discriminate. bytes_hyps. intros HH; inversion HH; subst.
    destruct (w16_hi x1 x0) as [? [? ?]]; try lia. destruct (w32_parts s3 s2 s1 s0) as [? [? [? [? ?]]]]; try lia.
    split; [cbn [wf_event]; unfold u16, u32; lia|]. split; [reflexivity|]. unfold layout_encode, layout_of, ser. cbn [map ser_fld concat app code]. repeat f_equal; lia.
  - (* SetAddress *) destruct body as [|x1 [|x0 [|n1 [|n0 [|? ?]]]]]; try discriminate. bytes_hyps. intros HH; inversion HH; subst.
    destruct (w16_hi x1 x0) as [? [? ?]]; try lia. destruct (w16_hi n1 n0) as [? [? ?]]; try lia.
    split; [cbn [wf_event]; unfold u16; lia|]. split; [reflexivity|]. unfold layout_encode, layout_of, ser. cbn [map ser_fld concat app code]. repeat f_equal; lia.
  - (* Message *) destruct body as [|t1 [|t0 [|m1 [|m0 v]]]]; try discriminate. bytes_hyps.
    destruct (ref_msg v) as [mv|] eqn:EB; [|discriminate]. cbn [option_map]. intros HH; inversion HH; subst.
    destruct (ref_msg_sound v mv Gb EB) as [Hw Hv].
    destruct (w16_hi t1 t0) as [? [? ?]]; try lia. destruct (w16_hi m1 m0) as [? [? ?]]; try lia.
    split; [cbn [wf_event]; unfold u16; rewrite Hw; lia|]. split; [reflexivity|]. unfold layout_encode, layout_of. rewrite Hv.
    cbn [app]. rewrite !ser_cons. cbn [ser_fld app code]. repeat f_equal; lia.
  - (* BcmAnimate *) destruct body as [|t1 [|t0 [|i [|d3 [|d2 [|d1 [|d0 v]]]]]]]; try discriminate. bytes_hyps.
    destruct (ref_bcm v) as [bv|] eqn:EB; [|discriminate]. cbn [option_map]. intros HH; inversion HH; subst.
    destruct (ref_bcm_sound v bv Gb EB) as [Hw Hv].
    destruct (w16_hi t1 t0) as [? [? ?]]; try lia. destruct (w32_parts d3 d2 d1 d0) as [? [? [? [? ?]]]]; try lia.
    split; [cbn [wf_event]; unfold u16, u8, u32; rewrite Hw; lia|]. split; [reflexivity|]. unfold layout_encode, layout_of. rewrite Hv.
    cbn [app]. rewrite !ser_cons. cbn [ser_fld app code]. repeat f_equal; lia.
  - (* RelaySet *) destruct body as [|t1 [|t0 [|i v]]]; try discriminate. bytes_hyps.
    destruct (ref_relay v) as [rv|] eqn:EB; [|discriminate]. cbn [option_map]. intros HH; inversion HH; subst.
    pose proof (ref_relay_sound v rv EB) as Hv.
    destruct (w16_hi t1 t0) as [? [? ?]]; try lia.
    split; [cbn [wf_event]; unfold u16, u8; lia|]. split; [reflexivity|]. unfold layout_encode, layout_of. rewrite Hv.
    cbn [app]. rewrite !ser_cons. cbn [ser_fld app code]. repeat f_equal; lia.
  - (* GatewayDiscover *) destruct body as [|b1 [|b0 [|? ?]]]; try discriminate. bytes_hyps. intros HH; inversion HH; subst.
    destruct (w16_hi b1 b0) as [? [? ?]]; try lia.
    split; [cbn [wf_event]; unfold u16; lia|]. split; [reflexivity|]. unfold layout_encode, layout_of, ser. cbn [map ser_fld concat app code]. repeat f_equal; lia.
Qed.

(* C11, decode side: on every packet the reference decoder accepts, the decoder returns the same value *)
Theorem decode_agrees_ref k p e : ref_decode k p = Some e -> decode k p = Val e.
Proof.
  intros H. destruct (ref_decode_sound k p e H) as [Hw [Hk Hp]]. subst k. rewrite Hp, <- encode_layout by assumption.
  apply roundtrip. assumption.
Qed.
