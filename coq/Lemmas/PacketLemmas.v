Require Import RP.Model.Base RP.Model.Packet RP.Spec.Frag.

(* ---- chunks7 ---- *)
Lemma chunks7_length : forall fuel d, (length d <= fuel)%nat -> length (chunks7 fuel d) = ((length d + 6) / 7)%nat.
Proof.
  induction fuel as [|k IH]; intros d H.
  - destruct d; cbn in *; [reflexivity|lia].
  - destruct d as [|x t]; [reflexivity|]. cbn [chunks7 length].
    rewrite IH by (rewrite skipn_length; cbn [length] in *; lia).
    rewrite skipn_length. cbn [length]. lia.
Qed.

Lemma chunks7_nth : forall fuel d i, (length d <= fuel)%nat -> (i < (length d + 6) / 7)%nat ->
  nth i (chunks7 fuel d) [] = firstn 7 (skipn (7 * i) d).
Proof.
  induction fuel as [|k IH]; intros d i H Hi.
  - destruct d; cbn in *; lia.
  - destruct d as [|x t]; [cbn in Hi; lia|]. cbn [chunks7].
    destruct i as [|i]; [reflexivity|]. cbn [nth].
    rewrite IH.
    + rewrite skipn_skipn'. f_equal. f_equal. lia.
    + rewrite skipn_length. cbn [length] in *. lia.
    + rewrite skipn_length. cbn [length] in *. lia.
Qed.

Lemma chunks7_concat : forall fuel d, (length d <= fuel)%nat -> concat (chunks7 fuel d) = d.
Proof.
  induction fuel as [|k IH]; intros d H.
  - destruct d; cbn in *; [reflexivity|lia].
  - destruct d as [|x t]; [reflexivity|]. cbn [chunks7 concat].
    rewrite IH by (rewrite skipn_length; cbn [length] in *; lia). apply firstn_skipn.
Qed.

Lemma combine_seq_nth {A} (l: list A) (dflt: A) : combine (seq 0 (length l)) l = map (fun i => (i, nth i l dflt)) (seq 0 (length l)).
Proof.
  assert (G: forall a, combine (seq a (length l)) l = map (fun i => (i, nth (i - a) l dflt)) (seq a (length l))).
  { induction l as [|x t IH]; intros a; [reflexivity|]. cbn [length seq combine map]. rewrite Nat.sub_diag. cbn [nth]. f_equal.
    rewrite IH. apply map_ext_in. intros i Hi. apply in_seq in Hi. replace (i - a)%nat with (S (i - S a)) by lia. reflexivity. }
  rewrite G. apply map_ext. intros i. rewrite Nat.sub_0_r. reflexivity.
Qed.

Lemma land_255 x : N.land x 255 = x mod 256.
Proof. change 255 with (N.ones 8). rewrite N.land_ones. reflexivity. Qed.

(* ---- C10 core: to_frames = reference fragmenter ---- *)
Theorem to_frames_spec p : small p -> to_frames p = Val (frag_spec p).
Proof.
  unfold small, to_frames, frag_spec. intros Hs. set (d := p_data p) in *. set (n := length d) in *.
  assert (Hn: N.of_nat n <= 28672) by (subst n; lia). clear Hs.
  destruct (n <=? 8)%nat eqn:E8.
  - apply Nat.leb_le in E8. rewrite slice_val by (subst n; lia). cbn [bind skipn].
    replace (firstn n d) with d by (symmetry; apply firstn_all). unfold nlen. fold n. rewrite N.mod_small by lia. reflexivity.
  - apply Nat.leb_gt in E8.
    set (m := ((n - 1) / 7 + 1)%nat).
    assert (Hm: m = ((n + 6) / 7)%nat) by (subst m; lia).
    assert (Hlen: length (chunks7 n d) = m) by (rewrite chunks7_length by (subst n; lia); fold n; lia).
    rewrite Hlen. rewrite <- Hlen at 2. rewrite (combine_seq_nth _ []). rewrite Hlen. rewrite map_map.
    apply mapM_ext_val. intros i Hi. apply in_seq in Hi.
    rewrite chunks7_nth by (fold n; lia).
    set (dl := if (i =? m - 1)%nat then if (n mod 7 =? 0)%nat then 8%nat else (n mod 7 + 1)%nat else 8%nat).
    assert (Hdl: (1 <= dl <= 8 /\ i * 7 + (dl - 1) <= n /\ (i * 7 + (dl - 1) = n \/ (dl = 8 /\ i < m - 1)))%nat).
    { subst dl. destruct (i =? m - 1)%nat eqn:Ei.
      - apply Nat.eqb_eq in Ei. destruct (n mod 7 =? 0)%nat eqn:E7; [apply Nat.eqb_eq in E7|apply Nat.eqb_neq in E7]; lia.
      - apply Nat.eqb_neq in Ei. lia. }
    rewrite slice_val by (fold n; lia). cbn [bind].
    assert (Hchunk: firstn (dl - 1) (skipn (i * 7) d) = firstn 7 (skipn (7 * i) d)).
    { replace (7 * i)%nat with (i * 7)%nat by lia. destruct Hdl as [Hd1 [Hd2 [He|[He _]]]]; [|rewrite He; reflexivity].
      rewrite !firstn_all2; [reflexivity| rewrite skipn_length; fold n; lia | rewrite skipn_length; fold n; lia]. }
    rewrite Hchunk.
    assert (Hcl: nlen (firstn 7 (skipn (7 * i) d)) + 1 = N.of_nat dl mod 256).
    { rewrite <- Hchunk. unfold nlen. rewrite firstn_length, skipn_length. fold n. rewrite N.mod_small by lia. lia. }
    rewrite Hcl. rewrite !land_255.
    destruct (i =? 0)%nat eqn:E0.
    + assert (Hz: (N.of_nat m mod 65536 =? 0) = false) by lia. rewrite Hz. cbn [bind].
      replace (N.of_nat m mod 65536 - 1) with (N.of_nat (m - 1)) by lia. reflexivity.
    + cbn [bind]. rewrite (N.mod_small (N.of_nat i) 65536) by lia. reflexivity.
Qed.
