Require Import RP.Model.Base RP.Model.Packet RP.Model.Cobs RP.Model.Frame RP.Spec.CanLayout RP.Lemmas.Bits RP.Lemmas.FrameUsart.

Lemma can_id_arith f : f_id f < 4096 -> f_addr f < 65536 -> can_id f = can_id_spec f.
Proof.
  intros Hf Ha. unfold can_id, can_id_spec. fold (nib (f_id f)). rewrite nib_spec by assumption.
  rewrite land_ffff, N.mod_small by lia.
  assert (Hn: f_id f / 256 < 16) by lia.
  replace (N.lor (N.lor (N.lor (N.lor (N.shiftl (b2N (f_ne f)) 28) (N.shiftl (b2N (f_st f)) 27)) (N.shiftl (b2N (f_mf f)) 26)) (N.shiftl (f_id f / 256) 16)) (f_addr f))
    with (N.lor (N.shiftl (b2N (f_ne f) * 4096 + b2N (f_st f) * 2048 + b2N (f_mf f) * 1024 + f_id f / 256) 16) (f_addr f)).
  - rewrite lor_shiftl_add by (change (2^16) with 65536; lia). change (2^16) with 65536. lia.
  - f_equal.
    assert (S: forallb (fun n => forallb (fun '(a,b,c) => N.shiftl (b2N a * 4096 + b2N b * 2048 + b2N c * 1024 + n) 16 =? N.lor (N.lor (N.lor (N.shiftl (b2N a) 28) (N.shiftl (b2N b) 27)) (N.shiftl (b2N c) 26)) (N.shiftl n 16)) flags8)
               (map N.of_nat (seq 0 16)) = true) by (vm_compute; reflexivity).
    pose proof (sweep _ _ S (f_id f / 256) Hn) as Hs. cbv beta in Hs. rewrite forallb_forall in Hs.
    specialize (Hs (f_ne f, f_st f, f_mf f) (flags8_all _ _ _)). cbv beta iota in Hs. apply N.eqb_eq. exact Hs.
Qed.

Lemma can_id_spec_lt f : f_id f < 4096 -> f_addr f < 65536 -> can_id_spec f < 536870912.
Proof. intros. unfold can_id_spec. destruct (f_ne f), (f_st f), (f_mf f); cbn [b2N]; lia. Qed.

(* C08 encode side: identifier layout, extended data frame, payload = the data bytes *)
Theorem to_bxcan_layout f : wf_frame f = true ->
  to_bxcan f = Val (mkCF true false (can_id_spec f) (f_dlen f) (firstn (N.to_nat (f_dlen f)) (f_data f))).
Proof.
  intros Hwf. destruct (wf_frame_parts f Hwf) as [Hd [Hi [Ha [Hl [Hb Hz]]]]].
  unfold to_bxcan. rewrite can_id_arith by assumption.
  pose proof (can_id_spec_lt f Hi Ha) as Hlt.
  assert (E: (536870912 <=? can_id_spec f) = false) by lia. rewrite E.
  rewrite slice_val by lia. reflexivity.
Qed.

Lemma flag_bit id k : negb (N.land (N.shiftr id k) 1 =? 0) = ((id / 2 ^ k) mod 2 =? 1).
Proof. apply (bit_arith id k). Qed.

Lemma wf_canframe_data c : wf_canframe c = true -> cf_remote c = false ->
  (length (cf_data c) <= 8)%nat /\ bytes (cf_data c) = true.
Proof.
  unfold wf_canframe. intros H Hr. rewrite Hr in H. apply andb_prop in H. destruct H as [_ H].
  apply andb_prop in H. destruct H as [H _]. apply andb_prop in H. destruct H as [H1 H2].
  split; [apply Nat.leb_le; exact H1|exact H2].
Qed.

(* C08 decode side: for every driver-constructible frame the decoder is the arithmetic layout *)
Theorem from_bxcan_layout c : wf_canframe c = true -> from_bxcan c = can_spec_decode c.
Proof.
  intros Hwf. unfold from_bxcan, can_spec_decode.
  destruct (cf_ext c) eqn:Ee; cbn [negb]; [|reflexivity].
  destruct (cf_remote c) eqn:Er; [reflexivity|].
  destruct (wf_canframe_data c Hwf Er) as [Hl Hb].
  assert (E8: (8 <? nlen (cf_data c)) = false) by (unfold nlen; lia). rewrite E8.
  rewrite slice_val by (unfold nlen; lia). cbn [bind skipn].
  replace (firstn (N.to_nat (nlen (cf_data c))) (cf_data c)) with (cf_data c)
    by (symmetry; apply firstn_all2; unfold nlen; lia).
  rewrite !flag_bit. change (2 ^ 28) with 268435456. change (2 ^ 27) with 134217728. change (2 ^ 26) with 67108864.
  rewrite N.shiftr_0_r, land_ffff, N.shiftr_div_pow2, land_f. change (2 ^ 16) with 65536.
  destruct ((cf_id c / 67108864) mod 2 =? 1) eqn:Em.
  - destruct (cf_data c) as [|d0 t] eqn:Ed.
    + reflexivity.
    + assert (E0: (nlen (d0 :: t) =? 0) = false) by (unfold nlen; cbn [length]; lia). rewrite E0.
      unfold idx, pad8. cbn [app nth_error bind].
      unfold bytes in Hb. cbn [forallb] in Hb. apply andb_prop in Hb. destruct Hb as [Hb0 _]. unfold byte in Hb0.
      rewrite join16 by lia. reflexivity.
  - reflexivity.
Qed.

(* reserved identifier bits 25..20 are ignored: two frames that agree on bits 28..26, 19..16 and 15..0 decode alike *)
Lemma can_spec_decode_reserved c c' :
  cf_ext c' = cf_ext c -> cf_remote c' = cf_remote c -> cf_data c' = cf_data c ->
  cf_id c' / 67108864 = cf_id c / 67108864 -> (cf_id c' / 65536) mod 16 = (cf_id c / 65536) mod 16 -> cf_id c' mod 65536 = cf_id c mod 65536 ->
  can_spec_decode c' = can_spec_decode c.
Proof.
  intros He Hr Hd H26 Hn Ha. unfold can_spec_decode. rewrite He, Hr, Hd, Hn, Ha.
  replace ((cf_id c' / 268435456) mod 2) with ((cf_id c / 268435456) mod 2) by lia.
  replace ((cf_id c' / 134217728) mod 2) with ((cf_id c / 134217728) mod 2) by lia.
  replace ((cf_id c' / 67108864) mod 2) with ((cf_id c / 67108864) mod 2) by lia.
  reflexivity.
Qed.

Theorem from_bxcan_reserved c c' : wf_canframe c = true -> wf_canframe c' = true ->
  cf_ext c' = cf_ext c -> cf_remote c' = cf_remote c -> cf_data c' = cf_data c ->
  cf_id c' / 67108864 = cf_id c / 67108864 -> (cf_id c' / 65536) mod 16 = (cf_id c / 65536) mod 16 -> cf_id c' mod 65536 = cf_id c mod 65536 ->
  from_bxcan c' = from_bxcan c.
Proof. intros H1 H2 **. rewrite !from_bxcan_layout by assumption. apply can_spec_decode_reserved; assumption. Qed.

(* rejections *)
Theorem from_bxcan_rejects c : wf_canframe c = true ->
  (cf_ext c = false -> from_bxcan c = Fail FrameIsStandard) /\
  (cf_ext c = true -> cf_remote c = true -> from_bxcan c = Fail FrameIsRemote) /\
  (cf_ext c = true -> cf_remote c = false -> (cf_id c / 67108864) mod 2 = 1 -> cf_data c = [] -> from_bxcan c = Fail FrameIdMissing).
Proof.
  intros Hwf. rewrite from_bxcan_layout by assumption. unfold can_spec_decode. repeat split.
  - intros ->. reflexivity.
  - intros -> ->. reflexivity.
  - intros -> -> Hm ->. cbn [negb]. rewrite Hm. reflexivity.
Qed.

Lemma fragment_shaped_parts f : fragment_shaped f = true ->
  (f_mf f = true /\ 1 <= f_dlen f /\ nth 0 (f_data f) 0 = f_id f mod 256 /\ f_last f = f_st f) \/
  (f_mf f = false /\ f_st f = true /\ f_last f = true /\ f_id f = 0).
Proof.
  unfold fragment_shaped. destruct (f_mf f).
  - intros H. left. apply andb_prop in H. destruct H as [H H3]. apply andb_prop in H. destruct H as [H1 H2].
    apply eqb_prop in H3. split; [reflexivity|]. split; [lia|]. split; [lia|assumption].
  - intros H. right. apply andb_prop in H. destruct H as [H H3]. apply andb_prop in H. destruct H as [H1 H2].
    split; [reflexivity|]. split; [assumption|]. split; [assumption|lia].
Qed.

(* C08 round trip for every frame fragmentation can produce *)
Theorem bxcan_roundtrip f : wf_frame f = true -> fragment_shaped f = true ->
  exists c, to_bxcan f = Val c /\ wf_canframe c = true /\ from_bxcan c = Val f.
Proof.
  intros Hwf Hfs. destruct (wf_frame_parts f Hwf) as [Hd [Hi [Ha [Hl [Hb Hz]]]]].
  eexists. split; [apply to_bxcan_layout; assumption|].
  set (k := N.to_nat (f_dlen f)) in *.
  assert (Hfl: length (firstn k (f_data f)) = k) by (rewrite firstn_length; lia).
  assert (Hwc: wf_canframe (mkCF true false (can_id_spec f) (f_dlen f) (firstn k (f_data f))) = true).
  { unfold wf_canframe. cbn [cf_ext cf_remote cf_id cf_dlc cf_data].
    pose proof (can_id_spec_lt f Hi Ha). rewrite (bytes_firstn k _ Hb). unfold nlen. rewrite Hfl. lia. }
  split; [exact Hwc|]. rewrite from_bxcan_layout by exact Hwc. unfold can_spec_decode. cbn [cf_ext cf_remote cf_id cf_dlc cf_data negb].
  assert (Hne: ((can_id_spec f / 268435456) mod 2 =? 1) = f_ne f) by (unfold can_id_spec; destruct (f_ne f), (f_st f), (f_mf f); cbn [b2N]; lia).
  assert (Hst: ((can_id_spec f / 134217728) mod 2 =? 1) = f_st f) by (unfold can_id_spec; destruct (f_ne f), (f_st f), (f_mf f); cbn [b2N]; lia).
  assert (Hmf: ((can_id_spec f / 67108864) mod 2 =? 1) = f_mf f) by (unfold can_id_spec; destruct (f_ne f), (f_st f), (f_mf f); cbn [b2N]; lia).
  assert (Hnb: (can_id_spec f / 65536) mod 16 = f_id f / 256) by (unfold can_id_spec; destruct (f_ne f), (f_st f), (f_mf f); cbn [b2N]; lia).
  assert (Had: can_id_spec f mod 65536 = f_addr f) by (unfold can_id_spec; destruct (f_ne f), (f_st f), (f_mf f); cbn [b2N]; lia).
  rewrite Hne, Hst, Hmf, Hnb, Had. unfold nlen. rewrite Hfl.
  replace (N.of_nat k) with (f_dlen f) by lia. rewrite pad8_restore by (assumption || lia).
  destruct (fragment_shaped_parts f Hfs) as [[Hm [H1 [H0 Hla]]]|[Hm [Hs [Hla H0]]]]; rewrite Hm.
  - destruct (f_data f) as [|d0 t] eqn:Ed; [cbn in Hl; lia|].
    assert (Hk: (1 <= k)%nat) by lia. destruct k as [|k']; [lia|]. cbn [firstn]. cbn [nth] in H0. rewrite H0.
    replace (f_id f / 256 * 256 + f_id f mod 256) with (f_id f) by lia.
    destruct f as [ne st mf lst fid addr dl dat]. cbn [f_ne f_st f_mf f_last f_id f_addr f_dlen f_data] in *. subst. reflexivity.
  - destruct f as [ne st mf lst fid addr dl dat]. cbn [f_ne f_st f_mf f_last f_id f_addr f_dlen f_data] in *. subst. reflexivity.
Qed.

(* C04 core for CAN: total on every driver-constructible frame, accepted frames are well-formed *)
Theorem from_bxcan_total c : wf_canframe c = true ->
  from_bxcan c <> Panic /\ from_bxcan c <> Hang /\ (forall f, from_bxcan c = Val f -> wf_frame f = true /\ f_last f = f_st f).
Proof.
  intros Hwf. rewrite from_bxcan_layout by assumption. unfold can_spec_decode.
  destruct (cf_ext c) eqn:Ee; cbn [negb]; [|repeat split; discriminate].
  destruct (cf_remote c) eqn:Er; [repeat split; discriminate|].
  destruct (wf_canframe_data c Hwf Er) as [Hl Hb].
  destruct (pad8_wf (cf_data c) Hl Hb) as [P1 [P2 P3]].
  assert (Hwfm: forall ne st mf la fid, fid < 4096 -> wf_frame (mkF ne st mf la fid (cf_id c mod 65536) (nlen (cf_data c)) (pad8 (cf_data c))) = true).
  { intros. unfold wf_frame. cbn [f_dlen f_id f_addr f_data]. unfold nlen. rewrite Nnat.Nat2N.id, P2, P3. lia. }
  destruct ((cf_id c / 67108864) mod 2 =? 1).
  - destruct (cf_data c) as [|d0 t] eqn:Ed; [repeat split; discriminate|].
    split; [discriminate|]. split; [discriminate|]. intros f Hf. inversion Hf; subst f. split; [|reflexivity].
    apply Hwfm. unfold bytes in Hb. cbn [forallb] in Hb. apply andb_prop in Hb. destruct Hb as [Hb0 _]. unfold byte in Hb0. lia.
  - split; [discriminate|]. split; [discriminate|]. intros f Hf. inversion Hf; subst f. split; [|reflexivity]. apply Hwfm. lia.
Qed.
