(* C13 / C06 / C19 at link level, for the three receivers. *)
Require Import RP.Model.Base RP.Model.Packet RP.Model.Cobs RP.Model.Frame RP.Model.Links RP.Spec.Frag RP.Spec.CanLayout
  RP.Lemmas.PacketLemmas RP.Lemmas.FrameUsart RP.Lemmas.FrameCan RP.Lemmas.Reasm RP.Lemmas.FragWf RP.Lemmas.Builder RP.Lemmas.OnFrame
  RP.Lemmas.LinkGeneric RP.Lemmas.LinkUsart RP.Lemmas.LinkSerialCan RP.Lemmas.CobsLemmas.

Definition wfp (p: packet) : Prop := wf_packet p = true.

Lemma frags_good ps : Forall wfp ps -> Forall small ps -> Forall good_frame (concat (map frag_spec ps)).
Proof.
  induction ps as [|p t IH]; intros Hw Hs; [constructor|]. apply Forall_cons_iff in Hw. apply Forall_cons_iff in Hs.
  destruct Hw as [Hw1 Hw2]. destruct Hs as [Hs1 Hs2]. cbn [map concat]. apply Forall_app. split; [apply frag_spec_good; assumption|apply IH; assumption].
Qed.

Lemma filter_notnone_packets ps : filter notnone (map RPacket ps) = map RPacket ps.
Proof. induction ps as [|p t IH]; [reflexivity|]. cbn. rewrite IH. reflexivity. Qed.

(* from the flat run to the harness loop *)
Lemma polls_of_run (M: machine) (Hex: mexh M (idle M) = RNone) s b rs bf fuel :
  run M (idle M) b s = (rs, idle M, bf) -> (length s < fuel)%nat ->
  filter notnone (map fst (fst (polls M fuel b s))) = filter notnone rs /\ snd (polls M fuel b s) = bf /\
  (forall r, In r (map fst (fst (polls M fuel b s))) -> In r rs \/ r = RNone).
Proof.
  intros Hr Hf. destruct (polls_run M Hex fuel s b rs bf Hf Hr) as [k [Hk [H1 H2]]]. rewrite H1. split; [|split; [exact H2|]].
  - rewrite filter_app, filter_notnone_repeat, app_nil_r. reflexivity.
  - intros r Hin. apply in_app_or in Hin. destruct Hin as [Hin|Hin]; [left; exact Hin|right; eapply repeat_spec; exact Hin].
Qed.

(* ================= C13: transparency under every polling schedule ================= *)

(* USART: WouldBlock any number of times anywhere (between any two bytes) *)
Theorem transparent_usart ps s fuel : Forall wfp ps -> Forall small ps -> no_rderr s -> bytes_of s = wire_packets ps -> (length s < fuel)%nat ->
  filter notnone (map fst (fst (polls usart fuel None s))) = map RPacket ps /\ snd (polls usart fuel None s) = None /\
  (forall r, In r (map fst (fst (polls usart fuel None s))) -> r = RNone \/ exists p, In p ps /\ r = RPacket p).
Proof.
  intros Hw Hs Hn Hb Hf.
  pose proof (run_schedule_insensitive s UIdle None Hn) as Hsi. rewrite Hb in Hsi.
  pose proof (run_usart_frames (concat (map frag_spec ps)) None [] (frags_good ps Hw Hs)) as Hrf.
  rewrite app_nil_r in Hrf. fold (wire_packets ps) in Hrf. rewrite frun_packets in Hrf by assumption. cbn [run] in Hrf. rewrite app_nil_r in Hrf.
  rewrite Hrf in Hsi. destruct (run usart UIdle None s) as [[rs phf] bf] eqn:Hr. destruct Hsi as [H1 [H2 H3]]. subst phf bf.
  rewrite filter_notnone_packets in H1.
  destruct (polls_of_run usart eq_refl s None rs None fuel Hr Hf) as [P1 [P2 P3]].
  split; [rewrite P1; exact H1|]. split; [exact P2|].
  intros r Hin. destruct (P3 r Hin) as [Hrs | Hrn]; [|left; exact Hrn].
  destruct (notnone r) eqn:En; [|destruct r; try discriminate; left; reflexivity].
  assert (Hin2: In r (filter notnone rs)) by (apply filter_In; split; [exact Hrs|exact En]).
  rewrite H1 in Hin2. apply in_map_iff in Hin2. destruct Hin2 as [q [Hq Hqin]].
  right. exists q. split; [exact Hqin|symmetry; exact Hq].
Qed.

(* serial port and CAN: 'no data yet' any number of times between link frames *)
Definition gapped {T} (gap: T) (enc: frame -> list T) (it: nat * frame) : list T := repeat gap (fst it) ++ enc (snd it).

Lemma run_quiet (M: machine) (q: tok M) : (forall b, mstep M (idle M) b q = (Emit RNone, b)) ->
  forall n b rest, run M (idle M) b (repeat q n ++ rest) = let '(rs, ph, bf) := run M (idle M) b rest in (repeat RNone n ++ rs, ph, bf).
Proof.
  intros Hq. induction n as [|n IH]; intros b rest; cbn [repeat app].
  - destruct (run M (idle M) b rest) as [[? ?] ?]. reflexivity.
  - cbn [run]. rewrite Hq. rewrite IH. destruct (run M (idle M) b rest) as [[? ?] ?]. reflexivity.
Qed.

Lemma run_gapped (M: machine) (q: tok M) (enc: frame -> list (tok M)) :
  (forall b, mstep M (idle M) b q = (Emit RNone, b)) ->
  (forall fs st rest, Forall good_frame fs ->
     run M (idle M) st (concat (map enc fs) ++ rest) = let '(rs1, st1) := frun st fs in let '(rs2, ph, bf) := run M (idle M) st1 rest in (rs1 ++ rs2, ph, bf)) ->
  forall its st, Forall (fun it => good_frame (snd it)) its ->
  exists rs, run M (idle M) st (concat (map (gapped q enc) its)) = (rs, idle M, snd (frun st (map snd its))) /\
             filter notnone rs = filter notnone (fst (frun st (map snd its))).
Proof.
  intros Hq Hfr. induction its as [|[g f] t IH]; intros st H.
  - exists []. split; reflexivity.
  - apply Forall_cons_iff in H. destruct H as [Hf Ht]. cbn [map concat]. unfold gapped at 1. cbn [fst snd].
    rewrite <- app_assoc. rewrite (run_quiet M q Hq).
    pose proof (Hfr [f] st (concat (map (gapped q enc) t)) (Forall_cons _ Hf (Forall_nil _))) as H1.
    cbn [map concat] in H1. rewrite app_nil_r in H1. rewrite H1. clear H1.
    cbn [frun]. destruct (on_frame st f) as [st' r]. cbn [frun]. destruct (IH st' Ht) as [rs [Hr Hfl]]. rewrite Hr.
    destruct (frun st' (map snd t)) as [rsf stf] eqn:Ef. cbn [fst snd] in *.
    eexists. split; [reflexivity|]. rewrite !filter_app, filter_notnone_repeat. cbn [app]. rewrite Hfl. destruct r as [r|]; [|reflexivity]. cbn [cons_opt filter]. destruct (notnone r); reflexivity.
Qed.

Definition frames_tokens_serial (f: frame) : list stok := map SB (link_frame (enc_of f)).
Definition frames_tokens_can (f: frame) : list ctok := [CF (can_of f)].

Lemma transparent_gapped (M: machine) (Hex: mexh M (idle M) = RNone) (q: tok M) (enc: frame -> list (tok M))
  (Hq: forall b, mstep M (idle M) b q = (Emit RNone, b))
  (Hfr: forall fs st rest, Forall good_frame fs ->
     run M (idle M) st (concat (map enc fs) ++ rest) = let '(rs1, st1) := frun st fs in let '(rs2, ph, bf) := run M (idle M) st1 rest in (rs1 ++ rs2, ph, bf))
  ps its fuel : Forall wfp ps -> Forall small ps -> map snd its = concat (map frag_spec ps) ->
  let s := concat (map (gapped q enc) its) in (length s < fuel)%nat ->
  filter notnone (map fst (fst (polls M fuel None s))) = map RPacket ps /\ snd (polls M fuel None s) = None.
Proof.
  intros Hw Hs Hits s Hf.
  assert (Hg: Forall (fun it => good_frame (snd it)) its).
  { pose proof (frags_good ps Hw Hs) as G. rewrite <- Hits in G. rewrite Forall_forall in *. intros it Hin. apply G. apply in_map. exact Hin. }
  destruct (run_gapped M q enc Hq Hfr its None Hg) as [rs [Hr Hfl]]. rewrite Hits, frun_packets in * by assumption. cbn [fst snd] in *.
  destruct (polls_of_run M Hex s None rs None fuel Hr Hf) as [P1 [P2 _]].
  split; [rewrite P1, Hfl; apply filter_notnone_packets|exact P2].
Qed.

Theorem transparent_serial ps its fuel : Forall wfp ps -> Forall small ps -> map snd its = concat (map frag_spec ps) ->
  let s := concat (map (gapped STO frames_tokens_serial) its) in (length s < fuel)%nat ->
  filter notnone (map fst (fst (polls serial fuel None s))) = map RPacket ps /\ snd (polls serial fuel None s) = None.
Proof.
  apply (transparent_gapped serial eq_refl STO frames_tokens_serial); [reflexivity|].
  intros fs st rest H. apply (run_serial_frames fs st rest H).
Qed.

(* the serial port's reads may also be interrupted (EINTR) any number of times at any point, inside frames too: read_exact retries *)
Definition drop_sint (s: list stok) : list stok := filter (fun t => match t with SINT => false | _ => true end) s.
Lemma run_serial_drop_sint : forall s ph b, run serial ph b s = run serial ph b (drop_sint s).
Proof.
  induction s as [|t s IH]; intros ph b; [reflexivity|]. destruct t as [x| | |].
  - cbn [drop_sint filter run]. destruct (mstep serial ph b (SB x)) as [[r|ph'] b']; [rewrite (IH (idle serial) b')|rewrite (IH ph' b')]; reflexivity.
  - cbn [drop_sint filter run]. destruct (mstep serial ph b STO) as [[r|ph'] b']; [rewrite (IH (idle serial) b')|rewrite (IH ph' b')]; reflexivity.
  - cbn [drop_sint filter run]. assert (E: mstep serial ph b SINT = (Cont ph, b)) by (destruct ph; reflexivity). rewrite E. apply IH.
  - cbn [drop_sint filter run]. destruct (mstep serial ph b SERR) as [[r|ph'] b']; [rewrite (IH (idle serial) b')|rewrite (IH ph' b')]; reflexivity.
Qed.
Theorem transparent_serial_interrupted ps its fuel s' : Forall wfp ps -> Forall small ps -> map snd its = concat (map frag_spec ps) ->
  drop_sint s' = concat (map (gapped STO frames_tokens_serial) its) -> (length s' < fuel)%nat ->
  filter notnone (map fst (fst (polls serial fuel None s'))) = map RPacket ps /\ snd (polls serial fuel None s') = None.
Proof.
  intros Hw Hs Hits Hd Hf.
  assert (Hg: Forall (fun it => good_frame (snd it)) its).
  { pose proof (frags_good ps Hw Hs) as G. rewrite <- Hits in G. rewrite Forall_forall in *. intros it Hin. apply G. apply in_map. exact Hin. }
  destruct (run_gapped serial STO frames_tokens_serial (fun b => eq_refl) (fun fs st rest H => run_serial_frames fs st rest H) its None Hg) as [rs [Hr Hfl]].
  rewrite Hits, frun_packets in * by assumption. cbn [fst snd] in *.
  assert (Hr': run serial (idle serial) None s' = (rs, idle serial, None)) by (rewrite run_serial_drop_sint, Hd; exact Hr).
  destruct (polls_of_run serial eq_refl s' None rs None fuel Hr' Hf) as [P1 [P2 _]].
  split; [rewrite P1, Hfl; apply filter_notnone_packets|exact P2].
Qed.

Theorem transparent_can ps its fuel : Forall wfp ps -> Forall small ps -> map snd its = concat (map frag_spec ps) ->
  let s := concat (map (gapped CWB frames_tokens_can) its) in (length s < fuel)%nat ->
  filter notnone (map fst (fst (polls can fuel None s))) = map RPacket ps /\ snd (polls can fuel None s) = None.
Proof.
  apply (transparent_gapped can eq_refl CWB frames_tokens_can); [reflexivity|].
  intros fs st rest H. apply (run_can_frames fs st rest H).
Qed.

(* ================= C06 / C19: hostile traffic, resynchronisation, bounded holding ================= *)
Definition good (r: res) : Prop := good_res (Some r).

(* a step function is safe when it preserves the receiver invariant and never panics / hangs, and
   clears the receiver when it delivers a packet or reports a reassembly error *)
Definition safe_step {A} (P: A -> Prop) (stepf: option builder -> A -> option builder * option res) : Prop :=
  forall st a, rx_ok st -> P a ->
    rx_ok (fst (stepf st a)) /\ good_res (snd (stepf st a)) /\
    (forall p, snd (stepf st a) = Some (RPacket p) -> fst (stepf st a) = None) /\
    (forall e, snd (stepf st a) = Some (RErr (LBuilder e)) -> fst (stepf st a) = None).

Lemma srun_safe {A} (P: A -> Prop) stepf : safe_step P stepf ->
  forall items st, rx_ok st -> Forall P items -> rx_ok (snd (srun stepf st items)) /\ Forall good (fst (srun stepf st items)).
Proof.
  intros Hs. induction items as [|a t IH]; intros st Hst H; [split; [exact Hst|constructor]|].
  apply Forall_cons_iff in H. destruct H as [Ha Ht]. cbn [srun]. destruct (Hs st a Hst Ha) as [H1 [H2 _]].
  destruct (stepf st a) as [st' r]. cbn [fst snd] in *. destruct (IH st' H1 Ht) as [I1 I2]. destruct (srun stepf st' t) as [rs stf]. cbn [fst snd] in *.
  split; [exact I1|]. destruct r as [r|]; cbn [cons_opt']; [constructor; [exact H2|exact I2]|exact I2].
Qed.

(* C19 (bookkeeping): after ANY prefix of the traffic the receiver holds at most the announced number of
   frames of one packet, itself at most 4096 *)
Theorem held_bounded {A} (P: A -> Prop) stepf : safe_step P stepf ->
  forall items k, Forall P items ->
  let st := snd (srun stepf None (firstn k items)) in held st <= announced st /\ announced st <= 4096.
Proof.
  intros Hs items k H st. apply rx_ok_bound. apply (srun_safe P stepf Hs); [exact I|].
  rewrite Forall_forall in *. intros x Hx. apply H. eapply In_firstn'; exact Hx.
Qed.

Lemma on_body_safe : safe_step (fun body => bytes body = true) on_body.
Proof.
  intros st body Hst Hb. unfold on_body. destruct (from_usart_total body Hb) as [Hp [Hh Hw]].
  apply on_decoded_ok; try assumption. intros f Hf. apply (Hw f Hf).
Qed.
Lemma on_can_safe : safe_step (fun c => wf_canframe c = true) (fun st c => on_decoded st (from_bxcan c)).
Proof.
  intros st c Hst Hc. destruct (from_bxcan_total c Hc) as [Hp [Hh Hw]].
  apply on_decoded_ok; try assumption. intros f Hf. apply (Hw f Hf).
Qed.

(* ---- items of hostile traffic ---- *)
(* USART / serial port: a whole link frame (delimiter, any length byte, that many arbitrary bytes),
   a non-zero noise byte, or a 'no data yet' answer between frames *)
Inductive bitem := IRaw (body: list N) | INoise (x: N) | IGap.
Definition bitem_ok (i: bitem) : Prop :=
  match i with IRaw body => (length body < 256)%nat /\ bytes body = true | INoise x => 0 < x /\ x < 256 | IGap => True end.
Definition bitem_step (st: option builder) (i: bitem) : option builder * option res :=
  match i with IRaw body => on_body st body | INoise _ => (st, None) | IGap => (st, Some RNone) end.
Definition uitem_toks (i: bitem) : list utok := match i with IRaw body => map UB (link_frame body) | INoise x => [UB x] | IGap => [UWB] end.
Definition sitem_toks (i: bitem) : list stok := match i with IRaw body => map SB (link_frame body) | INoise x => [SB x] | IGap => [STO] end.
(* CAN: any driver-constructible frame, a would-block answer, an overrun report *)
Inductive citem := KFrame (c: canframe) | KGap | KOverrun.
Definition citem_ok (i: citem) : Prop := match i with KFrame c => wf_canframe c = true | _ => True end.
Definition citem_step (st: option builder) (i: citem) : option builder * option res :=
  match i with KFrame c => on_decoded st (from_bxcan c) | _ => (st, Some RNone) end.
Definition citem_toks (i: citem) : list ctok := match i with KFrame c => [CF c] | KGap => [CWB] | KOverrun => [COverrun] end.

Lemma bitem_safe : safe_step bitem_ok bitem_step.
Proof.
  intros st i Hst Hi. destruct i as [body|x|]; cbn [bitem_step bitem_ok] in *.
  - apply on_body_safe; [exact Hst|apply Hi].
  - cbn. split; [exact Hst|]. split; [exact I|]. split; intros; discriminate.
  - cbn. split; [exact Hst|]. split; [exact I|]. split; intros; discriminate.
Qed.
Lemma citem_safe : safe_step citem_ok citem_step.
Proof.
  intros st i Hst Hi. destruct i as [c| |]; cbn [citem_step citem_ok] in *.
  - apply on_can_safe; assumption.
  - cbn. split; [exact Hst|]. split; [exact I|]. split; intros; discriminate.
  - cbn. split; [exact Hst|]. split; [exact I|]. split; intros; discriminate.
Qed.

Lemma uitem_run b i : bitem_ok i -> run usart UIdle b (uitem_toks i) = (cons_opt' (snd (bitem_step b i)) [], UIdle, fst (bitem_step b i)).
Proof.
  destruct i as [body|x|]; cbn [bitem_ok uitem_toks bitem_step]; intros H.
  - destruct H as [Hl _]. rewrite <- (app_nil_r (map UB (link_frame body))). rewrite run_link_frame by exact Hl.
    unfold after. cbn [run]. destruct (on_body b body) as [b' [r|]]; reflexivity.
  - cbn [run mstep usart ustep]. assert (E: (x =? 0) = false) by lia. rewrite E. reflexivity.
  - reflexivity.
Qed.
Lemma sitem_run b i : bitem_ok i -> run serial UIdle b (sitem_toks i) = (cons_opt' (snd (bitem_step b i)) [], UIdle, fst (bitem_step b i)).
Proof.
  destruct i as [body|x|]; cbn [bitem_ok sitem_toks bitem_step]; intros H.
  - destruct H as [Hl _]. apply run_link_frame_serial. exact Hl.
  - cbn [run mstep serial sstep]. assert (E: (x =? 0) = false) by lia. rewrite E. reflexivity.
  - reflexivity.
Qed.
Lemma citem_run b i : citem_ok i -> run can tt b (citem_toks i) = (cons_opt' (snd (citem_step b i)) [], tt, fst (citem_step b i)).
Proof.
  destruct i as [c| |]; cbn [citem_toks citem_step]; intros _; [apply run_can_frame|reflexivity|reflexivity].
Qed.

(* ---- the statement of C06, generically over a link ---- *)
Definition probe_shape (p1 p2: packet) (probe: list res) : Prop :=
  probe = [RPacket p1; RPacket p2] \/ (exists errs, errs <> [] /\ Forall is_err errs /\ probe = errs ++ [RPacket p2]).

Theorem resync_generic (M: machine) (Hex: mexh M (idle M) = RNone) {A} (P: A -> Prop) (enc: A -> list (tok M)) stepf (encf: frame -> list (tok M))
  (Hsafe: safe_step P stepf)
  (Hitem: forall b a, P a -> run M (idle M) b (enc a) = (cons_opt' (snd (stepf b a)) [], idle M, fst (stepf b a)))
  (Hfr: forall fs st rest, Forall good_frame fs ->
     run M (idle M) st (concat (map encf fs) ++ rest) = let '(rs1, st1) := frun st fs in let '(rs2, ph, bf) := run M (idle M) st1 rest in (rs1 ++ rs2, ph, bf))
  items p1 p2 fuel : Forall P items -> wfp p1 -> wfp p2 -> small p1 -> small p2 ->
  let s := concat (map enc items) ++ concat (map encf (frag_spec p1 ++ frag_spec p2)) in (length s < fuel)%nat ->
  exists pre probe k, (1 <= k <= 2)%nat /\
    map fst (fst (polls M fuel None s)) = pre ++ probe ++ repeat RNone k /\
    Forall good pre /\ probe_shape p1 p2 probe /\ snd (polls M fuel None s) = None.
Proof.
  intros Hit Hw1 Hw2 Hs1 Hs2 s Hf.
  pose proof (run_items M enc stepf P Hitem items None (concat (map encf (frag_spec p1 ++ frag_spec p2))) Hit) as Hr.
  destruct (srun_safe P stepf Hsafe items None I Hit) as [Hst Hgood].
  destruct (srun stepf None items) as [pre st] eqn:Es. cbn [fst snd] in *.
  assert (Hg: Forall good_frame (frag_spec p1 ++ frag_spec p2)) by (apply Forall_app; split; apply frag_spec_good; assumption).
  pose proof (Hfr (frag_spec p1 ++ frag_spec p2) st [] Hg) as Hr2. rewrite app_nil_r in Hr2. rewrite Hr2 in Hr. clear Hr2.
  pose proof (resync st p1 p2 Hs1 Hs2) as Hre. destruct (frun st (frag_spec p1 ++ frag_spec p2)) as [probe stf]. destruct Hre as [-> Hshape].
  cbn [run] in Hr. rewrite app_nil_r in Hr.
  destruct (polls_run M Hex fuel s None (pre ++ probe) None Hf Hr) as [k [Hk [H1 H2]]].
  exists pre, probe, k. split; [exact Hk|]. split; [rewrite H1, app_assoc; reflexivity|]. split; [exact Hgood|]. split; [|exact H2].
  destruct Hshape as [[_ ->]|[_ [errs [He [Hall ->]]]]]; [left; reflexivity|right; exists errs; auto].
Qed.

Theorem resync_usart items p1 p2 fuel : Forall bitem_ok items -> wfp p1 -> wfp p2 -> small p1 -> small p2 ->
  let s := concat (map uitem_toks items) ++ concat (map (fun f => map UB (link_frame (enc_of f))) (frag_spec p1 ++ frag_spec p2)) in (length s < fuel)%nat ->
  exists pre probe k, (1 <= k <= 2)%nat /\ map fst (fst (polls usart fuel None s)) = pre ++ probe ++ repeat RNone k /\
    Forall good pre /\ probe_shape p1 p2 probe /\ snd (polls usart fuel None s) = None.
Proof.
  apply (resync_generic usart eq_refl bitem_ok uitem_toks bitem_step (fun f => map UB (link_frame (enc_of f))) bitem_safe uitem_run).
  intros fs st rest H. pose proof (run_usart_frames fs st rest H) as Hr. unfold wire_frames in Hr. rewrite concat_map, map_map in Hr. exact Hr.
Qed.
Theorem resync_serial items p1 p2 fuel : Forall bitem_ok items -> wfp p1 -> wfp p2 -> small p1 -> small p2 ->
  let s := concat (map sitem_toks items) ++ concat (map frames_tokens_serial (frag_spec p1 ++ frag_spec p2)) in (length s < fuel)%nat ->
  exists pre probe k, (1 <= k <= 2)%nat /\ map fst (fst (polls serial fuel None s)) = pre ++ probe ++ repeat RNone k /\
    Forall good pre /\ probe_shape p1 p2 probe /\ snd (polls serial fuel None s) = None.
Proof.
  apply (resync_generic serial eq_refl bitem_ok sitem_toks bitem_step frames_tokens_serial bitem_safe sitem_run).
  intros fs st rest H. apply (run_serial_frames fs st rest H).
Qed.
Theorem resync_can items p1 p2 fuel : Forall citem_ok items -> wfp p1 -> wfp p2 -> small p1 -> small p2 ->
  let s := concat (map citem_toks items) ++ concat (map frames_tokens_can (frag_spec p1 ++ frag_spec p2)) in (length s < fuel)%nat ->
  exists pre probe k, (1 <= k <= 2)%nat /\ map fst (fst (polls can fuel None s)) = pre ++ probe ++ repeat RNone k /\
    Forall good pre /\ probe_shape p1 p2 probe /\ snd (polls can fuel None s) = None.
Proof.
  apply (resync_generic can eq_refl citem_ok citem_toks citem_step frames_tokens_can citem_safe citem_run).
  intros fs st rest H. apply (run_can_frames fs st rest H).
Qed.

(* the raw link frame buffer never grows beyond what its length byte announces (<= 255) *)
Definition phase_ok (ph: uphase) : Prop := match ph with UBody n acc => (length acc < n <= 255)%nat | _ => True end.
Lemma ustep_phase_ok ph b x : phase_ok ph -> x < 256 ->
  match fst (ustep ph b (UB x)) with Cont ph' => phase_ok ph' | Emit _ => True end.
Proof.
  intros Hph Hx. destruct ph as [| |n acc]; cbn [ustep].
  - destruct (x =? 0); exact I.
  - destruct (x =? 0) eqn:E; [destruct (on_body b []) as [? [?|]]; exact I|]. cbn. lia.
  - destruct (length (acc ++ [x]) <? n)%nat eqn:E; [|destruct (on_body b (acc ++ [x])) as [? [?|]]; exact I].
    cbn. apply Nat.ltb_lt in E. cbn in Hph. lia.
Qed.
