(* C14 core: the emission loops of the three senders under back-pressure. *)
Require Import RP.Model.Base RP.Model.Packet RP.Model.Cobs RP.Model.Frame RP.Model.Links.

(* ---------- USART ---------- *)
Definition accepts_in (ans: list wtok) : nat := length (filter (fun t => match t with WAccept => true | _ => false end) ans).
Definition no_wfail (ans: list wtok) : Prop := Forall (fun t => t <> WFail) ans.

Lemma uwrite_spec x : forall ans, no_wfail ans ->
  (accepts_in ans = 0%nat -> uwrite x ans = Hang) /\
  ((1 <= accepts_in ans)%nat -> exists rest, uwrite x ans = Val ([x], rest) /\ no_wfail rest /\ accepts_in rest = (accepts_in ans - 1)%nat).
Proof.
  induction ans as [|t ans IH]; intros Hn.
  - split; [reflexivity|unfold accepts_in; cbn; lia].
  - apply Forall_cons_iff in Hn. destruct Hn as [Ht Hn]. destruct t; [| |contradiction].
    + split; [unfold accepts_in; cbn; lia|]. intros _. exists ans. split; [reflexivity|]. split; [exact Hn|]. unfold accepts_in. cbn. lia.
    + cbn [uwrite]. unfold accepts_in in *. cbn [filter]. apply IH. exact Hn.
Qed.

(* every byte is written exactly once, in order, however often the device reports would-block,
   provided it eventually accepts each write; otherwise the sender blocks for ever having written
   exactly the bytes that were accepted *)
Theorem uwrite_all_spec : forall xs ans, no_wfail ans ->
  ((length xs <= accepts_in ans)%nat -> exists rest, uwrite_all xs ans = Val (xs, rest) /\ no_wfail rest) /\
  ((accepts_in ans < length xs)%nat -> uwrite_all xs ans = Hang).
Proof.
  induction xs as [|x xs IH]; intros ans Hn.
  - split; [intros _; exists ans; split; [reflexivity|exact Hn]|cbn; lia].
  - cbn [uwrite_all length]. destruct (uwrite_spec x ans Hn) as [H0 H1]. split.
    + intros Hl. destruct (H1 ltac:(lia)) as [rest [Hw [Hnr Hc]]]. rewrite Hw. cbn [bind].
      destruct (proj1 (IH rest Hnr) ltac:(lia)) as [rest' [Hw' Hn']]. rewrite Hw'. cbn [bind]. exists rest'. split; [reflexivity|exact Hn'].
    + intros Hl. destruct (accepts_in ans) as [|k] eqn:Ek.
      * rewrite (H0 eq_refl). reflexivity.
      * destruct (H1 ltac:(lia)) as [rest [Hw [Hnr Hc]]]. rewrite Hw. cbn [bind].
        rewrite (proj2 (IH rest Hnr) ltac:(lia)). reflexivity.
Qed.

Theorem usart_send_exact encs ans : no_wfail ans -> (length (concat (map link_bytes encs)) <= accepts_in ans)%nat ->
  exists rest, usart_send encs ans = Val (concat (map link_bytes encs), rest).
Proof.
  intros Hn Hl. destruct (proj1 (uwrite_all_spec _ ans Hn) Hl) as [rest [H _]]. exists rest. exact H.
Qed.

(* ---------- CAN ---------- *)
(* the k-th answer that is not would-block decides the k-th frame *)
Definition outcomes (ans: list ttok) : list ttok := filter (fun t => match t with TWB => false | _ => true end) ans.
Fixpoint can_expect (cfs: list canframe) (outs: list ttok) : list canframe * out unit serr :=
  match cfs with
  | [] => ([], Val tt)
  | c :: t => match outs with
              | [] => ([], Hang)
              | TDisplaced :: _ => ([c], Fail SMailboxFull)
              | _ :: o' => let '(s, r) := can_expect t o' in (c :: s, r)
              end
  end.

Lemma ctransmit_spec : forall ans,
  match outcomes ans with
  | [] => ctransmit ans = Hang
  | TDisplaced :: _ => exists rest, ctransmit ans = Val (true, rest) /\ outcomes rest = tl (outcomes ans)
  | _ :: _ => exists rest, ctransmit ans = Val (false, rest) /\ outcomes rest = tl (outcomes ans)
  end.
Proof.
  induction ans as [|t ans IH]; [reflexivity|]. destruct t; cbn [outcomes filter ctransmit].
  - exists ans. split; reflexivity.
  - exact IH.
  - exists ans. split; reflexivity.
Qed.

Theorem can_send_spec : forall cfs ans, can_send cfs ans = can_expect cfs (outcomes ans).
Proof.
  induction cfs as [|c t IH]; intros ans; [reflexivity|]. cbn [can_send can_expect].
  pose proof (ctransmit_spec ans) as H. destruct (outcomes ans) as [|o os] eqn:Eo.
  - rewrite H. reflexivity.
  - destruct o.
    + destruct H as [rest [Hc Ho]]. rewrite Hc. rewrite IH, Ho. reflexivity.
    + exfalso. clear -Eo. assert (In TWB (outcomes ans)) by (rewrite Eo; left; reflexivity). unfold outcomes in H. apply filter_In in H. destruct H; discriminate.
    + destruct H as [rest [Hc Ho]]. rewrite Hc. reflexivity.
Qed.

(* consequences: what is handed to the controller is a prefix of the frames, each exactly once and in
   order; success iff every frame was handed over and none displaced; a displaced report is returned *)
Theorem can_expect_props : forall cfs outs,
  let '(sent, r) := can_expect cfs outs in
  (exists rest, cfs = sent ++ rest) /\
  (r = Val tt -> sent = cfs /\ ~ In TDisplaced (firstn (length cfs) outs)) /\
  (In TDisplaced (firstn (length cfs) outs) -> r = Fail SMailboxFull).
Proof.
  induction cfs as [|c t IH]; intros outs; cbn [can_expect].
  - split; [exists []; reflexivity|]. split; [intros _; split; [reflexivity|intros []]|intros []].
  - destruct outs as [|o os].
    + split; [exists (c :: t); reflexivity|]. split; [discriminate|intros []].
    + destruct o.
      * specialize (IH os). destruct (can_expect t os) as [s r]. destruct IH as [[rest Hr] [H1 H2]].
        split; [exists rest; cbn; rewrite <- Hr; reflexivity|]. split.
        -- intros Hv. destruct (H1 Hv) as [-> Hn]. split; [reflexivity|]. cbn [length firstn]. intros [Hd|Hd]; [discriminate|auto].
        -- cbn [length firstn]. intros [Hd|Hd]; [discriminate|auto].
      * specialize (IH os). destruct (can_expect t os) as [s r]. destruct IH as [[rest Hr] [H1 H2]].
        split; [exists rest; cbn; rewrite <- Hr; reflexivity|]. split.
        -- intros Hv. destruct (H1 Hv) as [-> Hn]. split; [reflexivity|]. cbn [length firstn]. intros [Hd|Hd]; [discriminate|auto].
        -- cbn [length firstn]. intros [Hd|Hd]; [discriminate|auto].
      * split; [exists t; reflexivity|]. split; [discriminate|intros _; reflexivity].
Qed.

(* ---------- serial port ---------- *)
Definition pbad (t: ptok) : bool := match t with PW O => true | PErr => true | _ => false end.
Definition no_pbad (ans: list ptok) : Prop := Forall (fun t => pbad t = false) ans.

(* write_all: what reaches the device is a prefix of the buffer; success means all of it; short
   writes and interruptions are absorbed; it fails only on a zero-length write or an io error *)
Lemma pwrite_all_spec : forall fuel buf ans, (length ans < fuel)%nat ->
  let '(w, ans', ok) := pwrite_all fuel buf ans in
  (exists rest, buf = w ++ rest) /\ (ok = true -> w = buf) /\ (no_pbad ans -> ok = true /\ no_pbad ans') /\ (length ans' <= length ans)%nat.
Proof.
  induction fuel as [|f IH]; intros buf ans Hf; [lia|]. cbn [pwrite_all].
  destruct buf as [|x buf]; [split; [exists []; reflexivity|]; split; [reflexivity|]; split; [auto|lia]|].
  destruct ans as [|t ans].
  - split; [exists []; rewrite app_nil_r; reflexivity|]. split; [reflexivity|]. split; [intros; split; [reflexivity|constructor]|lia].
  - cbn [length] in Hf. destruct t as [[|n]| |].
    + split; [exists (x :: buf); reflexivity|]. split; [discriminate|]. split; [|cbn; lia].
      intros Hn. apply Forall_cons_iff in Hn. destruct Hn as [Hb _]. discriminate.
    + specialize (IH (skipn (S n) (x :: buf)) ans ltac:(lia)).
      destruct (pwrite_all f (skipn (S n) (x :: buf)) ans) as [[w2 ans'] ok]. destruct IH as [[rest Hr] [H1 [H2 H3]]].
      split; [exists rest; rewrite <- app_assoc, <- Hr; symmetry; apply firstn_skipn|]. split.
      * intros Hok. rewrite (H1 Hok). apply firstn_skipn.
      * split; [|cbn [length]; lia]. intros Hn. apply Forall_cons_iff in Hn. destruct Hn as [_ Hn]. apply H2. exact Hn.
    + specialize (IH (x :: buf) ans ltac:(lia)). destruct (pwrite_all f (x :: buf) ans) as [[w2 ans'] ok]. destruct IH as [Hr [H1 [H2 H3]]].
      split; [exact Hr|]. split; [exact H1|]. split; [|cbn [length]; lia]. intros Hn. apply Forall_cons_iff in Hn. destruct Hn as [_ Hn]. apply H2. exact Hn.
    + split; [exists (x :: buf); reflexivity|]. split; [discriminate|]. split; [|cbn; lia].
      intros Hn. apply Forall_cons_iff in Hn. destruct Hn as [Hb _]. discriminate.
Qed.

Lemma pwrite_spec buf ans :
  let '(w, ans', ok) := pwrite buf ans in
  (exists rest, buf = w ++ rest) /\ (ok = true -> w = buf) /\ (no_pbad ans -> ok = true /\ no_pbad ans').
Proof.
  unfold pwrite. pose proof (pwrite_all_spec (S (length buf + length ans)) buf ans ltac:(lia)) as H.
  destruct (pwrite_all _ buf ans) as [[w ans'] ok]. destruct H as [H1 [H2 [H3 _]]]. auto.
Qed.

Definition wire (encs: list (list N)) : list N := concat (map link_bytes encs).

Theorem serial_send_frames_spec : forall encs ans,
  let '(w, ans', ok) := serial_send_frames encs ans in
  (exists rest, wire encs = w ++ rest) /\ (ok = true -> w = wire encs) /\ (no_pbad ans -> ok = true /\ no_pbad ans').
Proof.
  induction encs as [|e t IH]; intros ans; cbn [serial_send_frames].
  - split; [exists []; reflexivity|]. split; [reflexivity|]. auto.
  - unfold wire. cbn [map concat]. fold (wire t). unfold link_bytes at 1.
    pose proof (pwrite_spec [0] ans) as P1. destruct (pwrite [0] ans) as [[w1 a1] ok1]. destruct P1 as [[r1 E1] [F1 G1]].
    destruct ok1; cbn [negb].
    2:{ split; [exists (r1 ++ (nlen e mod 256 :: e) ++ wire t); change (0 :: nlen e mod 256 :: e) with ([0] ++ (nlen e mod 256 :: e)); rewrite E1, <- !app_assoc; reflexivity|].
        split; [discriminate|]. intros Hn. destruct (G1 Hn) as [? _]. discriminate. }
    rewrite (F1 eq_refl) in *.
    pose proof (pwrite_spec [nlen e mod 256] a1) as P2. destruct (pwrite [nlen e mod 256] a1) as [[w2 a2] ok2]. destruct P2 as [[r2 E2] [F2 G2]].
    destruct ok2; cbn [negb].
    2:{ split; [exists (r2 ++ e ++ wire t); change (0 :: nlen e mod 256 :: e) with ([0] ++ [nlen e mod 256] ++ e); rewrite E2, <- !app_assoc; reflexivity|].
        split; [discriminate|]. intros Hn. destruct (G1 Hn) as [_ Hn1]. destruct (G2 Hn1) as [? _]. discriminate. }
    rewrite (F2 eq_refl) in *.
    pose proof (pwrite_spec e a2) as P3. destruct (pwrite e a2) as [[w3 a3] ok3]. destruct P3 as [[r3 E3] [F3 G3]].
    destruct ok3; cbn [negb].
    2:{ split; [exists (r3 ++ wire t); cbn [app]; f_equal; f_equal; rewrite app_assoc, <- E3; reflexivity|].
        split; [discriminate|]. intros Hn. destruct (G1 Hn) as [_ Hn1]. destruct (G2 Hn1) as [_ Hn2]. destruct (G3 Hn2) as [? _]. discriminate. }
    rewrite (F3 eq_refl) in *.
    specialize (IH a3). destruct (serial_send_frames t a3) as [[w4 a4] ok4]. destruct IH as [[r4 E4] [F4 G4]].
    split; [exists r4; change (0 :: nlen e mod 256 :: e) with ([0] ++ [nlen e mod 256] ++ e); rewrite E4, <- !app_assoc; reflexivity|].
    split.
    + intros Hok. rewrite (F4 Hok). reflexivity.
    + intros Hn. destruct (G1 Hn) as [_ Hn1]. destruct (G2 Hn1) as [_ Hn2]. destruct (G3 Hn2) as [_ Hn3]. apply G4. exact Hn3.
Qed.

(* the serial-port sender: bytes on the link are a prefix of the frames' bytes; Ok only if all of them
   were written and the flush succeeded; write and flush failures are returned *)
Theorem serial_send_spec encs ans fl :
  let '(w, r) := serial_send encs ans fl in
  (exists rest, wire encs = w ++ rest) /\
  (r = Val tt -> w = wire encs /\ fl = true) /\
  (no_pbad ans -> w = wire encs /\ r = if fl then Val tt else Fail SFlush).
Proof.
  unfold serial_send. pose proof (serial_send_frames_spec encs ans) as H.
  destruct (serial_send_frames encs ans) as [[w a'] ok]. destruct H as [H1 [H2 H3]].
  split; [exact H1|]. split.
  - destruct ok; cbn [negb]; [|discriminate]. destruct fl; [|discriminate]. intros _. split; [apply H2; reflexivity|reflexivity].
  - intros Hn. destruct (H3 Hn) as [-> _]. cbn [negb]. split; [apply H2; reflexivity|reflexivity].
Qed.

(* the sender as a whole, in the model: fragmentation, frame encoding, emission loop *)
Definition usart_send_packets (ps: list packet) (ans: list wtok) : out (list N * list wtok) lerr :=
  match mapM (fun p => match to_frames p with
                       | Val fs => (match mapM to_usart fs with Val es => Val es | Fail _ => Panic | Panic => Panic | Hang => Hang end : out (list (list N)) lerr)
                       | Fail _ => Panic | Panic => Panic | Hang => Hang end) ps with
  | Val encss => usart_send (concat encss) ans
  | Fail e => Fail e | Panic => Panic | Hang => Hang
  end.
