Require Import RP.Model.Base RP.Model.Packet RP.Model.Events RP.Model.Protocol RP.Lemmas.Registry.

Lemma isend_all_app i a b : isend_all i (a ++ b) = isend_all (isend_all i a) b.
Proof. revert i. induction a as [|p t IH]; intros i; [reflexivity|]. cbn [app isend_all]. apply IH. Qed.

(* what a handler body leaves on the interface: its packets appended to the sent list, one send answer consumed each, gets untouched *)
Lemma isend_all_spec : forall ps i, i_sent (isend_all i ps) = i_sent i ++ ps /\ i_gets (isend_all i ps) = i_gets i /\ i_sends (isend_all i ps) = skipn (length ps) (i_sends i).
Proof.
  induction ps as [|p t IH]; intros i; cbn [isend_all length skipn]; [rewrite app_nil_r; auto|].
  destruct (IH (snd (isend i p))) as [H1 [H2 H3]]. rewrite H1, H2, H3. unfold isend.
  destruct (i_sends i) as [|a r]; cbn [snd i_sent i_gets i_sends]; rewrite <- app_assoc; cbn [app]; repeat split; try reflexivity.
  rewrite skipn_nil. reflexivity.
Qed.

Definition invoked (t: table) (owned: bool) : table := filter (fun kh => owned || h_cap (snd kh)) t.

(* C15 core: handle_packet delivers the packet, unmodified, exactly once to each selected handler in key order *)
Theorem handle_packet_spec : forall t p owned i,
  handle_packet t p owned i =
  (map (fun kh => (fst kh, h_label (snd kh), p)) (invoked t owned), isend_all i (concat (map (fun kh => h_sends (snd kh)) (invoked t owned)))).
Proof.
  induction t as [|[id h] r IH]; intros p owned i; [reflexivity|]. cbn [handle_packet invoked filter snd].
  destruct (owned || h_cap h) eqn:E.
  - rewrite IH. cbn [map concat fst snd]. rewrite isend_all_app. reflexivity.
  - apply IH.
Qed.

Lemma invoked_owned t : invoked t true = t.
Proof. unfold invoked. induction t as [|kh r IH]; [reflexivity|]. cbn [filter]. change (true || h_cap (snd kh)) with true. cbv iota. f_equal. exact IH. Qed.

Lemma log_ids_live t p owned i : forall e, In e (fst (handle_packet t p owned i)) -> In (fst (fst e)) (keys t).
Proof.
  rewrite handle_packet_spec. cbn [fst]. intros e He. apply in_map_iff in He. destruct He as [kh [<- Hk]]. cbn [fst].
  apply filter_In in Hk. destruct Hk as [Hk _]. apply in_map. exact Hk.
Qed.

(* ---------- C18 ---------- *)
Definition nomatch (own: N) (cap: bool) (k: kind) (g: gres) : Prop :=
  match g with GPacket p => matches own cap k p = None | _ => False end.

Lemma iget_cons g gs ss st : iget (mkI (g :: gs) ss st) = (g, mkI gs ss st).
Proof. reflexivity. Qed.

Lemma drain1_skip own cap k : forall pre fuel gs ss st tr, Forall (nomatch own cap k) pre ->
  drain1 (length pre + fuel) own cap k (mkI (pre ++ gs) ss st) tr = drain1 fuel own cap k (mkI gs ss st) (tr ++ map TGet pre).
Proof.
  induction pre as [|g pre IH]; intros fuel gs ss st tr H; [cbn; rewrite app_nil_r; reflexivity|].
  apply Forall_cons_iff in H. destruct H as [Hg Hp]. destruct g as [p| |]; cbn in Hg; try contradiction.
  cbn [length Nat.add app drain1]. rewrite iget_cons. rewrite Hg. rewrite IH by assumption.
  rewrite <- app_assoc. reflexivity.
Qed.

(* single reply: the first packet, in arrival order, that is addressed to us / broadcast (or anyone when capturing all)
   and decodes as the requested kind is returned; nothing after it is consumed *)
Theorem drain1_spec own cap k pre gs ss st tr fuel : Forall (nomatch own cap k) pre -> (length pre + length gs < fuel)%nat ->
  match gs with
  | GPacket q :: rest => forall e, matches own cap k q = Some e ->
      drain1 fuel own cap k (mkI (pre ++ gs) ss st) tr = (Val e, tr ++ map TGet pre ++ [TGet (GPacket q)], mkI rest ss st)
  | GNone :: rest => drain1 fuel own cap k (mkI (pre ++ gs) ss st) tr = (Fail PTimeout, tr ++ map TGet pre ++ [TGet GNone], mkI rest ss st)
  | GErr c :: rest => drain1 fuel own cap k (mkI (pre ++ gs) ss st) tr = (Fail (PInterface c), tr ++ map TGet pre ++ [TGet (GErr c)], mkI rest ss st)
  | [] => drain1 fuel own cap k (mkI (pre ++ gs) ss st) tr = (Fail PTimeout, tr ++ map TGet pre ++ [TGet GNone], mkI [] ss st)
  end.
Proof.
  intros Hp Hf. replace fuel with (length pre + (fuel - length pre))%nat by lia.
  destruct gs as [|g rest].
  - rewrite drain1_skip by assumption. destruct (fuel - length pre)%nat as [|f] eqn:Ef; [cbn in Hf; lia|].
    cbn [drain1]. unfold iget. cbn [i_gets]. rewrite <- app_assoc. reflexivity.
  - destruct g as [q| |c].
    + intros e He. rewrite drain1_skip by assumption. destruct (fuel - length pre)%nat as [|f] eqn:Ef; [cbn in Hf; lia|].
      cbn [drain1]. rewrite iget_cons, He. rewrite <- app_assoc. reflexivity.
    + rewrite drain1_skip by assumption. destruct (fuel - length pre)%nat as [|f] eqn:Ef; [cbn in Hf; lia|].
      cbn [drain1]. rewrite iget_cons. rewrite <- app_assoc. reflexivity.
    + rewrite drain1_skip by assumption. destruct (fuel - length pre)%nat as [|f] eqn:Ef; [cbn in Hf; lia|].
      cbn [drain1]. rewrite iget_cons. rewrite <- app_assoc. reflexivity.
Qed.

(* multi reply: all matching packets in order until the link runs dry (or fails) *)
Definition matched (own: N) (cap: bool) (k: kind) (gs: list gres) : list event :=
  concat (map (fun g => match g with GPacket p => match matches own cap k p with Some e => [e] | None => [] end | _ => [] end) gs).
Definition only_packets (gs: list gres) : Prop := Forall (fun g => match g with GPacket _ => True | _ => False end) gs.

Lemma drainN_skip own cap k : forall pre fuel gs ss st tr acc, only_packets pre ->
  drainN (length pre + fuel) own cap k (mkI (pre ++ gs) ss st) tr acc = drainN fuel own cap k (mkI gs ss st) (tr ++ map TGet pre) (acc ++ matched own cap k pre).
Proof.
  induction pre as [|g pre IH]; intros fuel gs ss st tr acc H; [cbn; rewrite !app_nil_r; reflexivity|].
  apply Forall_cons_iff in H. destruct H as [Hg Hp]. destruct g as [p| |]; try contradiction.
  cbn [length Nat.add app drainN]. rewrite iget_cons. rewrite IH by assumption.
  unfold matched. cbn [map concat]. destruct (matches own cap k p); rewrite <- ?app_assoc; cbn [app]; rewrite <- ?app_assoc; reflexivity.
Qed.

Theorem drainN_spec own cap k pre gs ss st fuel : only_packets pre -> (length pre + length gs < fuel)%nat ->
  match gs with
  | GErr c :: rest => drainN fuel own cap k (mkI (pre ++ gs) ss st) [TWait] [] = (Fail (PInterface c), [TWait] ++ map TGet pre ++ [TGet (GErr c)], mkI rest ss st)
  | GNone :: rest => drainN fuel own cap k (mkI (pre ++ gs) ss st) [TWait] [] = (Val (matched own cap k pre), [TWait] ++ map TGet pre ++ [TGet GNone], mkI rest ss st)
  | [] => drainN fuel own cap k (mkI (pre ++ gs) ss st) [TWait] [] = (Val (matched own cap k pre), [TWait] ++ map TGet pre ++ [TGet GNone], mkI [] ss st)
  | GPacket _ :: _ => True
  end.
Proof.
  intros Hp Hf. replace fuel with (length pre + (fuel - length pre))%nat by lia.
  destruct gs as [|g rest].
  - rewrite drainN_skip by assumption. destruct (fuel - length pre)%nat as [|f] eqn:Ef; [cbn in Hf; lia|].
    cbn [drainN]. unfold iget. cbn [i_gets app]. rewrite <- ?app_assoc. reflexivity.
  - destruct g as [q| |c]; [exact I| |].
    + rewrite drainN_skip by assumption. destruct (fuel - length pre)%nat as [|f] eqn:Ef; [cbn in Hf; lia|].
      cbn [drainN]. rewrite iget_cons. cbn [app]. rewrite <- ?app_assoc. reflexivity.
    + rewrite drainN_skip by assumption. destruct (fuel - length pre)%nat as [|f] eqn:Ef; [cbn in Hf; lia|].
      cbn [drainN]. rewrite iget_cons. cbn [app]. rewrite <- ?app_assoc. reflexivity.
Qed.
