Require Import RP.Model.Base RP.Model.Packet RP.Model.Events RP.Model.Protocol RP.Lemmas.Registry.

Lemma isend_all_app i a b : isend_all i (a ++ b) = isend_all (isend_all i a) b.
Proof. revert i. induction a as [|p t IH]; intros i; [reflexivity|]. cbn [app isend_all]. apply IH. Qed.

(* what a handler body leaves on the interface: its packets appended to the sent list, one send answer consumed each, gets untouched *)
Lemma isend_all_spec : forall ps i, i_sent (isend_all i ps) = i_sent i ++ ps /\ i_gets (isend_all i ps) = i_gets i /\ i_sends (isend_all i ps) = skipn (length ps) (i_sends i).
Proof.
  induction ps as [|p t IH]; intros i; cbn [isend_all length skipn]; [rewrite app_nil_r; auto|].
  destruct (IH (snd (isend i p))) as [H1 [H2 H3]]. rewrite H1, H2, H3. unfold isend.
  destruct (i_sends i) as [|a r]; cbn [snd i_sent i_gets i_sends]; rewrite <- app_assoc; cbn [app]; repeat split; try reflexivity.
  rewrite skipn_nil. reflexivity.
Qed.

Definition invoked (t: table) (owned: bool) : table := filter (fun kh => owned || h_cap (snd kh)) t.

(* what the re-entrant sends of a handler add to the log: each packet addressed to the own address, once to every registered handler in key order *)
Definition nested_log (own: N) (t: table) (qs: list packet) : list logent :=
  concat (map (fun q => if p_addr q =? own then leaf_log t q else []) qs).
(* the whole log of one dispatch: per selected handler (key order) its own entry, then the nested deliveries its sends caused *)
Definition dispatch_log (own: N) (t: table) (p: packet) (owned: bool) : list logent :=
  concat (map (fun kh => (fst kh, h_label (snd kh), p) :: nested_log own t (h_sends (snd kh))) (invoked t owned)).
(* what one dispatch puts on the link: the selected handlers' packets in order, minus the looped-back ones *)
Definition dispatch_sent (own: N) (t: table) (owned: bool) : list packet :=
  filter (transmitted own) (concat (map (fun kh => h_sends (snd kh)) (invoked t owned))).

Lemma hbody_go own full : forall qs log i,
  fold_left (hsend own full) qs (log, i) = (log ++ nested_log own full qs, isend_all i (filter (transmitted own) qs)).
Proof.
  induction qs as [|q qs IH]; intros log i; [cbn; rewrite app_nil_r; reflexivity|].
  cbn [fold_left]. unfold hsend at 2. cbn [fst snd]. rewrite IH. unfold nested_log. cbn [map concat filter].
  destruct (p_addr q =? own); destruct (transmitted own q); cbn [isend_all app]; rewrite <- ?app_assoc; reflexivity.
Qed.

Lemma handle_go_spec own full : forall t p owned i,
  handle_go own full t p owned i =
  (concat (map (fun kh => (fst kh, h_label (snd kh), p) :: nested_log own full (h_sends (snd kh))) (invoked t owned)),
   isend_all i (filter (transmitted own) (concat (map (fun kh => h_sends (snd kh)) (invoked t owned))))).
Proof.
  induction t as [|[id h] r IH]; intros p owned i; [reflexivity|]. cbn [handle_go invoked filter snd].
  destruct (owned || h_cap h) eqn:E.
  - unfold hbody. rewrite hbody_go. rewrite IH. cbn [map concat fst snd app]. rewrite filter_app, isend_all_app. reflexivity.
  - apply IH.
Qed.

(* C15 core: handle_packet delivers the packet, unmodified, exactly once to each selected handler in key order;
   a handler's own-addressed sends are delivered, nested, once to every handler; the rest goes to the link in order *)
Theorem handle_packet_spec : forall own t p owned i,
  handle_packet own t p owned i = (dispatch_log own t p owned, isend_all i (dispatch_sent own t owned)).
Proof. intros. unfold handle_packet. apply handle_go_spec. Qed.

Lemma invoked_owned t : invoked t true = t.
Proof. unfold invoked. induction t as [|kh r IH]; [reflexivity|]. cbn [filter]. change (true || h_cap (snd kh)) with true. cbv iota. f_equal. exact IH. Qed.

(* without re-entrant sends the log is one entry per selected handler and everything the handlers send is transmitted *)
Lemma quiet_handler own t qs : forallb (fun q => negb (p_addr q =? own)) qs = true -> nested_log own t qs = [] /\ filter (transmitted own) qs = qs.
Proof.
  induction qs as [|q qs IH]; intros H; [split; reflexivity|]. cbn [forallb] in H. apply andb_prop in H. destruct H as [Hq Hr].
  destruct (IH Hr) as [H1 H2]. unfold nested_log in *. cbn [map concat filter].
  assert (Ht: transmitted own q = true) by (unfold transmitted; rewrite Hq; reflexivity).
  apply negb_true_iff in Hq. rewrite Hq, Ht, H1, H2. split; reflexivity.
Qed.
Lemma quiet_invoked own t owned : quiet own t = true -> quiet own (invoked t owned) = true.
Proof.
  unfold quiet, invoked. induction t as [|kh r IH]; intros H; [reflexivity|]. cbn [forallb] in H. apply andb_prop in H. destruct H as [H1 H2].
  cbn [filter]. destruct (owned || h_cap (snd kh)); [cbn [forallb]; rewrite H1, (IH H2); reflexivity|apply IH, H2].
Qed.
Theorem dispatch_quiet own t p owned : quiet own t = true ->
  dispatch_log own t p owned = map (fun kh => (fst kh, h_label (snd kh), p)) (invoked t owned) /\
  dispatch_sent own t owned = concat (map (fun kh => h_sends (snd kh)) (invoked t owned)).
Proof.
  intros Hq. unfold dispatch_log, dispatch_sent. pose proof (quiet_invoked own t owned Hq) as Hi. clear Hq.
  assert (G: forall full l, quiet own l = true ->
             concat (map (fun kh => (fst kh, h_label (snd kh), p) :: nested_log own full (h_sends (snd kh))) l) = map (fun kh => (fst kh, h_label (snd kh), p)) l /\
             filter (transmitted own) (concat (map (fun kh => h_sends (snd kh)) l)) = concat (map (fun kh => h_sends (snd kh)) l)).
  { intros full l. induction l as [|kh r IH]; intros H; [split; reflexivity|]. unfold quiet in H. cbn [forallb] in H. apply andb_prop in H. destruct H as [H1 H2].
    destruct (IH H2) as [I1 I2]. destruct (quiet_handler own full _ H1) as [Q1 Q2]. cbn [map concat]. rewrite Q1, I1, filter_app, Q2, I2. split; reflexivity. }
  apply G. exact Hi.
Qed.

Lemma log_ids_live own t p owned i : forall e, In e (fst (handle_packet own t p owned i)) -> In (fst (fst e)) (keys t).
Proof.
  rewrite handle_packet_spec. cbn [fst]. unfold dispatch_log. intros e He. apply in_concat in He. destruct He as [l [Hl He]].
  apply in_map_iff in Hl. destruct Hl as [kh [<- Hk]]. apply filter_In in Hk. destruct Hk as [Hk _].
  destruct He as [<-|He]; [cbn [fst]; apply in_map; exact Hk|].
  unfold nested_log in He. apply in_concat in He. destruct He as [l2 [Hl2 He]]. apply in_map_iff in Hl2. destruct Hl2 as [q [<- _]].
  destruct (p_addr q =? own); [|contradiction]. unfold leaf_log in He. apply in_map_iff in He. destruct He as [kh2 [<- Hk2]]. cbn [fst]. apply in_map. exact Hk2.
Qed.

(* ---------- C18 ---------- *)
Definition nomatch (own: N) (cap: bool) (k: kind) (g: gres) : Prop :=
  match g with GPacket p => matches own cap k p = None | _ => False end.

Lemma iget_cons g gs ss st : iget (mkI (g :: gs) ss st) = (g, mkI gs ss st).
Proof. reflexivity. Qed.

Lemma drain1_skip own cap k : forall pre fuel gs ss st tr, Forall (nomatch own cap k) pre ->
  drain1 (length pre + fuel) own cap k (mkI (pre ++ gs) ss st) tr = drain1 fuel own cap k (mkI gs ss st) (tr ++ map TGet pre).
Proof.
  induction pre as [|g pre IH]; intros fuel gs ss st tr H; [cbn; rewrite app_nil_r; reflexivity|].
  apply Forall_cons_iff in H. destruct H as [Hg Hp]. destruct g as [p| |]; cbn in Hg; try contradiction.
  cbn [length Nat.add app drain1]. rewrite iget_cons. rewrite Hg. rewrite IH by assumption.
  rewrite <- app_assoc. reflexivity.
Qed.

(* single reply: the first packet, in arrival order, that is addressed to us / broadcast (or anyone when capturing all)
   and decodes as the requested kind is returned; nothing after it is consumed *)
Theorem drain1_spec own cap k pre gs ss st tr fuel : Forall (nomatch own cap k) pre -> (length pre + length gs < fuel)%nat ->
  match gs with
  | GPacket q :: rest => forall e, matches own cap k q = Some e ->
      drain1 fuel own cap k (mkI (pre ++ gs) ss st) tr = (Val e, tr ++ map TGet pre ++ [TGet (GPacket q)], mkI rest ss st)
  | GNone :: rest => drain1 fuel own cap k (mkI (pre ++ gs) ss st) tr = (Fail PTimeout, tr ++ map TGet pre ++ [TGet GNone], mkI rest ss st)
  | GErr c :: rest => drain1 fuel own cap k (mkI (pre ++ gs) ss st) tr = (Fail (PInterface c), tr ++ map TGet pre ++ [TGet (GErr c)], mkI rest ss st)
  | [] => drain1 fuel own cap k (mkI (pre ++ gs) ss st) tr = (Fail PTimeout, tr ++ map TGet pre ++ [TGet GNone], mkI [] ss st)
  end.
Proof.
  intros Hp Hf. replace fuel with (length pre + (fuel - length pre))%nat by lia.
  destruct gs as [|g rest].
  - rewrite drain1_skip by assumption. destruct (fuel - length pre)%nat as [|f] eqn:Ef; [cbn in Hf; lia|].
    cbn [drain1]. unfold iget. cbn [i_gets]. rewrite <- app_assoc. reflexivity.
  - destruct g as [q| |c].
    + intros e He. rewrite drain1_skip by assumption. destruct (fuel - length pre)%nat as [|f] eqn:Ef; [cbn in Hf; lia|].
      cbn [drain1]. rewrite iget_cons, He. rewrite <- app_assoc. reflexivity.
    + rewrite drain1_skip by assumption. destruct (fuel - length pre)%nat as [|f] eqn:Ef; [cbn in Hf; lia|].
      cbn [drain1]. rewrite iget_cons. rewrite <- app_assoc. reflexivity.
    + rewrite drain1_skip by assumption. destruct (fuel - length pre)%nat as [|f] eqn:Ef; [cbn in Hf; lia|].
      cbn [drain1]. rewrite iget_cons. rewrite <- app_assoc. reflexivity.
Qed.

(* multi reply: all matching packets in order until the link runs dry (or fails) *)
Definition matched (own: N) (cap: bool) (k: kind) (gs: list gres) : list event :=
  concat (map (fun g => match g with GPacket p => match matches own cap k p with Some e => [e] | None => [] end | _ => [] end) gs).
Definition only_packets (gs: list gres) : Prop := Forall (fun g => match g with GPacket _ => True | _ => False end) gs.

Lemma drainN_skip own cap k : forall pre fuel gs ss st tr acc, only_packets pre ->
  drainN (length pre + fuel) own cap k (mkI (pre ++ gs) ss st) tr acc = drainN fuel own cap k (mkI gs ss st) (tr ++ map TGet pre) (acc ++ matched own cap k pre).
Proof.
  induction pre as [|g pre IH]; intros fuel gs ss st tr acc H; [cbn; rewrite !app_nil_r; reflexivity|].
  apply Forall_cons_iff in H. destruct H as [Hg Hp]. destruct g as [p| |]; try contradiction.
  cbn [length Nat.add app drainN]. rewrite iget_cons. rewrite IH by assumption.
  unfold matched. cbn [map concat]. destruct (matches own cap k p); rewrite <- ?app_assoc; cbn [app]; rewrite <- ?app_assoc; reflexivity.
Qed.

Theorem drainN_spec own cap k pre gs ss st fuel : only_packets pre -> (length pre + length gs < fuel)%nat ->
  match gs with
  | GErr c :: rest => drainN fuel own cap k (mkI (pre ++ gs) ss st) [TWait] [] = (Fail (PInterface c), [TWait] ++ map TGet pre ++ [TGet (GErr c)], mkI rest ss st)
  | GNone :: rest => drainN fuel own cap k (mkI (pre ++ gs) ss st) [TWait] [] = (Val (matched own cap k pre), [TWait] ++ map TGet pre ++ [TGet GNone], mkI rest ss st)
  | [] => drainN fuel own cap k (mkI (pre ++ gs) ss st) [TWait] [] = (Val (matched own cap k pre), [TWait] ++ map TGet pre ++ [TGet GNone], mkI [] ss st)
  | GPacket _ :: _ => True
  end.
Proof.
  intros Hp Hf. replace fuel with (length pre + (fuel - length pre))%nat by lia.
  destruct gs as [|g rest].
  - rewrite drainN_skip by assumption. destruct (fuel - length pre)%nat as [|f] eqn:Ef; [cbn in Hf; lia|].
    cbn [drainN]. unfold iget. cbn [i_gets app]. rewrite <- ?app_assoc. reflexivity.
  - destruct g as [q| |c]; [exact I| |].
    + rewrite drainN_skip by assumption. destruct (fuel - length pre)%nat as [|f] eqn:Ef; [cbn in Hf; lia|].
      cbn [drainN]. rewrite iget_cons. cbn [app]. rewrite <- ?app_assoc. reflexivity.
    + rewrite drainN_skip by assumption. destruct (fuel - length pre)%nat as [|f] eqn:Ef; [cbn in Hf; lia|].
      cbn [drainN]. rewrite iget_cons. cbn [app]. rewrite <- ?app_assoc. reflexivity.
Qed.
