(* Events.v - model of src/event/*.rs: the 16 ConvertPacket implementations (to_packet /
   try_from_packet) and the BcmValue / RelayValue / MessageValue sub-codecs, with the guard order of
   the code (size, error type, event code, then fields) and checked indexing everywhere. *)
Require Import RP.Model.Base RP.Model.Packet.

Inductive cerr := CWrongSize | CUnknownEnumVariant | CWrongType | CWrongEventType.

(* ---------- byte helpers (checked, as the Rust slices are) ---------- *)
Definition u8_at (d: list N) (i: nat) : out N cerr := idx d i.
Definition u16_at (d: list N) (i: nat) : out N cerr :=                   (* u16::from_be_bytes(d[i..=i+1].try_into().unwrap()) *)
  do s <- slice d i 2; match s with [a; b] => Val (a * 256 + b) | _ => Panic end.
Definition u32_at (d: list N) (i: nat) : out N cerr :=
  do s <- slice d i 4; match s with [a; b; c; e] => Val (((a * 256 + b) * 256 + c) * 256 + e) | _ => Panic end.
Definition u16_ne_at (d: list N) (i: nat) : out N cerr :=               (* from_ne_bytes, little-endian host *)
  do s <- slice d i 2; match s with [a; b] => Val (b * 256 + a) | _ => Panic end.
Definition u32_ne_at (d: list N) (i: nat) : out N cerr :=
  do s <- slice d i 4; match s with [a; b; c; e] => Val (((e * 256 + c) * 256 + b) * 256 + a) | _ => Panic end.
Definition be16 (x: N) : list N := [x / 256 mod 256; x mod 256].
Definition be32 (x: N) : list N := [x / 16777216 mod 256; x / 65536 mod 256; x / 256 mod 256; x mod 256].
Definition ne16 (x: N) : list N := [x mod 256; x / 256 mod 256].
Definition ne32 (x: N) : list N := [x mod 256; x / 256 mod 256; x / 65536 mod 256; x / 16777216 mod 256].

(* ---------- values ---------- *)
Inductive bcm_value := Binary (b: bool) | Single (v: N) | Rgb (r g b: N) | RgbB (r g b br: N) | Rgbw (r g b w: N) | RgbwB (r g b w br: N).
Inductive relay_value := RSingle (b: bool) | RFirst | RSecond | RNone.
Inductive msg_value := MU8 (v: N) | MU16 (v: N) | MU32 (v: N) | MBool (b: bool).

Definition bcm_ser (v: bcm_value) : list N :=
  match v with
  | Binary b => [0; if b then 1 else 0] | Single x => [1; x] | Rgb r g b => [2; r; g; b]
  | RgbB r g b br => [3; r; g; b; br] | Rgbw r g b w => [4; r; g; b; w] | RgbwB r g b w br => [5; r; g; b; w; br]
  end.
Definition bcm_de (d: list N) : out bcm_value cerr :=
  if (length d <? 2)%nat then Fail CWrongSize else
  do t <- idx d 0;
  match t with
  | 0 => if negb (length d =? 2)%nat then Fail CWrongSize else do x <- idx d 1; Val (Binary (negb (x =? 0)))
  | 1 => if negb (length d =? 2)%nat then Fail CWrongSize else do x <- idx d 1; Val (Single x)
  | 2 => if negb (length d =? 4)%nat then Fail CWrongSize else do r <- idx d 1; do g <- idx d 2; do b <- idx d 3; Val (Rgb r g b)
  | 3 => if negb (length d =? 5)%nat then Fail CWrongSize else do r <- idx d 1; do g <- idx d 2; do b <- idx d 3; do x <- idx d 4; Val (RgbB r g b x)
  | 4 => if negb (length d =? 5)%nat then Fail CWrongSize else do r <- idx d 1; do g <- idx d 2; do b <- idx d 3; do x <- idx d 4; Val (Rgbw r g b x)
  | 5 => if negb (length d =? 6)%nat then Fail CWrongSize else do r <- idx d 1; do g <- idx d 2; do b <- idx d 3; do w <- idx d 4; do x <- idx d 5; Val (RgbwB r g b w x)
  | _ => Fail CUnknownEnumVariant
  end.

Definition relay_ser (v: relay_value) : list N :=
  match v with RSingle b => [if b then 0 else 1] | RFirst => [2] | RSecond => [3] | RNone => [4] end.
Definition relay_de (d: list N) : out relay_value cerr :=
  if negb (length d =? 1)%nat then Fail CWrongSize else
  do t <- idx d 0;
  match t with 0 => Val (RSingle true) | 1 => Val (RSingle false) | 2 => Val RFirst | 3 => Val RSecond | 4 => Val RNone
             | _ => Fail CUnknownEnumVariant end.

(* repr(C) image of MessageValue: 4-byte tag, payload at offset 4, host (little-endian) byte order,
   8 bytes; padding bytes are unspecified in Rust and written as 0 here (masked in comparisons) *)
Definition msg_ser (v: msg_value) : list N :=
  match v with
  | MU8 x => ne32 0 ++ [x; 0; 0; 0] | MU16 x => ne32 1 ++ ne16 x ++ [0; 0]
  | MU32 x => ne32 2 ++ ne32 x | MBool b => ne32 3 ++ [if b then 1 else 0; 0; 0; 0]
  end.
(* the decoder: match on the tag *)
Definition msg_de (d: list N) (* packet data, value at 6..13 *) : out msg_value cerr :=
  do t <- u32_ne_at d 6;
  match t with
  | 0 => do x <- idx d 10; Val (MU8 x)
  | 1 => do x <- u16_ne_at d 10; Val (MU16 x)
  | 2 => do x <- u32_ne_at d 10; Val (MU32 x)
  | 3 => do x <- idx d 10; match x with 0 => Val (MBool false) | 1 => Val (MBool true) | _ => Fail CUnknownEnumVariant end
  | _ => Fail CUnknownEnumVariant
  end.

(* ---------- events ---------- *)
Inductive kind := KBootloaderHello | KProgrammerHello | KStartFirmware | KAck | KData | KConfiguratorHello
  | KBcmChange | KButtonPressed | KButtonReleased | KSystemTick | KStartConfig | KSetAddress | KMessage
  | KBcmAnimate | KRelaySet | KGatewayDiscover.
Definition all_kinds := [KBootloaderHello; KProgrammerHello; KStartFirmware; KAck; KData; KConfiguratorHello;
  KBcmChange; KButtonPressed; KButtonReleased; KSystemTick; KStartConfig; KSetAddress; KMessage; KBcmAnimate;
  KRelaySet; KGatewayDiscover].
Definition code (k: kind) : N :=
  match k with KBootloaderHello => 0 | KProgrammerHello => 1 | KStartFirmware => 2 | KAck => 3 | KData => 4
  | KConfiguratorHello => 5 | KBcmChange => 6 | KButtonPressed => 7 | KButtonReleased => 8 | KSystemTick => 9
  | KStartConfig => 10 | KSetAddress => 11 | KMessage => 12 | KBcmAnimate => 13 | KRelaySet => 14 | KGatewayDiscover => 15 end.

Inductive event :=
  | BootloaderHello (programmer bootloader: N)
  | ProgrammerHello (programmer: N)
  | StartFirmware (receiver programmer size: N)
  | Ack (receiver transmitter: N)
  | Data (receiver transmitter data_len: N) (data: list N)
  | ConfiguratorHello
  | BcmChange (bcm transmitter index: N) (value: bcm_value)
  | ButtonPressed (receiver button index: N)
  | ButtonReleased (receiver button index: N)
  | SystemTick (receiver: N)
  | StartConfig (receiver programmer size: N)
  | SetAddress (receiver programmer new_address: N)
  | Message (receiver transmitter mcode: N) (value: msg_value)
  | BcmAnimate (bcm transmitter index duration: N) (target: bcm_value)
  | RelaySet (relay transmitter index: N) (value: relay_value)
  | GatewayDiscover (device gateway: N).

Definition kind_of (e: event) : kind :=
  match e with BootloaderHello _ _ => KBootloaderHello | ProgrammerHello _ => KProgrammerHello | StartFirmware _ _ _ => KStartFirmware
  | Ack _ _ => KAck | Data _ _ _ _ => KData | ConfiguratorHello => KConfiguratorHello | BcmChange _ _ _ _ => KBcmChange
  | ButtonPressed _ _ _ => KButtonPressed | ButtonReleased _ _ _ => KButtonReleased | SystemTick _ => KSystemTick
  | StartConfig _ _ _ => KStartConfig | SetAddress _ _ _ => KSetAddress | Message _ _ _ _ => KMessage
  | BcmAnimate _ _ _ _ _ => KBcmAnimate | RelaySet _ _ _ _ => KRelaySet | GatewayDiscover _ _ => KGatewayDiscover end.

Definition BROADCAST : N := 65535.
Definition pk (a: N) (d: list N) : packet := mkP false a d.

Definition encode (e: event) : packet :=
  match e with
  | BootloaderHello p b => pk p (be16 0 ++ be16 b)
  | ProgrammerHello p => pk BROADCAST (be16 1 ++ be16 p)
  | StartFirmware r p s => pk r (be16 2 ++ be16 p ++ be32 s)
  | Ack r t => pk r (be16 3 ++ be16 t)
  | Data r t l d => pk r (be16 4 ++ be16 t ++ be16 l ++ d)
  | ConfiguratorHello => pk BROADCAST (be16 5)
  | BcmChange a t i v => pk a (be16 6 ++ be16 t ++ [i] ++ bcm_ser v)
  | ButtonPressed r b i => pk r (be16 7 ++ be16 b ++ [i])
  | ButtonReleased r b i => pk r (be16 8 ++ be16 b ++ [i])
  | SystemTick r => pk r (be16 9)
  | StartConfig r p s => pk r (be16 10 ++ be16 p ++ be32 s)
  | SetAddress r p n => pk r (be16 11 ++ be16 p ++ be16 n)
  | Message r t c v => pk r (be16 12 ++ be16 t ++ be16 c ++ msg_ser v)
  | BcmAnimate a t i du v => pk a (be16 13 ++ be16 t ++ [i] ++ be32 du ++ bcm_ser v)
  | RelaySet a t i v => pk a (be16 14 ++ be16 t ++ [i] ++ relay_ser v)
  | GatewayDiscover d g => pk d (be16 15 ++ be16 g)
  end.

(* common preamble: size guard, error-type guard, event-code guard, in the order the code has them *)
Definition pre {A} (size_ok: nat -> bool) (k: kind) (p: packet) (body: out A cerr) : out A cerr :=
  if negb (size_ok (length (p_data p))) then Fail CWrongSize
  else if p_err p then Fail CWrongType
  else do c <- u16_at (p_data p) 0;
       if negb (c =? code k) then Fail CWrongEventType else body.

Definition eqn (n: nat) : nat -> bool := fun l => (l =? n)%nat.
Definition gen (n: nat) : nat -> bool := fun l => (n <=? l)%nat.

Definition decode (k: kind) (p: packet) : out event cerr :=
  let d := p_data p in let a := p_addr p in
  match k with
  | KBootloaderHello => pre (eqn 4) k p (do b <- u16_at d 2; Val (BootloaderHello a b))
  | KProgrammerHello => pre (eqn 4) k p (do x <- u16_at d 2; Val (ProgrammerHello x))
  | KStartFirmware => pre (eqn 8) k p (do x <- u16_at d 2; do s <- u32_at d 4; Val (StartFirmware a x s))
  | KAck => pre (eqn 4) k p (do t <- u16_at d 2; Val (Ack a t))
  | KData => pre (gen 6) k p
      (do t <- u16_at d 2; do l <- u16_at d 4;
       if negb (length d =? N.to_nat l + 6)%nat then Fail CWrongSize
       else do body <- slice d 6 (N.to_nat l); Val (Data a t l body))
  | KConfiguratorHello => pre (eqn 2) k p (Val ConfiguratorHello)
  | KBcmChange => pre (gen 7) k p (do t <- u16_at d 2; do i <- u8_at d 4; do v <- bcm_de (skipn 5 d); Val (BcmChange a t i v))
  | KButtonPressed => pre (eqn 5) k p (do b <- u16_at d 2; do i <- u8_at d 4; Val (ButtonPressed a b i))
  | KButtonReleased => pre (eqn 5) k p (do b <- u16_at d 2; do i <- u8_at d 4; Val (ButtonReleased a b i))
  | KSystemTick => pre (eqn 2) k p (Val (SystemTick a))
  | KStartConfig => pre (eqn 8) k p (do x <- u16_at d 2; do s <- u32_at d 4; Val (StartConfig a x s))
  | KSetAddress => pre (eqn 6) k p (do x <- u16_at d 2; do n <- u16_at d 4; Val (SetAddress a x n))
  | KMessage => pre (eqn 14) k p (do t <- u16_at d 2; do c <- u16_at d 4; do v <- msg_de d; Val (Message a t c v))
  | KBcmAnimate => pre (gen 11) k p (do t <- u16_at d 2; do i <- u8_at d 4; do du <- u32_at d 5; do v <- bcm_de (skipn 9 d); Val (BcmAnimate a t i du v))
  | KRelaySet => pre (eqn 6) k p (do t <- u16_at d 2; do i <- u8_at d 4; do v <- relay_de (skipn 5 d); Val (RelaySet a t i v))
  | KGatewayDiscover => pre (eqn 4) k p (do g <- u16_at d 2; Val (GatewayDiscover a g))
  end.

(* ---------- well-formed events ---------- *)
Definition u8 (x: N) := x <? 256. Definition u16 (x: N) := x <? 65536. Definition u32 (x: N) := x <? 4294967296.
Definition wf_bcm (v: bcm_value) : bool :=
  match v with Binary _ => true | Single x => u8 x | Rgb r g b => u8 r && u8 g && u8 b
  | RgbB r g b x | Rgbw r g b x => u8 r && u8 g && u8 b && u8 x | RgbwB r g b w x => u8 r && u8 g && u8 b && u8 w && u8 x end.
Definition wf_msg (v: msg_value) : bool := match v with MU8 x => u8 x | MU16 x => u16 x | MU32 x => u32 x | MBool _ => true end.
Definition wf_event (e: event) : bool :=
  match e with
  | BootloaderHello p b => u16 p && u16 b | ProgrammerHello p => u16 p
  | StartFirmware r p s | StartConfig r p s => u16 r && u16 p && u32 s
  | Ack r t => u16 r && u16 t
  | Data r t l d => u16 r && u16 t && u16 l && (N.of_nat (length d) =? l) && bytes d
  | ConfiguratorHello => true
  | BcmChange a t i v => u16 a && u16 t && u8 i && wf_bcm v
  | ButtonPressed r b i | ButtonReleased r b i => u16 r && u16 b && u8 i
  | SystemTick r => u16 r
  | SetAddress r p n => u16 r && u16 p && u16 n
  | Message r t c v => u16 r && u16 t && u16 c && wf_msg v
  | BcmAnimate a t i du v => u16 a && u16 t && u8 i && u32 du && wf_bcm v
  | RelaySet a t i v => u16 a && u16 t && u8 i
  | GatewayDiscover d g => u16 d && u16 g
  end.
(* the address the packet is sent to; the two hello announcements do not carry a receiver *)
Definition recv_of (e: event) : N :=
  match e with
  | BootloaderHello p _ => p | ProgrammerHello _ => BROADCAST | StartFirmware r _ _ => r | Ack r _ => r | Data r _ _ _ => r
  | ConfiguratorHello => BROADCAST | BcmChange a _ _ _ => a | ButtonPressed r _ _ => r | ButtonReleased r _ _ => r
  | SystemTick r => r | StartConfig r _ _ => r | SetAddress r _ _ => r | Message r _ _ _ => r | BcmAnimate a _ _ _ _ => a
  | RelaySet a _ _ _ => a | GatewayDiscover d _ => d end.
