(* Protocol.v - model of src/protocol.rs: handler registry (BTreeMap<u32, (closure, capture_all)> as a
   key-sorted association list), tick, send_packet, handle_packet, exchange_packet(s).
   Closures are scripts: a handler is (label, capture_all, packets it transmits through the protocol
   handle it is given); every invocation is logged as (handler id, label, packet seen).
   The interface is a script: answers to try_get_packet and answers to try_send_packet.
   Handlers that send to the device's own address (re-entrant dispatch) or mutate the registry while
   being dispatched are outside the model (wf_table). *)
Require Import RP.Model.Base RP.Model.Packet RP.Model.Events.

(* ---------- registry ---------- *)
Record handler := mkH { h_label: N; h_cap: bool; h_sends: list packet }.
Definition table := list (N * handler).
Definition keys (t: table) : list N := map fst t.

(* get_next_handler_id: scan the keys in ascending order *)
Fixpoint next_go (cand: N) (ks: list N) : N :=
  match ks with [] => cand | k :: r => next_go (if cand =? k then cand + 1 else cand) r end.
Definition next_id (t: table) : N := next_go 0 (keys t).

Fixpoint insert (k: N) (v: handler) (t: table) : table :=          (* BTreeMap::insert *)
  match t with
  | [] => [(k, v)]
  | (k', v') :: r => if k <? k' then (k, v) :: t else if k =? k' then (k, v) :: r else (k', v') :: insert k v r
  end.
Fixpoint remove (k: N) (t: table) : option table :=                 (* None = the key is absent *)
  match t with
  | [] => None
  | (k', v') :: r => if k =? k' then Some r else option_map (cons (k', v')) (remove k r)
  end.

Definition add_handler (t: table) (h: handler) : table * N := let id := next_id t in (insert id h t, id).
Inductive perr := PInterface (code: N) | PNoSuchHandler | PTimeout.
Definition remove_handler (t: table) (id: N) : table * out unit perr :=
  match remove id t with Some t' => (t', Val tt) | None => (t, Fail PNoSuchHandler) end.

(* ---------- the interface as a script ---------- *)
Inductive gres := GPacket (p: packet) | GNone | GErr (code: N).       (* try_get_packet: Ok / NoPacketReceived / other error *)
Record iface := mkI { i_gets: list gres; i_sends: list N (* answers to try_send_packet: 0 = Ok, c = error c *); i_sent: list packet }.
(* an exhausted get script answers NoPacketReceived; an exhausted send script answers Ok *)
Definition iget (i: iface) : gres * iface :=
  match i_gets i with [] => (GNone, i) | g :: r => (g, mkI r (i_sends i) (i_sent i)) end.
Definition isend (i: iface) (p: packet) : N * iface :=
  match i_sends i with [] => (0, mkI (i_gets i) [] (i_sent i ++ [p])) | a :: r => (a, mkI (i_gets i) r (i_sent i ++ [p])) end.

Definition logent := (N * N * packet)%type.      (* handler id, label, packet it was given *)

(* a handler body: it transmits its packets through the handle (results ignored by the closure) *)
Fixpoint isend_all (i: iface) (ps: list packet) : iface :=
  match ps with [] => i | p :: t => isend_all (snd (isend i p)) t end.

(* handle_packet: every handler in key order, if owned_address or the handler captures all addresses *)
Fixpoint handle_packet (t: table) (p: packet) (owned: bool) (i: iface) : list logent * iface :=
  match t with
  | [] => ([], i)
  | (id, h) :: r =>
      if owned || h_cap h then
        let i' := isend_all i (h_sends h) in
        let '(log, i'') := handle_packet r p owned i' in ((id, h_label h, p) :: log, i'')
      else handle_packet r p owned i
  end.

Definition owned_addr (own: N) (p: packet) : bool := (p_addr p =? own) || (p_addr p =? BROADCAST).

(* tick *)
Definition tick (own: N) (t: table) (i: iface) : out unit perr * list logent * iface :=
  match iget i with
  | (GPacket p, i') => let '(log, i'') := handle_packet t p (owned_addr own p) i' in (Val tt, log, i'')
  | (GNone, i') => (Val tt, [], i')
  | (GErr c, i') => (Fail (PInterface c), [], i')
  end.

(* send_packet *)
Definition send_packet (own: N) (t: table) (p: packet) (i: iface) : out unit perr * list logent * iface :=
  let '(log, i1) := if p_addr p =? own then handle_packet t p true i else ([], i) in
  if (p_addr p =? own) && negb (own =? BROADCAST) then (Val tt, log, i1)
  else let '(a, i2) := isend i1 p in ((if a =? 0 then Val tt else Fail (PInterface a)), log, i2).

(* exchange_packet / exchange_packets: send, wait once, then poll; trace = what happened in order *)
Inductive tev := TWait | TGet (g: gres).
Definition matches (own: N) (cap: bool) (k: kind) (p: packet) : option event :=
  if cap || owned_addr own p then match decode k p with Val e => Some e | _ => None end else None.

Fixpoint drain1 (fuel: nat) (own: N) (cap: bool) (k: kind) (i: iface) (tr: list tev) : out event perr * list tev * iface :=
  match fuel with
  | O => (Hang, tr, i)
  | S f => match iget i with
           | (GPacket p, i') => match matches own cap k p with
                                | Some e => (Val e, tr ++ [TGet (GPacket p)], i')
                                | None => drain1 f own cap k i' (tr ++ [TGet (GPacket p)])
                                end
           | (GNone, i') => (Fail PTimeout, tr ++ [TGet GNone], i')
           | (GErr c, i') => (Fail (PInterface c), tr ++ [TGet (GErr c)], i')
           end
  end.
Definition exchange1 (own: N) (t: table) (p: packet) (cap: bool) (k: kind) (i: iface) : out event perr * list logent * list tev * iface :=
  match send_packet own t p i with
  | (Val _, log, i1) => let '(r, tr, i2) := drain1 (S (length (i_gets i1))) own cap k i1 [TWait] in (r, log, tr, i2)
  | (Fail e, log, i1) => (Fail e, log, [], i1)
  | (Panic, log, i1) => (Panic, log, [], i1) | (Hang, log, i1) => (Hang, log, [], i1)
  end.

Fixpoint drainN (fuel: nat) (own: N) (cap: bool) (k: kind) (i: iface) (tr: list tev) (acc: list event) : out (list event) perr * list tev * iface :=
  match fuel with
  | O => (Hang, tr, i)
  | S f => match iget i with
           | (GPacket p, i') => drainN f own cap k i' (tr ++ [TGet (GPacket p)]) (match matches own cap k p with Some e => acc ++ [e] | None => acc end)
           | (GNone, i') => (Val acc, tr ++ [TGet GNone], i')
           | (GErr c, i') => (Fail (PInterface c), tr ++ [TGet (GErr c)], i')
           end
  end.
Definition exchangeN (own: N) (t: table) (p: packet) (cap: bool) (k: kind) (i: iface) : out (list event) perr * list logent * list tev * iface :=
  match send_packet own t p i with
  | (Val _, log, i1) => let '(r, tr, i2) := drainN (S (length (i_gets i1))) own cap k i1 [TWait] [] in (r, log, tr, i2)
  | (Fail e, log, i1) => (Fail e, log, [], i1)
  | (Panic, log, i1) => (Panic, log, [], i1) | (Hang, log, i1) => (Hang, log, [], i1)
  end.

(* handlers never send to the device's own address *)
Definition wf_table (own: N) (t: table) : Prop := Forall (fun kh => Forall (fun p => p_addr p <> own) (h_sends (snd kh))) t.
