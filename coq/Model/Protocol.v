(* Protocol.v - model of src/protocol.rs: handler registry (BTreeMap<u32, (closure, capture_all)> as a
   key-sorted association list), tick, send_packet, handle_packet, exchange_packet(s).
   Closures are scripts: a handler is (label, capture_all, packets it transmits through the protocol
   handle it is given); every invocation is logged as (handler id, label, packet seen).
   The interface is a script: answers to try_get_packet and answers to try_send_packet.
   A handler that sends to the device's own address re-enters the dispatcher (hsend); the scripted handlers
   send only from a top-level dispatch (a handler that sent to the own address from every invocation would
   recurse for ever in the implementation too).  Handlers that mutate the registry while being dispatched
   are outside the model. *)
Require Import RP.Model.Base RP.Model.Packet RP.Model.Events.

(* ---------- registry ---------- *)
Record handler := mkH { h_label: N; h_cap: bool; h_sends: list packet }.
Definition table := list (N * handler).
Definition keys (t: table) : list N := map fst t.

(* get_next_handler_id: scan the keys in ascending order *)
Fixpoint next_go (cand: N) (ks: list N) : N :=
  match ks with [] => cand | k :: r => next_go (if cand =? k then cand + 1 else cand) r end.
Definition next_id (t: table) : N := next_go 0 (keys t).

Fixpoint insert (k: N) (v: handler) (t: table) : table :=          (* BTreeMap::insert *)
  match t with
  | [] => [(k, v)]
  | (k', v') :: r => if k <? k' then (k, v) :: t else if k =? k' then (k, v) :: r else (k', v') :: insert k v r
  end.
Fixpoint remove (k: N) (t: table) : option table :=                 (* None = the key is absent *)
  match t with
  | [] => None
  | (k', v') :: r => if k =? k' then Some r else option_map (cons (k', v')) (remove k r)
  end.

Definition add_handler (t: table) (h: handler) : table * N := let id := next_id t in (insert id h t, id).
Inductive perr := PInterface (code: N) | PNoSuchHandler | PTimeout.
Definition remove_handler (t: table) (id: N) : table * out unit perr :=
  match remove id t with Some t' => (t', Val tt) | None => (t, Fail PNoSuchHandler) end.

(* ---------- the interface as a script ---------- *)
Inductive gres := GPacket (p: packet) | GNone | GErr (code: N).       (* try_get_packet: Ok / NoPacketReceived / other error *)
Record iface := mkI { i_gets: list gres; i_sends: list N (* answers to try_send_packet: 0 = Ok, c = error c *); i_sent: list packet }.
(* an exhausted get script answers NoPacketReceived; an exhausted send script answers Ok *)
Definition iget (i: iface) : gres * iface :=
  match i_gets i with [] => (GNone, i) | g :: r => (g, mkI r (i_sends i) (i_sent i)) end.
Definition isend (i: iface) (p: packet) : N * iface :=
  match i_sends i with [] => (0, mkI (i_gets i) [] (i_sent i ++ [p])) | a :: r => (a, mkI (i_gets i) r (i_sent i ++ [p])) end.

Definition logent := (N * N * packet)%type.      (* handler id, label, packet it was given *)

(* isend_all: the packets ps handed to the link one after the other *)
Fixpoint isend_all (i: iface) (ps: list packet) : iface :=
  match ps with [] => i | p :: t => isend_all (snd (isend i p)) t end.

(* send_packet's routing rule: a packet addressed to the own address is looped back to the local handlers and is
   put on the link only by a device whose own address is the broadcast address; every other packet is transmitted *)
Definition transmitted (own: N) (p: packet) : bool := negb (p_addr p =? own) || (own =? BROADCAST).

(* A handler body (a script): it logs the packet it was given and, when it was invoked by a top-level dispatch,
   calls send_packet on the protocol handle for each of its packets, ignoring the results.  Such a nested
   send_packet of a packet q addressed to the own address dispatches q - re-entrantly, while the outer walk
   over the table is suspended - to EVERY registered handler (leaf_log: the scripted handlers do not send again
   from a nested dispatch, which is what keeps the recursion finite), and transmits q as `transmitted` says. *)
Definition leaf_log (t: table) (q: packet) : list logent := map (fun kh => (fst kh, h_label (snd kh), q)) t.
Definition hsend (own: N) (full: table) (acc: list logent * iface) (q: packet) : list logent * iface :=
  (if p_addr q =? own then fst acc ++ leaf_log full q else fst acc,
   if transmitted own q then snd (isend (snd acc) q) else snd acc).
Definition hbody (own: N) (full: table) (h: handler) (i: iface) : list logent * iface :=
  fold_left (hsend own full) (h_sends h) ([], i).

(* handle_packet: every handler in key order, if owned_address or the handler captures all addresses *)
Fixpoint handle_go (own: N) (full t: table) (p: packet) (owned: bool) (i: iface) : list logent * iface :=
  match t with
  | [] => ([], i)
  | (id, h) :: r =>
      if owned || h_cap h then
        let '(l1, i') := hbody own full h i in
        let '(l2, i'') := handle_go own full r p owned i' in ((id, h_label h, p) :: l1 ++ l2, i'')
      else handle_go own full r p owned i
  end.
Definition handle_packet (own: N) (t: table) (p: packet) (owned: bool) (i: iface) : list logent * iface :=
  handle_go own t t p owned i.

Definition owned_addr (own: N) (p: packet) : bool := (p_addr p =? own) || (p_addr p =? BROADCAST).

(* tick *)
Definition tick (own: N) (t: table) (i: iface) : out unit perr * list logent * iface :=
  match iget i with
  | (GPacket p, i') => let '(log, i'') := handle_packet own t p (owned_addr own p) i' in (Val tt, log, i'')
  | (GNone, i') => (Val tt, [], i')
  | (GErr c, i') => (Fail (PInterface c), [], i')
  end.

(* send_packet *)
Definition send_packet (own: N) (t: table) (p: packet) (i: iface) : out unit perr * list logent * iface :=
  let '(log, i1) := if p_addr p =? own then handle_packet own t p true i else ([], i) in
  if (p_addr p =? own) && negb (own =? BROADCAST) then (Val tt, log, i1)
  else let '(a, i2) := isend i1 p in ((if a =? 0 then Val tt else Fail (PInterface a)), log, i2).

(* exchange_packet / exchange_packets: send, wait once, then poll; trace = what happened in order *)
Inductive tev := TWait | TGet (g: gres).
Definition matches (own: N) (cap: bool) (k: kind) (p: packet) : option event :=
  if cap || owned_addr own p then match decode k p with Val e => Some e | _ => None end else None.

Fixpoint drain1 (fuel: nat) (own: N) (cap: bool) (k: kind) (i: iface) (tr: list tev) : out event perr * list tev * iface :=
  match fuel with
  | O => (Hang, tr, i)
  | S f => match iget i with
           | (GPacket p, i') => match matches own cap k p with
                                | Some e => (Val e, tr ++ [TGet (GPacket p)], i')
                                | None => drain1 f own cap k i' (tr ++ [TGet (GPacket p)])
                                end
           | (GNone, i') => (Fail PTimeout, tr ++ [TGet GNone], i')
           | (GErr c, i') => (Fail (PInterface c), tr ++ [TGet (GErr c)], i')
           end
  end.
Definition exchange1 (own: N) (t: table) (p: packet) (cap: bool) (k: kind) (i: iface) : out event perr * list logent * list tev * iface :=
  match send_packet own t p i with
  | (Val _, log, i1) => let '(r, tr, i2) := drain1 (S (length (i_gets i1))) own cap k i1 [TWait] in (r, log, tr, i2)
  | (Fail e, log, i1) => (Fail e, log, [], i1)
  | (Panic, log, i1) => (Panic, log, [], i1) | (Hang, log, i1) => (Hang, log, [], i1)
  end.

Fixpoint drainN (fuel: nat) (own: N) (cap: bool) (k: kind) (i: iface) (tr: list tev) (acc: list event) : out (list event) perr * list tev * iface :=
  match fuel with
  | O => (Hang, tr, i)
  | S f => match iget i with
           | (GPacket p, i') => drainN f own cap k i' (tr ++ [TGet (GPacket p)]) (match matches own cap k p with Some e => acc ++ [e] | None => acc end)
           | (GNone, i') => (Val acc, tr ++ [TGet GNone], i')
           | (GErr c, i') => (Fail (PInterface c), tr ++ [TGet (GErr c)], i')
           end
  end.
Definition exchangeN (own: N) (t: table) (p: packet) (cap: bool) (k: kind) (i: iface) : out (list event) perr * list logent * list tev * iface :=
  match send_packet own t p i with
  | (Val _, log, i1) => let '(r, tr, i2) := drainN (S (length (i_gets i1))) own cap k i1 [TWait] [] in (r, log, tr, i2)
  | (Fail e, log, i1) => (Fail e, log, [], i1)
  | (Panic, log, i1) => (Panic, log, [], i1) | (Hang, log, i1) => (Hang, log, [], i1)
  end.

(* tables whose handlers never send to the device's own address: no re-entrant dispatch *)
Definition quiet (own: N) (t: table) : bool := forallb (fun kh => forallb (fun q => negb (p_addr q =? own)) (h_sends (snd kh))) t.
