(* Frame.v - model of src/frame.rs: Frame::{to,from}_usart_frame and Frame::{to,from}_bxcan_frame.
   A driver-level CAN frame (bxcan::Frame) is the record canframe: what Frame::new_data / new_remote
   can build (extended or standard id, data or remote, at most 8 data bytes). *)
Require Import RP.Model.Base RP.Model.Packet RP.Model.Cobs.

Inductive ferr := FrameIsStandard | FrameIsRemote | FrameIdMissing | WrongSize | CobsError.

Definition bit (x: N) (k: N) : bool := negb (N.land (N.shiftr x k) 1 =? 0).

(* ---------------- USART codec ---------------- *)
Definition hdr0 (ne st mf: bool) (fid: N) : N :=
  N.lor (N.lor (N.lor (N.shiftl (b2N ne) 7) (N.shiftl (b2N st) 6)) (N.shiftl (b2N mf) 5))
        (N.shiftr (N.land fid 0x0f00) 8).

Definition header (f: frame) : list N :=
  [ hdr0 (f_ne f) (f_st f) (f_mf f) (f_id f);
    N.land (f_id f) 0x00ff;
    N.shiftr (N.land (f_addr f) 0xff00) 8;
    N.land (f_addr f) 0x00ff;
    f_dlen f ].

Definition to_usart (f: frame) : out (list N) ferr :=
  (* for i in 0..data_len { frame[i + 5] = self.data[i] } *)
  do body <- slice (f_data f) 0 (N.to_nat (f_dlen f));
  Val (cobs_encode (header f ++ body)).

Definition from_usart (enc: list N) : out frame ferr :=
  match cobs_decode enc with
  | None => Fail CobsError
  | Some body =>
    if (length body <? 5)%nat then Fail WrongSize else
    do b4 <- idx body 4;
    if (8 <? b4) || negb (length body =? N.to_nat b4 + 5)%nat then Fail WrongSize else
    do b0 <- idx body 0; do b1 <- idx body 1; do b2 <- idx body 2; do b3 <- idx body 3;
    let st := bit b0 6 in
    (* for i in 0..data_len { data[i] = frame[i + 5] } *)
    do data <- slice body 5 (N.to_nat b4);
    Val (mkF (bit b0 7) st (bit b0 5) st
             (N.lor (N.shiftl (N.land b0 0x0f) 8) b1)
             (N.lor (N.shiftl b2 8) b3) b4 (pad8 data))
  end.

(* ---------------- CAN codec ---------------- *)
Record canframe := mkCF { cf_ext: bool; cf_remote: bool; cf_id: N; cf_dlc: N (* remote frames only *); cf_data: list N }.
Definition wf_canframe (c: canframe) : bool :=
  (if cf_ext c then cf_id c <? 536870912 else cf_id c <? 2048) &&
  (if cf_remote c then (cf_dlc c <=? 8) && (length (cf_data c) =? 0)%nat
   else (length (cf_data c) <=? 8)%nat && bytes (cf_data c) && (cf_dlc c =? nlen (cf_data c))).

Definition from_bxcan (c: canframe) : out frame ferr :=
  if negb (cf_ext c) then Fail FrameIsStandard else
  let id := cf_id c in
  let ne := negb (N.land (N.shiftr id 28) 1 =? 0) in
  let st := negb (N.land (N.shiftr id 27) 1 =? 0) in
  let mf := negb (N.land (N.shiftr id 26) 1 =? 0) in
  let nibble := N.land (N.shiftr id 16) 0x000f in
  let addr := N.land (N.shiftr id 0) 0xffff in
  if cf_remote c then Fail FrameIsRemote else
  let dlen := nlen (cf_data c) in          (* frame.dlc() of a data frame *)
  (* for i in 0..data_len { data[i] = frame_data[i] } into [0u8; 8] *)
  if 8 <? dlen then Panic else
  do body <- slice (cf_data c) 0 (N.to_nat dlen);
  let data := pad8 body in
  if mf then
    if dlen =? 0 then Fail FrameIdMissing
    else do d0 <- idx data 0;
         Val (mkF ne st mf st (N.lor (N.shiftl nibble 8) d0) addr dlen data)
  else Val (mkF ne true mf true 0 addr dlen data).

Definition can_id (f: frame) : N :=
  N.lor (N.lor (N.lor (N.lor (N.shiftl (b2N (f_ne f)) 28) (N.shiftl (b2N (f_st f)) 27)) (N.shiftl (b2N (f_mf f)) 26))
        (N.shiftl (N.shiftr (N.land (f_id f) 0x0f00) 8) 16)) (N.land (f_addr f) 0xffff).

Definition to_bxcan (f: frame) : out canframe ferr :=
  let id := can_id f in
  if 536870912 <=? id then Panic                       (* ExtendedId::new(id).unwrap() *)
  else do body <- slice (f_data f) 0 (N.to_nat (f_dlen f));   (* &self.data[0..data_len], Data::new(..).unwrap() *)
       Val (mkCF true false id (f_dlen f) body).
