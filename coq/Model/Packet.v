(* Packet.v - model of src/packet.rs: Packet::to_frames and PacketBuilder (new / add_frame /
   frames_left / build), following the Rust control flow and index arithmetic.
   Frame = src/frame.rs struct Frame; FrameId::{LastFrameId,CurrentFrameId}(id) is (f_last, f_id). *)
Require Import RP.Model.Base.

Record frame := mkF { f_ne: bool; f_st: bool; f_mf: bool; f_last: bool (* LastFrameId? *);
                      f_id: N; f_addr: N; f_dlen: N; f_data: list N (* [u8; 8] *) }.
Record packet := mkP { p_err: bool; p_addr: N; p_data: list N }.

Inductive berr := OutOfOrder | SingleFramePacket | TooManyFrames | WrongFrameType | DeviceAddressMismatch | MissingFrames.
Record builder := mkB { b_err: bool; b_exp: N; b_addr: N; b_frames: list frame }.

Definition zeros_from (k: nat) (l: list N) : bool := forallb (fun x => x =? 0) (skipn k l).
Definition wf_frame (f: frame) : bool :=
  (f_dlen f <=? 8) && (f_id f <? 4096) && (f_addr f <? 65536) && (length (f_data f) =? 8)%nat
  && bytes (f_data f) && zeros_from (N.to_nat (f_dlen f)) (f_data f).
Definition wf_packet (p: packet) : bool := (p_addr p <? 65536) && bytes (p_data p).

Definition pad8 (l: list N) : list N := l ++ repeat 0 (8 - length l).

(* ---------- Packet::to_frames ---------- *)
Definition to_frames (p: packet) : out (list frame) berr :=
  let d := p_data p in
  let n := length d in
  if (n <=? 8)%nat then
    (* for i in 0..len { data[i] = self.data[i] } *)
    do body <- slice d 0 n;
    Val [mkF (negb (p_err p)) true false true 0 (p_addr p) (N.of_nat n mod 256) (pad8 body)]
  else
    let m := ((n - 1) / 7 + 1)%nat in
    mapM (fun i =>
      let dl := if (i =? m - 1)%nat then (if (n mod 7 =? 0)%nat then 8 else n mod 7 + 1)%nat else 8%nat in
      let idb := if (i =? 0)%nat then N.land (N.of_nat (m - 1)) 255 else N.land (N.of_nat i) 255 in
      (* for j in 0..(data_len - 1) { data[j + 1] = self.data[i * 7 + j] } *)
      do body <- slice d (i * 7) (dl - 1);
      (* frame_count as u16 - 1 : checked subtraction on the truncated count *)
      do fid <- (if (i =? 0)%nat then (if N.of_nat m mod 65536 =? 0 then Panic else Val (N.of_nat m mod 65536 - 1))
                 else Val (N.of_nat i mod 65536));
      Val (mkF (negb (p_err p)) (i =? 0)%nat true (i =? 0)%nat fid (p_addr p) (N.of_nat dl mod 256) (pad8 (idb :: body))))
    (seq 0 m).

(* ---------- PacketBuilder ---------- *)
Definition b_count (b: builder) : N := nlen (b_frames b) mod 65536.        (* frames.len() as u16 *)
Definition frames_left (b: builder) : out N berr :=
  if b_exp b <? b_count b then Panic else Val (b_exp b - b_count b).

Definition builder_new (f: frame) : out builder berr :=
  if negb (f_st f) then Fail OutOfOrder
  else if f_last f then
    if f_id f + 1 <? 65536 then Val (mkB (negb (f_ne f)) (f_id f + 1) (f_addr f) [f]) else Panic
  else Fail OutOfOrder.

Definition add_frame (b: builder) (f: frame) : out builder berr :=
  if negb (Bool.eqb (negb (f_ne f)) (b_err b)) then Fail WrongFrameType
  else if negb (f_addr f =? b_addr b) then Fail DeviceAddressMismatch
  else if f_st f then Fail OutOfOrder
  else if negb (f_mf f) then Fail SingleFramePacket
  else if f_last f then Fail OutOfOrder
  else if negb (f_id f =? b_count b) then Fail OutOfOrder
  else if b_exp b <=? f_id f then Fail TooManyFrames
  else Val (mkB (b_err b) (b_exp b) (b_addr b) (b_frames b ++ [f])).

Definition payload (f: frame) : out (list N) berr :=
  let start := if f_mf f then 1%nat else 0%nat in
  (* for i in start..data_len { data.push(frame.data[i]) } *)
  slice (f_data f) start (N.to_nat (f_dlen f) - start).

Definition build (b: builder) : out packet berr :=
  if negb (length (b_frames b) =? N.to_nat (b_exp b))%nat then Fail MissingFrames
  else do chunks <- mapM payload (b_frames b);
       Val (mkP (b_err b) (b_addr b) (concat chunks)).

Definition small (p: packet) : Prop := (length (p_data p) <= N.to_nat 28672)%nat.
Definition smallb (p: packet) : bool := nlen (p_data p) <=? 28672.
