(* Cobs.v - model of crate cobs 0.1.4 as used by src/frame.rs: encode() via CobsEncoder::push/finalize
   restated functionally, CobsDecoder::feed as an automaton with a bounded destination, and the way
   from_usart_frame drives it (push the whole input expecting no completion, then push a zero). *)
Require Import RP.Model.Base.

Fixpoint enc_go (run: list N) (src: list N) : list N :=
  match src with
  | [] => (nlen run + 1) :: run
  | x :: t =>
    if x =? 0 then ((nlen run + 1) :: run) ++ enc_go [] t
    else let run' := run ++ [x] in
         if nlen run' + 1 =? 255 then (255 :: run') ++ enc_go [] t
         else enc_go run' t
  end.

Definition max_enc_len (n: nat) : nat := (n + n / 254 + (if (n mod 254 =? 0)%nat then 0 else 1))%nat.
Definition cobs_encode (src: list N) : list N :=
  match src with [] => [] | _ => firstn (max_enc_len (length src)) (enc_go [] src) end.

Inductive dstate := Idle | Grab (n: N) | GrabChain (n: N) | Done.
Inductive fres := More | Complete (n: nat) | Bad.

(* dest is modelled by the list of bytes written so far (in order) and a capacity *)
Definition feed (cap: nat) (st: dstate) (out: list N) (d: N) : fres * dstate * list N :=
  let add x := if (length out <? cap)%nat then Some (out ++ [x]) else None in
  match st with
  | Idle => if d =? 0 then (More, Idle, out)
            else if d =? 255 then (More, GrabChain 254, out)
            else (More, Grab (d - 1), out)
  | Grab 0 => if d =? 0 then (Complete (length out), Done, out)
              else match add 0 with
                   | None => (Bad, Grab 0, out)
                   | Some out' => if d =? 255 then (More, GrabChain 254, out') else (More, Grab (d - 1), out')
                   end
  | Grab i => if d =? 0 then (Bad, Done, out)
              else match add d with None => (Bad, Grab i, out) | Some out' => (More, Grab (i - 1), out') end
  | GrabChain 0 => if d =? 0 then (Complete (length out), Done, out)
                   else if d =? 255 then (More, GrabChain 254, out) else (More, Grab (d - 1), out)
  | GrabChain i => if d =? 0 then (Bad, Done, out)
                   else match add d with None => (Bad, GrabChain i, out) | Some out' => (More, GrabChain (i - 1), out') end
  | Done => (Bad, Done, out)
  end.

Fixpoint push (cap: nat) (st: dstate) (out: list N) (data: list N) : fres * dstate * list N :=
  match data with
  | [] => (More, st, out)
  | d :: t => match feed cap st out d with
              | (More, st', out') => push cap st' out' t
              | r => r
              end
  end.

(* from_usart_frame: decoder over a destination of encoded.len() bytes; push(encoded) must return
   Ok(None), push([0]) must return Ok(Some((n, _))); anything else is CobsError (None here) *)
Definition cobs_decode (enc: list N) : option (list N) :=
  let cap := length enc in
  match push cap Idle [] enc with
  | (More, st, out) => match feed cap st out 0 with
                       | (Complete n, _, out') => Some (firstn n out')
                       | _ => None
                       end
  | _ => None
  end.
