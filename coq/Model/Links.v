(* Links.v - model of the three link receivers (src/interface/{can,usart,serial}.rs try_get_packet)
   over scripted devices.  A device is the list of answers it will give, one per read/receive call;
   an exhausted script answers WouldBlock / TimedOut for ever.  The builder logic shared by the three
   files is on_frame; each receiver is a token automaton (phase, step); poll = run the automaton from
   the idle phase to its first emission; polls = the harness loop "poll while input remains, then
   once more" (by fuel); run = the flat list of all emissions with the phase carried across polls. *)
Require Import RP.Model.Base RP.Model.Packet RP.Model.Cobs RP.Model.Frame.

Inductive lerr := LBuilder (e: berr) | LFrame (e: ferr) | LUsartRead | LSerialRead.
Inductive res := RPacket (p: packet) | RErr (e: lerr) | RNone | RPanic | RHang | ROutOfFuel.

(* ---------- the builder logic shared by can.rs / usart.rs / serial.rs, given a decoded frame ---------- *)
Definition on_frame (st: option builder) (f: frame) : option builder * option res :=
  let started : option builder * option res :=
    match st with
    | Some b => match add_frame b f with
                | Val b' => (Some b', None)
                | Fail e => (None, Some (RErr (LBuilder e)))        (* self.packet_builder = None; return Err *)
                | Panic => (st, Some RPanic) | Hang => (st, Some RHang)
                end
    | None => match builder_new f with
              | Val b => (Some b, None)
              | Fail e => (None, Some (RErr (LBuilder e)))
              | Panic => (st, Some RPanic) | Hang => (st, Some RHang)
              end
    end in
  match started with
  | (Some b, None) =>
      match frames_left b with
      | Val lft => if lft =? 0 then
                      match build b with
                      | Val p => (None, Some (RPacket p))
                      | Fail e => (Some b, Some (RErr (LBuilder e)))   (* returns before clearing *)
                      | Panic => (Some b, Some RPanic) | Hang => (Some b, Some RHang)
                      end
                    else (Some b, None)
      | Fail e => (Some b, Some (RErr (LBuilder e)))
      | Panic => (Some b, Some RPanic) | Hang => (Some b, Some RHang)
      end
  | other => other
  end.

(* a decoded (or undecodable) frame arrives *)
Definition on_decoded (st: option builder) (d: out frame ferr) : option builder * option res :=
  match d with
  | Val f => on_frame st f
  | Fail e => (st, Some (RErr (LFrame e)))                          (* builder kept *)
  | Panic => (st, Some RPanic) | Hang => (st, Some RHang)
  end.
Definition on_body (st: option builder) (body: list N) := on_decoded st (from_usart body).

(* ---------- token automata ---------- *)
Inductive stepres (phase: Type) := Emit (r: res) | Cont (ph: phase).
Arguments Emit {phase}. Arguments Cont {phase}.

Record machine := mkM {
  tok: Type; phase: Type; idle: phase;
  mstep: phase -> option builder -> tok -> stepres phase * option builder;
  mexh: phase -> res                          (* answer of a poll that finds the script exhausted in this phase *)
}.

Fixpoint poll_go (M: machine) (ph: phase M) (b: option builder) (s: list (tok M)) : res * option builder * list (tok M) :=
  match s with
  | [] => (mexh M ph, b, [])
  | t :: s' => match mstep M ph b t with
               | (Emit r, b') => (r, b', s')
               | (Cont ph', b') => poll_go M ph' b' s'
               end
  end.
Definition poll (M: machine) := poll_go M (idle M).

(* the harness loop: poll while the script is non-empty, then once more; each result with the number of tokens left *)
Fixpoint polls (M: machine) (fuel: nat) (b: option builder) (s: list (tok M)) : list (res * N) * option builder :=
  match fuel with
  | O => ([(ROutOfFuel, nlen s)], b)
  | S f => match s with
           | [] => let '(r, b', _) := poll M b [] in ([(r, 0)], b')
           | _ => let '(r, b', s') := poll M b s in
                  let '(rs, bf) := polls M f b' s' in ((r, nlen s') :: rs, bf)
           end
  end.

Fixpoint run (M: machine) (ph: phase M) (b: option builder) (s: list (tok M)) : list res * phase M * option builder :=
  match s with
  | [] => ([], ph, b)
  | t :: s' => match mstep M ph b t with
               | (Emit r, b') => let '(rs, ph', b'') := run M (idle M) b' s' in (r :: rs, ph', b'')
               | (Cont ph', b') => run M ph' b' s'
               end
  end.

Definition finish {P} (idle: P) (r: option builder * option res) : stepres P * option builder :=
  match r with (b', Some x) => (Emit x, b') | (b', None) => (Cont idle, b') end.

(* ---------- USART (embedded_hal::serial::Read<u8>) ---------- *)
Inductive utok := UB (b: N) | UWB | UErr.
Inductive uphase := UIdle | UWantLen | UBody (n: nat) (acc: list N).
Definition ustep (ph: uphase) (b: option builder) (t: utok) : stepres uphase * option builder :=
  match ph, t with
  | UIdle, UB x => if x =? 0 then (Cont UWantLen, b) else (Cont UIdle, b)
  | UIdle, _ => (Emit RNone, b)                                   (* outer read: Err(_) => break *)
  | UWantLen, UWB => (Cont UWantLen, b)                            (* block! *)
  | UWantLen, UErr => (Emit (RErr LUsartRead), b)
  | UWantLen, UB l => if l =? 0 then finish UIdle (on_body b []) else (Cont (UBody (N.to_nat l) []), b)
  | UBody n acc, UWB => (Cont (UBody n acc), b)
  | UBody n acc, UErr => (Emit (RErr LUsartRead), b)
  | UBody n acc, UB x => let acc' := acc ++ [x] in
                         if (length acc' <? n)%nat then (Cont (UBody n acc'), b) else finish UIdle (on_body b acc')
  end.
Definition usart : machine := mkM utok uphase UIdle ustep (fun ph => match ph with UIdle => RNone | _ => RHang end).

(* ---------- serial port (std::io::Read::read_exact over a mock SerialPort) ---------- *)
(* SB = a byte is available; STO = read returns TimedOut; SINT = Interrupted (read_exact retries); SERR = another io error *)
Inductive stok := SB (b: N) | STO | SINT | SERR.
Definition sstep (ph: uphase) (b: option builder) (t: stok) : stepres uphase * option builder :=
  match ph, t with
  | _, SINT => (Cont ph, b)
  | UIdle, SB x => if x =? 0 then (Cont UWantLen, b) else (Cont UIdle, b)
  | UIdle, _ => (Emit RNone, b)                                   (* Err(err) => NoPacketReceived *)
  | UWantLen, SB l => if l =? 0 then finish UIdle (on_body b []) else (Cont (UBody (N.to_nat l) []), b)
  | UWantLen, _ => (Emit (RErr LSerialRead), b)
  | UBody n acc, SB x => let acc' := acc ++ [x] in
                         if (length acc' <? n)%nat then (Cont (UBody n acc'), b) else finish UIdle (on_body b acc')
  | UBody n acc, _ => (Emit (RErr LSerialRead), b)                 (* bytes read so far are lost *)
  end.
Definition serial : machine := mkM stok uphase UIdle sstep (fun ph => match ph with UIdle => RNone | _ => RErr LSerialRead end).

(* ---------- CAN (bxcan receive) ---------- *)
Inductive ctok := CF (c: canframe) | CWB | COverrun.
Definition cstep (ph: unit) (b: option builder) (t: ctok) : stepres unit * option builder :=
  match t with
  | CF c => finish tt (on_decoded b (from_bxcan c))
  | _ => (Emit RNone, b)                                           (* Err(_) => break *)
  end.
Definition can : machine := mkM ctok unit tt cstep (fun _ => RNone).

(* ================= senders (try_send_packet) =================
   The emission loops are modelled relative to fragmentation and the frame codecs: they take the list
   of already encoded link frames.  The device is the list of answers to write/transmit calls. *)

(* ---------- USART: embedded_hal::serial::Write<u8>, every write under block!, results discarded ---------- *)
Inductive wtok := WAccept | WWB | WFail.
(* block!(write(x)): retried while the device answers WouldBlock; Accept records the byte; a hard
   error is discarded by `let _ =` and the byte is lost; an exhausted script blocks for ever *)
Fixpoint uwrite (x: N) (ans: list wtok) : out (list N * list wtok) lerr :=
  match ans with
  | [] => Hang
  | WAccept :: t => Val ([x], t)
  | WFail :: t => Val ([], t)
  | WWB :: t => uwrite x t
  end.
Fixpoint uwrite_all (xs: list N) (ans: list wtok) : out (list N * list wtok) lerr :=
  match xs with
  | [] => Val ([], ans)
  | x :: t => do r <- uwrite x ans; let '(w, ans') := r in
              do r2 <- uwrite_all t ans'; let '(w2, ans'') := r2 in Val (w ++ w2, ans'')
  end.
Definition link_bytes (enc: list N) : list N := 0 :: (nlen enc mod 256) :: enc.     (* delimiter, length byte, encoded frame *)
Definition usart_send (encs: list (list N)) (ans: list wtok) : out (list N * list wtok) lerr :=
  uwrite_all (concat (map link_bytes encs)) ans.

(* ---------- CAN: block!(transmit(frame)); Ok(Some(_)) = a pending lower-priority frame was displaced ---------- *)
Inductive ttok := TSent | TWB | TDisplaced.
Inductive serr := SMailboxFull | SWrite | SFlush.
Fixpoint ctransmit (ans: list ttok) : out (bool * list ttok) serr :=       (* true = displaced *)
  match ans with
  | [] => Hang
  | TSent :: t => Val (false, t)
  | TDisplaced :: t => Val (true, t)
  | TWB :: t => ctransmit t
  end.
(* returns the frames handed to the controller, in order, and the result *)
Fixpoint can_send (cfs: list canframe) (ans: list ttok) : list canframe * out unit serr :=
  match cfs with
  | [] => ([], Val tt)
  | c :: t => match ctransmit ans with
              | Val (false, ans') => let '(sent, r) := can_send t ans' in (c :: sent, r)
              | Val (true, _) => ([c], Fail SMailboxFull)
              | Fail e => ([], Fail e) | Panic => ([], Panic) | Hang => ([], Hang)
              end
  end.

(* ---------- serial port: std::io::Write::write_all per piece, then flush ---------- *)
(* PW n = write accepts up to n bytes (n >= 1); PW 0 = write returns Ok(0) (write_all fails with WriteZero);
   PInt = Interrupted (retried); PErr = another io error; an exhausted script accepts everything *)
Inductive ptok := PW (n: nat) | PInt | PErr.
Fixpoint pwrite_all (fuel: nat) (buf: list N) (ans: list ptok) : list N * list ptok * bool :=    (* written, answers left, ok? *)
  match fuel with
  | O => ([], ans, false)
  | S f =>
    match buf with
    | [] => ([], ans, true)
    | _ => match ans with
           | [] => (buf, [], true)
           | PW O :: t => ([], t, false)
           | PW n :: t => let w := firstn n buf in
                          let '(w2, ans', ok) := pwrite_all f (skipn n buf) t in (w ++ w2, ans', ok)
           | PInt :: t => pwrite_all f buf t
           | PErr :: t => ([], t, false)
           end
    end
  end.
Definition pwrite (buf: list N) (ans: list ptok) := pwrite_all (S (length buf + length ans)) buf ans.
Fixpoint serial_send_frames (encs: list (list N)) (ans: list ptok) : list N * list ptok * bool :=
  match encs with
  | [] => ([], ans, true)
  | e :: t =>
      let '(w1, a1, ok1) := pwrite [0] ans in
      if negb ok1 then (w1, a1, false) else
      let '(w2, a2, ok2) := pwrite [nlen e mod 256] a1 in
      if negb ok2 then (w1 ++ w2, a2, false) else
      let '(w3, a3, ok3) := pwrite e a2 in
      if negb ok3 then (w1 ++ w2 ++ w3, a3, false) else
      let '(w4, a4, ok4) := serial_send_frames t a3 in (w1 ++ w2 ++ w3 ++ w4, a4, ok4)
  end.
Definition serial_send (encs: list (list N)) (ans: list ptok) (flush_ok: bool) : list N * out unit serr :=
  let '(w, _, ok) := serial_send_frames encs ans in
  (w, if negb ok then Fail SWrite else if flush_ok then Val tt else Fail SFlush).
