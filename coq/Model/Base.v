(* Base.v - numbers, the outcome monad (Val / Fail / Panic / Hang), checked indexing.
   Every Rust indexing expression, slice, unwrap and overflow-checked arithmetic operation is
   modelled by a checked operation that yields [Panic] exactly when the Rust one panics. *)
From Coq Require Export NArith List Lia ZArith ZifyBool ZifyN ZifyNat Bool Arith.
Export ListNotations.
Global Open Scope N_scope.
Ltac Zify.zify_post_hook ::= Z.div_mod_to_equations.
Global Arguments N.add : simpl never. Global Arguments N.mul : simpl never. Global Arguments N.sub : simpl never.
Global Arguments N.eqb : simpl never. Global Arguments N.ltb : simpl never. Global Arguments N.leb : simpl never.
Global Arguments N.div : simpl never. Global Arguments N.modulo : simpl never.
Global Arguments N.of_nat : simpl never. Global Arguments N.to_nat : simpl never.
Global Arguments N.land : simpl never. Global Arguments N.lor : simpl never.
Global Arguments N.shiftl : simpl never. Global Arguments N.shiftr : simpl never.
Global Arguments Nat.div : simpl never. Global Arguments Nat.modulo : simpl never.

(* outcome of a Rust call: value, Err(e), panic, or spinning for ever *)
Inductive out (A E: Type) : Type := Val (a: A) | Fail (e: E) | Panic | Hang.
Arguments Val {A E}. Arguments Fail {A E}. Arguments Panic {A E}. Arguments Hang {A E}.

Definition bind {A B E} (o: out A E) (f: A -> out B E) : out B E :=
  match o with Val a => f a | Fail e => Fail e | Panic => Panic | Hang => Hang end.
Notation "'do' x <- o ; f" := (bind o (fun x => f)) (at level 200, x name, o at level 100, f at level 200).

Fixpoint mapM {A B E} (f: A -> out B E) (l: list A) : out (list B) E :=
  match l with
  | [] => Val []
  | x :: t => do y <- f x; do ys <- mapM f t; Val (y :: ys)
  end.

(* checked indexing v[i] *)
Definition idx {E} (l: list N) (i: nat) : out N E :=
  match nth_error l i with Some x => Val x | None => Panic end.

(* checked slice &l[a .. a+n]; also the model of a copy loop "for j in 0..n { dst[j] = l[a + j] }"
   (lemma mapM_idx_slice: the index loop and the slice agree, including on when they panic) *)
Definition slice {E} (l: list N) (a n: nat) : out (list N) E :=
  if (a + n <=? length l)%nat then Val (firstn n (skipn a l)) else Panic.

Definition nlen {A} (l: list A) : N := N.of_nat (length l).
Definition byte (b: N) : bool := b <? 256.
Definition bytes (l: list N) : bool := forallb byte l.
Definition b2N (b: bool) : N := if b then 1 else 0.

Lemma mapM_ext_val {A B E} (f: A -> out B E) (g: A -> B) l :
  (forall x, In x l -> f x = Val (g x)) -> mapM f l = Val (map g l).
Proof.
  induction l as [|x t IH]; intros H; cbn [mapM map]; [reflexivity|].
  rewrite H by (left; reflexivity). cbn [bind]. rewrite IH by (intros; apply H; right; assumption). reflexivity.
Qed.

Lemma mapM_map {A B C E} (f: B -> out C E) (g: A -> B) l : mapM f (map g l) = mapM (fun x => f (g x)) l.
Proof. induction l as [|x t IH]; [reflexivity|]. cbn [map mapM]. rewrite IH. reflexivity. Qed.

Lemma skipn_S_nth (d: list N) a x : nth_error d a = Some x -> skipn a d = x :: skipn (S a) d.
Proof.
  revert d. induction a as [|a IHa]; intros [|y d] Ex; cbn in *; try discriminate;
    [inversion Ex; reflexivity| apply IHa, Ex].
Qed.

(* reading a slice by a checked index loop *)
Lemma mapM_idx_slice {E} (d: list N) a k : (a + k <= length d)%nat ->
  mapM (fun j => @idx E d (a + j)) (seq 0 k) = Val (firstn k (skipn a d)).
Proof.
  revert a d. induction k as [|k IH]; intros a d H; [reflexivity|].
  rewrite <- cons_seq, <- seq_shift. cbn [mapM]. unfold idx at 1. rewrite Nat.add_0_r.
  destruct (nth_error d a) as [x|] eqn:Ex; [|apply nth_error_None in Ex; lia].
  cbn [bind].
  assert (Hm: mapM (fun j => @idx E d (a + j)) (map S (seq 0 k)) = mapM (fun j => @idx E d (S a + j)) (seq 0 k)).
  { clear. induction (seq 0 k) as [|y t IHt]; [reflexivity|]. cbn [map mapM]. rewrite IHt. replace (a + S y)%nat with (S a + y)%nat by lia. reflexivity. }
  rewrite Hm, IH by lia. cbn [bind].
  f_equal. rewrite (skipn_S_nth _ _ _ Ex). reflexivity.
Qed.

(* ... and the index loop panics exactly when the slice does *)
Lemma mapM_idx_slice_eq {E} (d: list N) a k :
  (k = 0%nat \/ (a + k <= length d)%nat) ->
  mapM (fun j => @idx E d (a + j)) (seq 0 k) = match k with O => Val [] | _ => @slice E d a k end.
Proof.
  intros [->|H]; [reflexivity|]. destruct k; [reflexivity|].
  rewrite mapM_idx_slice by lia. unfold slice.
  destruct (a + S k <=? length d)%nat eqn:E1; [reflexivity|apply Nat.leb_gt in E1; lia].
Qed.

Lemma slice_val {E} (d: list N) a k : (a + k <= length d)%nat -> @slice E d a k = Val (firstn k (skipn a d)).
Proof. intros H. unfold slice. destruct (a + k <=? length d)%nat eqn:E1; [reflexivity|apply Nat.leb_gt in E1; lia]. Qed.

Lemma skipn_skipn' {A} (a b: nat) (l: list A) : skipn a (skipn b l) = skipn (b + a) l.
Proof. revert l. induction b as [|b IH]; intros l; [reflexivity|]. destruct l; [rewrite !skipn_nil; reflexivity|]. cbn [skipn Nat.add]. apply IH. Qed.

Lemma bytes_app a b : bytes (a ++ b) = bytes a && bytes b.
Proof. unfold bytes. apply forallb_app. Qed.
Lemma bytes_split n l : bytes l = bytes (firstn n l) && bytes (skipn n l).
Proof. rewrite <- bytes_app, firstn_skipn. reflexivity. Qed.
Lemma bytes_firstn n l : bytes l = true -> bytes (firstn n l) = true.
Proof. rewrite (bytes_split n l). intros H. apply andb_prop in H. apply H. Qed.
Lemma bytes_skipn n l : bytes l = true -> bytes (skipn n l) = true.
Proof. rewrite (bytes_split n l). intros H. apply andb_prop in H. apply H. Qed.
