// Streams over fragmentation and reassembly (FRG, REA, BLD).
use crate::rng::Rng;
use crate::s_frames::{copy_frame, ferr_code, parse_can};
use crate::wire::*;
use crate::{guarded, Ctx, PANIC};
use ross_protocol::frame::{Frame, FrameError, FrameId};
use ross_protocol::packet::{Packet, PacketBuilder, PacketBuilderError};

pub fn berr_code(e: &PacketBuilderError) -> u64 {
    match e { PacketBuilderError::OutOfOrder => 0, PacketBuilderError::SingleFramePacket => 1, PacketBuilderError::TooManyFrames => 2,
              PacketBuilderError::WrongFrameType => 3, PacketBuilderError::DeviceAddressMismatch => 4, PacketBuilderError::MissingFrames => 5 }
}
pub fn sizes(r: &mut Rng, thorough: bool) -> Vec<usize> {
    let mut v: Vec<usize> = (0..=64).collect();
    for &k in &[36usize, 37, 255, 256, 257] { v.extend_from_slice(&[7 * k - 1, 7 * k, 7 * k + 1]); }
    v.extend(1785..=1800);
    if thorough { for &k in &[4095usize, 4096] { v.extend_from_slice(&[7 * k - 1, 7 * k, 7 * k + 1]); } v.extend(28665..=28672); }
    else { v.extend_from_slice(&[28666, 28672]); }
    // sizes around which 16-bit arithmetic on byte counts goes wrong (len * 8, len * 7, len * 3 wrap; bit 13 / 14 set) - large but not maximal
    v.extend_from_slice(if thorough { &[4681usize, 8191, 8192, 8193, 9362, 9363, 9364, 13107, 13108, 16383, 16384, 16385, 21845, 21846][..] } else { &[8192usize, 9363, 16384, 21846][..] });
    for _ in 0..(if thorough { 3000 } else { 700 }) { let bits = r.range(1, if thorough { 15 } else { 12 }); v.push(r.below(1 << bits) as usize % 28673); }
    v
}
pub fn gen_packet(r: &mut Rng, n: usize) -> Packet {
    let mut p = Packet { is_error: r.chance(1, 3), device_address: r.u16b() as u16, data: r.bytes(n) };
    // coincidences between independent parameters: payload bytes that repeat the length, the frame index, the frame count or the address
    match r.below(12) {
        0 => { for b in p.data.iter_mut() { *b = n as u8; } }
        1 => { for (i, b) in p.data.iter_mut().enumerate() { *b = (i / 7) as u8; } }
        2 => { let fc = if n <= 8 { 1 } else { (n + 6) / 7 }; for b in p.data.iter_mut() { *b = (fc - 1) as u8; } p.device_address = (fc - 1) as u16; }
        3 => { let a = p.device_address; for (i, b) in p.data.iter_mut().enumerate() { *b = if i % 2 == 0 { (a >> 8) as u8 } else { a as u8 }; } }
        4 => { p.device_address = n as u16; }
        _ => {}
    }
    p
}
pub fn gen_packets(r: &mut Rng, thorough: bool, cx: &mut Ctx) {
    for n in sizes(r, thorough) { let p = gen_packet(r, n); let mut l = vec![]; show_packet(&p, &mut l); cx.emit(&l); }
}
fn show_frames(fs: &[Frame], o: &mut L) { o.push(fs.len() as u64); for f in fs { show_frame(f, o); } }

// Fragmentation and reassembly are pure: nothing an earlier reassembly (fragmentation) did may show in a later fragmentation (reassembly).
// Before its first case the FRG stream lets the process reassemble - complete packets, packets cut short, frames offered twice, out of
// order and to the wrong builder - and the BLD stream first fragments packets of several sizes; results discarded.
fn reassembled_before() {
    static ONCE: std::sync::Once = std::sync::Once::new();
    ONCE.call_once(|| {
        let mut r = Rng::new(0x0070_6163_6b65_7401);
        for n in 0..200usize {
            let len = match n % 4 { 0 => r.below(9) as usize, 1 => r.range(9, 30) as usize, 2 => r.range(30, 200) as usize, _ => r.range(9, 60) as usize };
            let p = Packet { is_error: r.coin(), device_address: r.u16b() as u16, data: r.bytes(len) };
            let mode = r.below(5);
            let _ = guarded(move || {
                let fs = p.to_frames();
                let mut it = fs.iter().map(copy_frame);
                if let Some(f0) = it.next() { if let Ok(mut b) = PacketBuilder::new(f0) {
                    let rest: Vec<Frame> = it.collect();
                    for (i, f) in rest.iter().enumerate() {
                        if mode == 1 && i == rest.len() / 2 { break; }                                     // cut short
                        if mode == 2 && i == 1 { let _ = b.add_frame(copy_frame(&rest[0])); }              // a duplicate
                        if mode == 3 && i + 1 < rest.len() && i == 0 { let _ = b.add_frame(copy_frame(&rest[1])); }   // a gap
                        if mode == 4 && i == 0 { let mut g = copy_frame(f); g.device_address ^= 1; let _ = b.add_frame(g); }   // a foreign frame
                        let _ = b.add_frame(copy_frame(f));
                    }
                    let _ = b.frames_left(); let _ = b.build();
                } }
            });
        }
    });
}
fn fragmented_before() {
    static ONCE: std::sync::Once = std::sync::Once::new();
    ONCE.call_once(|| {
        let mut r = Rng::new(0x0070_6163_6b65_7402);
        for n in 0..200usize {
            let len = match n % 4 { 0 => r.below(9) as usize, 1 => r.range(9, 30) as usize, 2 => r.range(30, 200) as usize, _ => 7 * r.range(1, 40) as usize };
            let p = Packet { is_error: r.coin(), device_address: r.u16b() as u16, data: r.bytes(len) };
            let _ = guarded(move || { let _ = p.to_frames(); });
        }
    });
}
pub fn exec_frg(case: &[u64]) -> L {
    reassembled_before();
    let (p, _) = parse_packet(case);
    let mut o = vec![];
    match guarded(move || p.to_frames()) {
        None => o.push(PANIC),
        Some(fs) => { let mut l = vec![]; show_frames(&fs, &mut l); o.push(0); o.push(l.len() as u64); o.extend(l); }
    }
    o
}

fn probe(m: usize, k: usize) -> bool { if m <= 64 { true } else { k == 1 || k == m / 2 || k == m - 1 } }
fn show_build(r: Option<Result<Packet, PacketBuilderError>>, o: &mut L) {
    match r { None => o.push(PANIC), Some(Err(e)) => { o.push(1); o.push(berr_code(&e)); }
              Some(Ok(p)) => { let mut l = vec![]; show_packet(&p, &mut l); o.push(0); o.push(l.len() as u64); o.extend(l); } }
}
// one path of REA: frames (or the codec error that stopped the path)
fn rea_path(fs: Result<Vec<Frame>, FrameError>, o: &mut L) {
    let fs = match fs { Err(e) => { o.push(6); o.push(ferr_code(&e)); return; } Ok(fs) => fs };
    if fs.is_empty() { o.push(4); return; }
    let m = fs.len();
    let r = guarded(move || -> Result<(Vec<u64>, bool, PacketBuilder), PacketBuilderError> {
        let mut it = fs.into_iter();
        let mut b = PacketBuilder::new(it.next().unwrap())?;
        let mut lefts = vec![b.frames_left() as u64];
        let mut early = false;
        let mut k = 1;
        for f in it {
            if probe(m, k) && b.build().is_ok() { early = true; }
            b.add_frame(f)?;
            lefts.push(b.frames_left() as u64);
            k += 1;
        }
        Ok((lefts, early, b))
    });
    match r {
        None => o.push(PANIC),
        Some(Err(e)) => { o.push(1); o.push(berr_code(&e)); }
        Some(Ok((lefts, early, b))) => {
            o.push(0); o.push(lefts.len() as u64); o.extend(lefts); o.push(early as u64);
            show_build(guarded(move || b.build()), o);
        }
    }
}
pub fn exec_rea(case: &[u64]) -> L {
    let (p, _) = parse_packet(case);
    let fs = match guarded(move || p.to_frames()) { None => { return vec![PANIC]; } Some(fs) => fs };
    let mut o = vec![];
    let mut put = |t: L| { o.push(t.len() as u64); o.extend(t); };
    { let mut t = vec![]; rea_path(Ok(fs.iter().map(copy_frame).collect()), &mut t); put(t); }
    { let mut t = vec![];
      match guarded(|| fs.iter().map(|f| Frame::from_bxcan_frame(f.to_bxcan_frame())).collect::<Result<Vec<Frame>, FrameError>>()) {
          None => t.push(PANIC), Some(r) => rea_path(r, &mut t) }
      put(t); }
    { let mut t = vec![];
      match guarded(|| fs.iter().map(|f| Frame::from_usart_frame(f.to_usart_frame())).collect::<Result<Vec<Frame>, FrameError>>()) {
          None => t.push(PANIC), Some(r) => rea_path(r, &mut t) }
      put(t); }
    o
}

// ---------- BLD ----------
fn finger(b: &PacketBuilder, o: &mut L) {
    o.push(b.expected_frame_count() as u64); o.push(b.frame_count() as u64);
    match guarded(|| b.frames_left()) { Some(l) => { o.push(0); o.push(1); o.push(l as u64); } None => o.push(PANIC) }
    show_build(guarded(|| b.build()), o);
}
pub fn exec_bld(case: &[u64]) -> L {
    fragmented_before();
    let n = case[0] as usize;
    let mut rest = &case[1..];
    let mut frames = vec![];
    for _ in 0..n { let (f, r) = parse_frame(rest); frames.push(f); rest = r; }
    let mut it = frames.into_iter();
    let mut o = vec![];
    let mut b = match guarded(move || (PacketBuilder::new(it.next().unwrap()), it)) {
        None => return vec![PANIC],
        Some((Err(e), _)) => return vec![1, berr_code(&e)],
        Some((Ok(b), rest)) => { it = rest; b }
    };
    o.push(0); o.push(0); finger(&b, &mut o);
    for f in it {
        let r = std::panic::catch_unwind(std::panic::AssertUnwindSafe(|| b.add_frame(f)));
        match r {
            Err(_) => { o.push(PANIC); return o; }
            Ok(Ok(())) => { o.push(0); o.push(0); }
            Ok(Err(e)) => { o.push(1); o.push(berr_code(&e)); }
        }
        finger(&b, &mut o);
    }
    o
}
fn mk(ne: bool, st: bool, mf: bool, last: bool, id: u16, addr: u16, dlen: usize, r: &mut Rng) -> Frame {
    let mut data = [0u8; 8]; let b = r.bytes(8); for i in 0..dlen { data[i] = b[i]; }
    if mf && dlen > 0 && r.chance(3, 4) { data[0] = id as u8; }
    Frame { not_error_flag: ne, start_frame_flag: st, multi_frame_flag: mf, frame_id: if last { FrameId::LastFrameId(id) } else { FrameId::CurrentFrameId(id) }, device_address: addr, data_len: dlen as u8, data }
}
pub fn gen_bld_history(r: &mut Rng, max_len: u64) -> Vec<Frame> {
    let ne = r.coin(); let addr = r.u16b() as u16;
    let announced: u16 = match r.below(10) { 0 => 1, 1 => 2, 2 => 3, 3 => 256, 4 => 257, 5 => 4096, 6 => 4095, _ => r.range(1, 12) as u16 };
    let multi = if announced == 1 { r.coin() } else { r.chance(9, 10) };
    let mut fs = vec![];
    // start frame (sometimes not a legal one)
    let dl0 = if multi { r.range(0, 8) as usize } else { r.range(0, 8) as usize };
    let start = match r.below(12) {
        0 => mk(ne, false, multi, true, announced - 1, addr, dl0, r),       // not a start frame
        1 => mk(ne, true, multi, false, announced - 1, addr, dl0, r),      // start flag with a current-frame id
        _ => mk(ne, true, multi, true, announced - 1, addr, dl0, r),
    };
    fs.push(start);
    let mut count: u16 = 1;
    let n = r.range(1, max_len);
    for _ in 0..n {
        let dl = match r.below(6) { 0 => 0, 1 => 1, 2 => 8, _ => r.range(1, 8) as usize };
        let f = match r.below(16) {
            0 => mk(ne, false, true, false, count.wrapping_sub(1), addr, dl, r),                 // duplicate of the previous one
            1 => mk(ne, false, true, false, count + 1, addr, dl, r),                              // gap
            2 => mk(ne, false, true, false, count.wrapping_add(256), addr, dl, r),                // id congruent mod 256
            3 => mk(ne, false, true, false, announced, addr, dl, r),                              // id = announced count
            4 => mk(ne, false, true, false, announced.wrapping_add(r.below(3) as u16), addr, dl, r),
            5 => mk(ne, false, true, false, count, addr ^ (1 << r.below(16)), dl, r),             // other device
            6 => mk(!ne, false, true, false, count, addr, dl, r),                                 // other error type
            7 => mk(ne, true, true, true, announced - 1, addr, dl, r),                            // start frame again
            8 => mk(ne, true, false, true, 0, addr, dl, r),                                       // single-frame packet
            9 => mk(ne, false, false, false, count, addr, dl, r),                                 // not multi
            10 => mk(ne, false, true, true, count, addr, dl, r),                                  // last-kinded continuation
            11 => if r.coin() { mk(ne, false, true, false, r.below(4096) as u16, addr, dl, r) }
                  // two deviations that could cancel out in a combined key: neighbouring address AND the other error type, with the right next id
                  else { mk(!ne, false, true, false, count, if r.coin() { addr.wrapping_add(1) } else { addr.wrapping_sub(1) }, dl, r) },
            _ => mk(ne, false, true, false, count, addr, dl, r),                                  // the right next frame
        };
        // track what the reference would accept, to keep later frames interesting
        let ok = !f.start_frame_flag && f.multi_frame_flag && f.not_error_flag == ne && f.device_address == addr
            && matches!(f.frame_id, FrameId::CurrentFrameId(i) if i == count && i < announced);
        if ok { count += 1; }
        fs.push(f);
    }
    fs
}
pub fn gen_bld(r: &mut Rng, thorough: bool, cx: &mut Ctx) {
    for _ in 0..(if thorough { 100000 } else { 6000 }) {
        let fs = gen_bld_history(r, 40);
        let mut l = vec![fs.len() as u64]; for f in &fs { show_frame(f, &mut l); } cx.emit(&l);
    }
    // long histories that fill large packets completely (announced 256/257/4096), then offer surplus frames
    for &m in (if thorough { &[256u16, 257, 600, 4096][..] } else { &[257u16, 4096][..] }) {
        let ne = r.coin(); let addr = r.u16b() as u16;
        let mut fs = vec![mk(ne, true, true, true, m - 1, addr, 8, r)];
        for i in 1..m { if i == 9 { fs.push(mk(ne, false, true, false, i + 256, addr, 8, r)); } fs.push(mk(ne, false, true, false, i, addr, if i == m - 1 { 3 } else { 8 }, r)); }
        let sur = m.min(4095);      // surplus frames: ids stay below 4096, otherwise the whole history would be outside the property's (well-formed frames) domain
        fs.push(mk(ne, false, true, false, sur, addr, 8, r)); fs.push(mk(ne, false, true, false, sur, addr, 8, r)); fs.push(mk(ne, false, true, false, m - 1, addr, 8, r));
        let mut l = vec![fs.len() as u64]; for f in &fs { show_frame(f, &mut l); } cx.emit(&l);
    }
    let _ = parse_can;
}
