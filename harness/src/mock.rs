// Scripted devices.  A device answers each call with the next token of its script; an exhausted
// script answers WouldBlock / TimedOut for ever.  More than SPIN_LIMIT such answers inside one call
// of the code under test is reported as a hang (the mock unwinds with a Hang payload).
use std::cell::RefCell;
use std::collections::VecDeque;
use std::rc::Rc;
use std::sync::{Arc, Mutex};

pub struct Hang;
pub const SPIN_LIMIT: u32 = 20000;
fn spin(counter: &mut u32) { *counter += 1; if *counter > SPIN_LIMIT { std::panic::panic_any(Hang); } }

// ---------- USART (embedded_hal::serial) ----------
// rx tokens: 0..=255 byte, 256 WouldBlock, 257 hard error.  tx answers: 0 accept, 1 WouldBlock, 2 hard error;
// accept_all: an exhausted answer list accepts everything (used when recording a sender's output).
#[derive(Default)]
pub struct UsartSt { pub rx: VecDeque<u16>, pub ans: VecDeque<u8>, pub accept_all: bool, pub tx: Vec<u8>, pub spins: u32 }
#[derive(Clone)]
pub struct UsartDev(pub Rc<RefCell<UsartSt>>);
impl embedded_hal::serial::Read<u8> for UsartDev {
    type Error = ();
    fn read(&mut self) -> nb::Result<u8, ()> {
        sample_peak();
        let mut s = self.0.borrow_mut();
        match s.rx.pop_front() {
            None => { spin(&mut s.spins); Err(nb::Error::WouldBlock) }
            Some(t) if t < 256 => Ok(t as u8),
            Some(256) => { gap_sleep(); Err(nb::Error::WouldBlock) }
            Some(_) => Err(nb::Error::Other(())),
        }
    }
}
impl embedded_hal::serial::Write<u8> for UsartDev {
    type Error = ();
    fn write(&mut self, w: u8) -> nb::Result<(), ()> {
        let mut s = self.0.borrow_mut();
        match s.ans.pop_front() {
            None => if s.accept_all { s.tx.push(w); Ok(()) } else { spin(&mut s.spins); Err(nb::Error::WouldBlock) },
            Some(0) => { s.tx.push(w); Ok(()) }
            Some(1) => Err(nb::Error::WouldBlock),
            Some(_) => Err(nb::Error::Other(())),
        }
    }
    // a flush is answered from the same script as the writes (0 done, 1 would-block, other = error); the shipping sender never flushes
    fn flush(&mut self) -> nb::Result<(), ()> {
        let mut s = self.0.borrow_mut();
        match s.ans.pop_front() {
            None => if s.accept_all { Ok(()) } else { spin(&mut s.spins); Err(nb::Error::WouldBlock) },
            Some(0) => Ok(()),
            Some(1) => Err(nb::Error::WouldBlock),
            Some(_) => Err(nb::Error::Other(())),
        }
    }
}

// real time: when set (one marked case per link), every scripted 'no data yet' answer of a receive call also lets that much wall-clock time pass
pub static GAP_SLEEP_MS: std::sync::atomic::AtomicU64 = std::sync::atomic::AtomicU64::new(0);
pub fn gap_sleep() { let ms = GAP_SLEEP_MS.load(std::sync::atomic::Ordering::Relaxed); if ms > 0 { std::thread::sleep(std::time::Duration::from_millis(ms)); } }

// ---------- CAN (hook: ross_protocol::interface::can::verif_sim::Instance) ----------
pub enum CanTok { Frame(bxcan::Frame), WouldBlock, Overrun }
#[derive(Default)]
pub struct CanSt { pub rx: VecDeque<CanTok>, pub ans: VecDeque<u8>, pub accept_all: bool, pub tx: Vec<bxcan::Frame>, pub spins: u32 }
#[derive(Clone)]
pub struct CanDev(pub Rc<RefCell<CanSt>>);
impl ross_protocol::interface::can::verif_sim::Instance for CanDev {
    fn receive(&mut self) -> nb::Result<bxcan::Frame, ()> {
        sample_peak();
        let mut s = self.0.borrow_mut();
        match s.rx.pop_front() {
            None => { spin(&mut s.spins); Err(nb::Error::WouldBlock) }
            Some(CanTok::Frame(f)) => Ok(f),
            Some(CanTok::WouldBlock) => { gap_sleep(); Err(nb::Error::WouldBlock) }
            Some(CanTok::Overrun) => Err(nb::Error::Other(())),
        }
    }
    fn transmit(&mut self, frame: &bxcan::Frame) -> nb::Result<Option<bxcan::Frame>, core::convert::Infallible> {
        let mut s = self.0.borrow_mut();
        match s.ans.pop_front() {
            None => if s.accept_all { s.tx.push(frame.clone()); Ok(None) } else { spin(&mut s.spins); Err(nb::Error::WouldBlock) },
            Some(0) => { s.tx.push(frame.clone()); Ok(None) }
            Some(1) => Err(nb::Error::WouldBlock),
            Some(_) => { s.tx.push(frame.clone()); Ok(Some(frame.clone())) }       // a pending frame was displaced
        }
    }
}

// ---------- serial port (serialport::SerialPort + std::io) ----------
// rx tokens: 0..=255 byte, 256 TimedOut, 257 other io error, 258 Interrupted, 259 WouldBlock error, 260 UnexpectedEof, 261 BrokenPipe, 262 Ok(0) (nothing read).
// write answers: n < 0x1000 accept up to n bytes (0 = Ok(0)), 0x1000 Interrupted, 0x1001 io error, 0x1002 TimedOut error, 0x1003 WouldBlock error, 0x1004 WriteZero error; exhausted = accept everything.
#[derive(Default)]
pub struct SerSt { pub rx: VecDeque<u16>, pub ans: VecDeque<u32>, pub flush_ok: bool, pub flush_kind: u64, pub tx: Vec<u8>, pub spins: u32, pub max_read: usize }
#[derive(Clone)]
pub struct SerDev(pub Arc<Mutex<SerSt>>);
impl std::io::Read for SerDev {
    fn read(&mut self, buf: &mut [u8]) -> std::io::Result<usize> {
        sample_peak();
        let mut s = self.0.lock().unwrap();
        if buf.is_empty() { return Ok(0); }
        match s.rx.front().cloned() {
            None => { spin(&mut s.spins); Err(std::io::Error::new(std::io::ErrorKind::TimedOut, "timeout")) }
            Some(256) => { s.rx.pop_front(); gap_sleep(); Err(std::io::Error::new(std::io::ErrorKind::TimedOut, "timeout")) }
            Some(258) => { s.rx.pop_front(); Err(std::io::Error::new(std::io::ErrorKind::Interrupted, "interrupted")) }
            Some(262) => { s.rx.pop_front(); Ok(0) }
            Some(259) => { s.rx.pop_front(); Err(std::io::Error::new(std::io::ErrorKind::WouldBlock, "would block")) }
            Some(260) => { s.rx.pop_front(); Err(std::io::Error::new(std::io::ErrorKind::UnexpectedEof, "eof")) }
            Some(261) => { s.rx.pop_front(); Err(std::io::Error::new(std::io::ErrorKind::BrokenPipe, "broken pipe")) }
            Some(t) if t > 255 => { s.rx.pop_front(); Err(std::io::Error::new(std::io::ErrorKind::Other, "io error")) }
            Some(_) => {
                let lim = if s.max_read == 0 { buf.len() } else { buf.len().min(s.max_read) };
                let mut n = 0;
                while n < lim { match s.rx.front().cloned() { Some(t) if t < 256 => { buf[n] = t as u8; n += 1; s.rx.pop_front(); } _ => break } }
                Ok(n)
            }
        }
    }
}
impl std::io::Write for SerDev {
    fn write(&mut self, buf: &[u8]) -> std::io::Result<usize> {
        let mut s = self.0.lock().unwrap();
        if buf.is_empty() { return Ok(0); }
        match s.ans.pop_front() {
            None => { s.tx.extend_from_slice(buf); Ok(buf.len()) }
            Some(0x1000) => Err(std::io::Error::new(std::io::ErrorKind::Interrupted, "interrupted")),
            Some(n) if n < 0x1000 => { let k = buf.len().min(n as usize); s.tx.extend_from_slice(&buf[..k]); Ok(k) }
            Some(0x1002) => Err(std::io::Error::new(std::io::ErrorKind::TimedOut, "write timed out")),
            Some(0x1003) => Err(std::io::Error::new(std::io::ErrorKind::WouldBlock, "write would block")),
            Some(0x1004) => Err(std::io::Error::new(std::io::ErrorKind::WriteZero, "write zero")),
            Some(_) => Err(std::io::Error::new(std::io::ErrorKind::Other, "io error")),
        }
    }
    fn flush(&mut self) -> std::io::Result<()> {
        let mut s = self.0.lock().unwrap();
        if s.flush_ok { return Ok(()); }
        // flush script, one base-8 digit per call, least significant first: 1 = Ok, anything else = an error of that kind (0 once the digits run out)
        let d = s.flush_kind % 8; s.flush_kind /= 8;
        if d == 1 { return Ok(()); }
        use std::io::ErrorKind::*;
        let kind = match d { 2 => TimedOut, 3 => Interrupted, 4 => WouldBlock, 5 => Other, 6 => WriteZero, _ => BrokenPipe };
        Err(std::io::Error::new(kind, "flush failed"))
    }
}
use serialport::*;
use std::time::Duration;
impl SerialPort for SerDev {
    fn name(&self) -> Option<String> { None }
    fn baud_rate(&self) -> Result<u32> { Ok(0) }
    fn data_bits(&self) -> Result<DataBits> { Ok(DataBits::Eight) }
    fn flow_control(&self) -> Result<FlowControl> { Ok(FlowControl::None) }
    fn parity(&self) -> Result<Parity> { Ok(Parity::None) }
    fn stop_bits(&self) -> Result<StopBits> { Ok(StopBits::One) }
    fn timeout(&self) -> Duration { Duration::from_millis(0) }
    fn set_baud_rate(&mut self, _: u32) -> Result<()> { Ok(()) }
    fn set_data_bits(&mut self, _: DataBits) -> Result<()> { Ok(()) }
    fn set_flow_control(&mut self, _: FlowControl) -> Result<()> { Ok(()) }
    fn set_parity(&mut self, _: Parity) -> Result<()> { Ok(()) }
    fn set_stop_bits(&mut self, _: StopBits) -> Result<()> { Ok(()) }
    fn set_timeout(&mut self, _: Duration) -> Result<()> { Ok(()) }
    fn write_request_to_send(&mut self, _: bool) -> Result<()> { Ok(()) }
    fn write_data_terminal_ready(&mut self, _: bool) -> Result<()> { Ok(()) }
    fn read_clear_to_send(&mut self) -> Result<bool> { Ok(true) }
    fn read_data_set_ready(&mut self) -> Result<bool> { Ok(true) }
    fn read_ring_indicator(&mut self) -> Result<bool> { Ok(false) }
    fn read_carrier_detect(&mut self) -> Result<bool> { Ok(true) }
    // what has arrived so far: the bytes in front of the next 'no data yet' / error answer
    fn bytes_to_read(&self) -> Result<u32> {
        let mut s = self.0.lock().unwrap();
        let n = s.rx.iter().take(4096).take_while(|t| **t < 256).count() as u32;      // 'at least 4096' is reported as 4096 (keeps a poll O(1) on long scripts)
        // nothing has arrived and the script's next answer is 'no data yet': asking counts as that answer (time passes), as a read would
        if n == 0 { if let Some(256) | Some(259) | Some(262) = s.rx.front().cloned() { s.rx.pop_front(); } }
        Ok(n)
    }
    fn bytes_to_write(&self) -> Result<u32> { Ok(0) }
    // discarding the input buffer discards exactly those bytes (what arrives later is unaffected); written bytes count as sent at once
    fn clear(&self, which: ClearBuffer) -> Result<()> {
        if let ClearBuffer::Input | ClearBuffer::All = which { let mut s = self.0.lock().unwrap(); while let Some(t) = s.rx.front() { if *t < 256 { s.rx.pop_front(); } else { break; } } }
        Ok(())
    }
    fn try_clone(&self) -> Result<Box<dyn SerialPort>> { Ok(Box::new(self.clone())) }
    fn set_break(&self) -> Result<()> { Ok(()) }
    fn clear_break(&self) -> Result<()> { Ok(()) }
}

// ---------- counting allocator: live heap bytes of the whole process ----------
use std::alloc::{GlobalAlloc, Layout, System};
use std::sync::atomic::{AtomicIsize, Ordering};
pub struct Counting;
pub static LIVE: AtomicIsize = AtomicIsize::new(0);
unsafe impl GlobalAlloc for Counting {
    unsafe fn alloc(&self, l: Layout) -> *mut u8 { LIVE.fetch_add(l.size() as isize, Ordering::Relaxed); System.alloc(l) }
    unsafe fn dealloc(&self, p: *mut u8, l: Layout) { LIVE.fetch_sub(l.size() as isize, Ordering::Relaxed); System.dealloc(p, l) }
    unsafe fn realloc(&self, p: *mut u8, l: Layout, n: usize) -> *mut u8 { LIVE.fetch_add(n as isize - l.size() as isize, Ordering::Relaxed); System.realloc(p, l, n) }
}
pub fn live() -> isize { LIVE.load(Ordering::Relaxed) }
// highest live heap seen by a device call since the last reset (devices sample it on every read)
pub static PEAK: AtomicIsize = AtomicIsize::new(0);
pub fn sample_peak() { let l = live(); if l > PEAK.load(Ordering::Relaxed) { PEAK.store(l, Ordering::Relaxed); } }
pub fn reset_peak() { PEAK.store(live(), Ordering::Relaxed); }
pub fn peak() -> isize { PEAK.load(Ordering::Relaxed) }
