// Streams over the link receivers and senders (RCV, LNK, SND).
use crate::mock::*;
use crate::rng::Rng;
use crate::s_frames::{copy_frame, ferr_code, parse_can};
use crate::s_packets::{berr_code, gen_packet};
use crate::wire::*;
use crate::Ctx;
use ross_protocol::frame::{Frame, FrameId};
use ross_protocol::interface::can::{Can, CanError};
use ross_protocol::interface::serial::{Serial, SerialError};
use ross_protocol::interface::usart::Usart;
use ross_protocol::interface::{Interface, InterfaceError};
use ross_protocol::packet::Packet;
use std::cell::RefCell;
use std::collections::VecDeque;
use std::panic::{catch_unwind, AssertUnwindSafe};
use std::rc::Rc;
use std::sync::{Arc, Mutex};

pub fn ierr_code(e: &InterfaceError) -> u64 {
    match e {
        InterfaceError::BuilderError(b) => 10 + berr_code(b),
        InterfaceError::FrameError(f) => 20 + ferr_code(f),
        InterfaceError::UsartError(_) => 30,
        InterfaceError::SerialError(SerialError::ReadError(_)) => 31,
        InterfaceError::SerialError(SerialError::WriteError(_)) => 32,
        InterfaceError::SerialError(_) => 33,
        InterfaceError::CanError(CanError::BufferOverrun) => 40,
        InterfaceError::CanError(CanError::MailboxFull) => 41,
        InterfaceError::NoPacketReceived => 99,
    }
}

// the harness loop: poll while input remains, then once more; stops at the first panic / hang
fn drive<I: Interface>(rx: &mut I, remaining: &dyn Fn() -> usize, reset: &dyn Fn(), obs: &mut L) {
    let count_at = obs.len(); obs.push(0);
    let base = live();
    let mut entries = 0u64;
    let budget = remaining() as u64 + 8;
    loop {
        let was_empty = remaining() == 0;
        reset(); reset_peak();
        let r = catch_unwind(AssertUnwindSafe(|| rx.try_get_packet()));
        let pk = (peak() - base).max(0) as u64;
        let start = obs.len(); obs.push(0);
        let mut bad = false; let mut none = false;
        match r {
            Ok(Ok(p)) => { obs.push(0); show_packet(&p, obs); }
            Ok(Err(InterfaceError::NoPacketReceived)) => { none = true; obs.push(2) }
            Ok(Err(e)) => { obs.push(1); obs.push(ierr_code(&e)); }
            Err(payload) => { bad = true; obs.push(if payload.is::<Hang>() { 4 } else { 3 }); }
        }
        obs.push(remaining() as u64);
        obs.push((live() - base).max(0) as u64);
        obs.push(pk);
        obs[start] = (obs.len() - start - 1) as u64;
        entries += 1;
        // the device is dry: stop at the first poll that reports 'nothing received' (a receiver may still hold complete packets)
        if bad || (was_empty && none) || entries > budget { break; }
    }
    obs[count_at] = entries;
}

fn can_tokens(toks: &[u64]) -> VecDeque<CanTok> {
    let mut v = VecDeque::new(); let mut i = 0;
    while i < toks.len() {
        match toks[i] {
            0 => { let n = toks[i + 5] as usize; v.push_back(CanTok::Frame(parse_can(&toks[i + 1..i + 6 + n]))); i += 6 + n; }
            1 => { v.push_back(CanTok::WouldBlock); i += 1; }
            _ => { v.push_back(CanTok::Overrun); i += 1; }
        }
    }
    v
}
pub fn poll_tokens(link: u64, toks: &[u64]) -> L { poll_tokens_duplex(link, toks, false) }
// a receiver object with a long life behind it: 70000 single-frame packets received and delivered before the measured traffic
// (a receiver is back in its initial state after every delivered packet, so this must not matter)
fn veteran_tokens(link: u64) -> L {
    let mut t = vec![];
    for i in 0..70000u32 { let p = Packet { is_error: i % 3 == 0, device_address: (i % 65536) as u16, data: vec![i as u8, (i >> 8) as u8, 7] }; packet_tokens(link, &p, &mut t); }
    t
}
fn wear_in<I: Interface>(rx: &mut I, remaining: &dyn Fn() -> usize) {
    let mut guard = 0u32;
    while remaining() > 0 && guard < 200000 { let _ = catch_unwind(AssertUnwindSafe(|| rx.try_get_packet())); guard += 1; }
}
// duplex: before the first poll the receiving node itself transmits a small packet, its transmitter answering would-block a few times
pub fn poll_tokens_duplex(link: u64, toks: &[u64], duplex: bool) -> L { poll_tokens_opts(link, toks, duplex, false, None) }
pub fn poll_tokens_opts(link: u64, toks: &[u64], duplex: bool, veteran: bool, echo: Option<Packet>) -> L {
    // what the receiving node itself transmits before polling: a fixed packet, or (echo) a copy of a packet it is about to receive
    let out_pkt = echo.unwrap_or(Packet { is_error: false, device_address: 0x4242, data: vec![1, 2, 3, 4, 5, 6, 7, 8, 9] });
    let mut obs: L = Vec::with_capacity(toks.len() * 8 + 256);
    match link {
        0 => {
            let st = Rc::new(RefCell::new(CanSt { rx: can_tokens(toks), accept_all: true, ans: vec![1, 1, 0, 1, 0].into_iter().collect(), ..Default::default() }));
            let mut rx = Can::new(ross_protocol::interface::can::verif_sim::Can::new(CanDev(st.clone())));
            if veteran { st.borrow_mut().rx = can_tokens(&veteran_tokens(0)); wear_in(&mut rx, &|| st.borrow().rx.len()); st.borrow_mut().rx = can_tokens(toks); }
            if duplex { let _ = catch_unwind(AssertUnwindSafe(|| rx.try_send_packet(&out_pkt))); }
            drive(&mut rx, &|| st.borrow().rx.len(), &|| st.borrow_mut().spins = 0, &mut obs);
        }
        1 => {
            let st = Rc::new(RefCell::new(UsartSt { rx: toks.iter().map(|x| *x as u16).collect(), accept_all: true, ans: vec![1, 0, 1, 1, 0].into_iter().collect(), ..Default::default() }));
            let mut rx = Usart::new(UsartDev(st.clone()));
            if veteran { st.borrow_mut().rx = veteran_tokens(1).iter().map(|x| *x as u16).collect(); wear_in(&mut rx, &|| st.borrow().rx.len()); st.borrow_mut().rx = toks.iter().map(|x| *x as u16).collect(); }
            if duplex { let _ = catch_unwind(AssertUnwindSafe(|| rx.try_send_packet(&out_pkt))); }
            drive(&mut rx, &|| st.borrow().rx.len(), &|| st.borrow_mut().spins = 0, &mut obs);
        }
        _ => {
            let st = Arc::new(Mutex::new(SerSt { rx: toks.iter().map(|x| *x as u16).collect(), max_read: (toks.len() % 3), ..Default::default() }));
            let mut rx = Serial::new(Box::new(SerDev(st.clone())));
            if veteran { st.lock().unwrap().rx = veteran_tokens(2).iter().map(|x| *x as u16).collect(); wear_in(&mut rx, &|| st.lock().unwrap().rx.len()); st.lock().unwrap().rx = toks.iter().map(|x| *x as u16).collect(); }
            if duplex { st.lock().unwrap().flush_ok = true; let _ = catch_unwind(AssertUnwindSafe(|| rx.try_send_packet(&out_pkt))); }
            drive(&mut rx, &|| st.lock().unwrap().rx.len(), &|| st.lock().unwrap().spins = 0, &mut obs);
        }
    }
    obs
}

// ---------- RCV ----------
pub fn exec_rcv(case: &[u64]) -> L {
    let m = case[1] as usize;
    poll_tokens(case[0], &case[2 + m..])
}

// wire image of one frame as device tokens, using the implementation's own encoders
fn frame_tokens(link: u64, f: &Frame, out: &mut L) {
    if link == 0 {
        let c = f.to_bxcan_frame();
        out.push(0); crate::s_frames::show_can_pub(&c, out);
    } else {
        let e = f.to_usart_frame();
        out.push(0); out.push(e.len() as u64 & 0xff); out.extend(e.iter().map(|b| *b as u64));
    }
}
// The generators build wire images with the implementation's own encoders.  If one of them panics (a changed tree), the case being built is
// dropped (POISON) instead of taking the generator down; the stream's other cases still run.
static POISON: std::sync::atomic::AtomicBool = std::sync::atomic::AtomicBool::new(false);
fn poisoned() -> bool { POISON.swap(false, std::sync::atomic::Ordering::SeqCst) }
fn frames_of(p: &Packet) -> Vec<Frame> {
    let q = p.clone();
    match catch_unwind(AssertUnwindSafe(move || q.to_frames())) { Ok(v) => v, Err(_) => { POISON.store(true, std::sync::atomic::Ordering::SeqCst); vec![] } }
}
fn packet_tokens(link: u64, p: &Packet, out: &mut L) {
    for f in frames_of(p).iter() {
        let mut t = vec![];
        if catch_unwind(AssertUnwindSafe(|| frame_tokens(link, f, &mut t))).is_err() { POISON.store(true, std::sync::atomic::Ordering::SeqCst); return; }
        out.extend(t);
    }
}
fn wb(link: u64) -> u64 { if link == 0 { 1 } else { 256 } }

// a fault prefix made of whole link frames
fn fault_prefix(r: &mut Rng, link: u64, out: &mut L) {
    let npk = r.range(0, 5);
    let dev = r.u16b() as u16;
    for _ in 0..npk {
        let n = match r.below(5) { 0 => r.below(9) as usize, 1 => r.range(9, 30) as usize, 2 => r.range(30, 120) as usize, _ => r.range(9, 60) as usize };
        let mut p = gen_packet(r, n);
        if r.chance(2, 3) { p.device_address = dev; }
        let mut frames: Vec<Frame> = frames_of(&p);
        // frame-level faults
        for _ in 0..r.below(3) {
            if frames.is_empty() { break; }
            let i = r.below(frames.len() as u64) as usize;
            match r.below(9) {
                0 => { frames.remove(i); }
                1 => { let c = copy_frame(&frames[i]); frames.insert(i, c); }
                2 => { if i + 1 < frames.len() { frames.swap(i, i + 1); } }
                3 => { frames.truncate(i.max(1)); }                                   // interrupted mid-packet
                4 => { frames[i].device_address ^= 1 << r.below(16); }
                5 => { frames[i].not_error_flag = !frames[i].not_error_flag; }
                6 => { frames[i].start_frame_flag = !frames[i].start_frame_flag; }
                7 => { let id = r.below(4096) as u16; frames[i].frame_id = if r.coin() { FrameId::LastFrameId(id) } else { FrameId::CurrentFrameId(id) }; }
                _ => { frames[i].multi_frame_flag = !frames[i].multi_frame_flag; }
            }
        }
        for f in frames.iter() {
            if r.chance(1, 10) { for _ in 0..r.range(1, 3) { out.push(wb(link)); } }
            if link == 0 {
                match r.below(12) {
                    0 => { out.extend_from_slice(&[0, 0, 0, r.below(2048), 0, 0]); }                                  // standard id, no data
                    1 => { let dlc = r.below(9); out.extend_from_slice(&[0, 1, 1, r.below(1 << 29), dlc, 0]); }       // remote
                    2 => { let n = r.below(9); out.extend_from_slice(&[0, 1, 0, r.below(1 << 29), n, n]); out.extend(r.bytes(n as usize).iter().map(|b| *b as u64)); }   // random frame
                    3 => { out.push(2); }                                                                              // overrun report
                    _ => frame_tokens(link, f, out),
                }
            } else {
                let mut t = vec![]; frame_tokens(link, f, &mut t);     // 0, len, body
                match r.below(14) {
                    0 => { let i = 2 + r.below(t.len() as u64 - 2) as usize; t[i] ^= 1 << r.below(8); }              // corrupt a body byte (may create a 0x00)
                    1 => { t.truncate(2); t[1] = 0; }                                                                  // length byte 0, no body
                    2 => { t.truncate(2); t[1] = 255; t.extend(r.bytes(255).iter().map(|b| *b as u64)); }              // length byte 255 and 255 arbitrary bytes
                    3 => { t[1] += 1; t.push(r.below(256)); }                                                          // one byte longer
                    4 => { if t.len() > 3 { t[1] -= 1; t.pop(); } }                                                    // one byte shorter
                    5 => { let i = 2 + r.below(t.len() as u64 - 2) as usize; t[i] = 0; }                              // zero inside the body
                    6 => { let n = r.below(20); t = vec![0, n]; t.extend(r.bytes(n as usize).iter().map(|b| *b as u64)); }   // arbitrary raw link frame
                    7 => { t = vec![0, 1, r.below(256)]; }
                    // an over-long link frame (length byte 15..80) whose arbitrary body ends in 00 L with L small: read as a whole it is one bad frame;
                    // rescanned byte by byte its tail looks like the start of a frame that would swallow what follows
                    8 => { let n = r.range(15, 80); t = vec![0, n]; for _ in 0..n - 2 { t.push(r.range(1, 255)); } t.push(0); t.push(r.range(9, 14)); }
                    _ => {}
                }
                if link == 2 && r.chance(1, 10) && t.len() > 1 { let i = 1 + r.below(t.len() as u64 - 1) as usize; t.insert(i, 258); }   // an interrupted read (EINTR) inside the frame
                out.extend(t);
                if r.chance(1, 8) { for _ in 0..r.range(1, 4) { out.push(r.range(1, 255)); } }                         // non-zero line noise
            }
        }
    }
}
// number of device tokens in a script (CAN frames are several numbers each)
fn count_tokens(link: u64, toks: &[u64]) -> u64 {
    if link != 0 { return toks.len() as u64; }
    let mut i = 0; let mut n = 0;
    while i < toks.len() { if toks[i] == 0 { i += 6 + toks[i + 5] as usize; } else { i += 1; } n += 1; }
    n
}
fn emit_rcv(cx: &mut Ctx, link: u64, meta: &[u64], toks: &[u64]) {
    if poisoned() { return; }
    let mut l = vec![link, meta.len() as u64]; l.extend_from_slice(meta); l.extend_from_slice(toks); cx.emit(&l);
}
pub fn gen_rcv(r: &mut Rng, thorough: bool, cx: &mut Ctx) {
    for link in 0..3u64 {
        for _ in 0..(if thorough { 30000 } else { 1500 }) {
            let mut toks = vec![];
            fault_prefix(r, link, &mut toks);
            // the interrupted packet before the probes may be from the same device / of the opposite type
            let n1 = match r.below(4) { 0 => r.below(9) as usize, 1 => r.range(9, 16) as usize, _ => r.range(9, 80) as usize };
            let n2 = match r.below(4) { 0 => r.below(9) as usize, 1 => r.range(9, 16) as usize, _ => r.range(9, 80) as usize };
            let p1 = gen_packet(r, n1); let mut p2 = gen_packet(r, n2);
            if r.coin() { p2.device_address = p1.device_address; }
            if r.chance(1, 3) {
                // leave a packet of p1's device pending (same or opposite error type)
                let qn = r.range(9, 60) as usize; let mut q = gen_packet(r, qn); q.device_address = p1.device_address; if r.coin() { q.is_error = p1.is_error; }
                let fs = frames_of(&q);
                if fs.len() >= 2 { let k = r.range(1, fs.len() as u64 - 1) as usize; for f in fs.iter().take(k) { frame_tokens(link, f, &mut toks); } }
            }
            let nprefix = toks.len();
            packet_tokens(link, &p1, &mut toks); packet_tokens(link, &p2, &mut toks);
            let mut meta = vec![count_tokens(link, &toks[nprefix..])]; show_packet(&p1, &mut meta); show_packet(&p2, &mut meta);
            // now and then the very last thing on the line is non-zero noise (a glitch after the final frame): the last poll must still return
            if link != 0 && r.chance(1, 5) { for _ in 0..r.range(1, 3) { toks.push(r.range(1, 255)); } }
            emit_rcv(cx, link, &meta, &toks);
        }
    }
    // long runs of consecutive undecodable / rejected whole frames (error counters kept across frames and polls), then the two probes
    for link in 0..3u64 {
        let runs: &[u64] = if thorough { &[8, 15, 16, 17, 31, 32, 33, 63, 64, 65, 100, 127, 128, 129, 200, 255, 256, 257, 300, 1000] } else { &[15, 16, 17, 32, 33, 64, 65, 100, 128, 129, 255, 256, 257, 300] };
        for &n in runs {
            for variant in 0..3u64 {
                let mut toks = vec![];
                for _ in 0..n {
                    if link == 0 {
                        match if variant == 2 { r.below(3) } else { variant } {
                            0 => { toks.extend_from_slice(&[0, 0, 0, r.below(2048), 0, 0]); }                                       // standard id
                            1 => { let dlc = r.below(9); toks.extend_from_slice(&[0, 1, 1, r.below(1 << 29), dlc, 0]); }            // remote
                            _ => { toks.extend_from_slice(&[0, 1, 0, (1 << 26) | r.below(1 << 16), 0, 0]); }                        // multi-frame flag without the id byte
                        }
                    } else {
                        match if variant == 2 { r.below(3) } else { variant } {
                            0 => { toks.extend_from_slice(&[0, 0]); }                                                               // length byte 0
                            1 => { let k = r.range(1, 4); toks.push(0); toks.push(k); for _ in 0..k { toks.push(1); } }             // valid COBS, body too short
                            _ => { let k = r.range(2, 12); toks.push(0); toks.push(k); toks.push(k + 5); for _ in 1..k { toks.push(r.range(1, 255)); } }   // COBS run longer than the frame
                        }
                    }
                }
                let p1 = gen_packet(r, 5); let p2 = gen_packet(r, 20);
                let np = toks.len();
                packet_tokens(link, &p1, &mut toks); packet_tokens(link, &p2, &mut toks);
                let mut meta = vec![count_tokens(link, &toks[np..])]; show_packet(&p1, &mut meta); show_packet(&p2, &mut meta);
                emit_rcv(cx, link, &meta, &toks);
            }
        }
    }
    // a large packet delivered, then a two-frame packet left half-received across a poll (memory must follow the packet in flight, not the previous one)
    for link in 0..3u64 {
        for &big in &[700usize, 1800, 4200] {
            let mut toks = vec![];
            let pb = gen_packet(r, big); packet_tokens(link, &pb, &mut toks);
            let small = gen_packet(r, 12); let fs = frames_of(&small);
            if fs.len() == 2 { frame_tokens(link, &fs[0], &mut toks); toks.push(wb(link)); toks.push(wb(link)); frame_tokens(link, &fs[1], &mut toks); }
            let p1 = gen_packet(r, 5); let p2 = gen_packet(r, 20);
            let np = toks.len();
            packet_tokens(link, &p1, &mut toks); packet_tokens(link, &p2, &mut toks);
            let mut meta = vec![count_tokens(link, &toks[np..])]; show_packet(&p1, &mut meta); show_packet(&p2, &mut meta);
            emit_rcv(cx, link, &meta, &toks);
        }
    }
    // device read faults in the middle of link frames (outside C06's 'whole link frames'; C19 must still hold): meta is empty
    for link in 1..3u64 {
        for _ in 0..(if thorough { 3000 } else { 150 }) {
            let mut toks = vec![];
            for _ in 0..r.range(2, 12) {
                let n = r.range(1, 255); let cut = r.below(n + 1);
                toks.push(0); toks.push(n);
                for _ in 0..cut { toks.push(r.range(1, 255)); }
                toks.push(if link == 2 { r.pick(&[257, 259, 260, 261]) } else { 257 });   // hard read error / io error of some kind
                if r.chance(1, 3) { let pn = r.below(30) as usize; let p = gen_packet(r, pn); packet_tokens(link, &p, &mut toks); }
            }
            let p = gen_packet(r, 20); packet_tokens(link, &p, &mut toks);
            emit_rcv(cx, link, &[], &toks);
        }
    }
    // the witnesses of the repaired defects F5 / F6 / F1 / F2, as scripts
    {
        let p1 = Packet { is_error: false, device_address: 7, data: vec![1, 2, 3] }; let p2 = Packet { is_error: true, device_address: 9, data: (0..20).collect() };
        for link in 1..3u64 {
            let long: Vec<u64> = { let mut v = vec![0u64, 0]; for _ in 0..6 { v.extend_from_slice(&[0, 120]); v.extend((0..120).map(|i| 1 + (i % 200) as u64)); } v };
            for pre in [long, vec![0u64, 0], vec![0, 0, 0, 0], vec![0, 3, 5, 1, 2], vec![0, 5, 4, 1, 0, 2, 1], vec![0, 26, 26, 224, 1, 1, 1, 20, 1, 1, 1, 1, 1, 1, 1, 1, 1, 1, 1, 1, 1, 1, 1, 1, 1, 1, 1, 1]].iter() {
                let mut toks = pre.clone(); let np = toks.len();
                packet_tokens(link, &p1, &mut toks); packet_tokens(link, &p2, &mut toks);
                let mut meta = vec![count_tokens(link, &toks[np..])]; show_packet(&p1, &mut meta); show_packet(&p2, &mut meta);
                emit_rcv(cx, link, &meta, &toks);
            }
        }
    }
    // complete multi-frame packets in which a frame other than the last is only partly filled (any data length is a well-formed frame: a
    // sender need not fill its frames), then the two probes: nothing is held once the packet has been handed over or an error reported
    for link in 0..3u64 {
        for _ in 0..(if thorough { 400 } else { 24 }) {
            let mut toks = vec![];
            let n = r.range(9, 45) as usize; let q = gen_packet(r, n);
            let mut fs = frames_of(&q);
            if fs.len() >= 2 {
                let i = r.below(fs.len() as u64 - 1) as usize; let dl = r.range(1, 7) as usize;
                for j in dl..8 { fs[i].data[j] = 0; }
                fs[i].data_len = dl as u8;
            }
            for f in fs.iter() { frame_tokens(link, f, &mut toks); }
            let p1 = gen_packet(r, 5); let p2 = gen_packet(r, 20);
            let np = toks.len();
            packet_tokens(link, &p1, &mut toks); packet_tokens(link, &p2, &mut toks);
            let mut meta = vec![count_tokens(link, &toks[np..])]; show_packet(&p1, &mut meta); show_packet(&p2, &mut meta);
            emit_rcv(cx, link, &meta, &toks);
        }
    }
    // foreign but whole link frames with VALID COBS: decoded bodies of 0..=20 bytes whose data-length byte is anything (agreeing with the body
    // size or not, 9..=255 included), then the two probes
    for link in 1..3u64 {
        for _ in 0..(if thorough { 1500 } else { 80 }) {
            let mut toks = vec![];
            for _ in 0..r.range(1, 4) {
                let n = match r.below(4) { 0 => r.below(5) as usize, 1 => r.range(13, 14) as usize, _ => r.range(5, 20) as usize };
                let mut body = r.bytes(n);
                if n > 4 { body[4] = match r.below(4) { 0 => (n - 5) as u8, 1 => r.range(9, 15) as u8, 2 => r.range(0, 8) as u8, _ => r.below(256) as u8 }; }
                let e = crate::s_frames::cobs_enc(&body);
                toks.push(0); toks.push(e.len() as u64); toks.extend(e.iter().map(|b| *b as u64));
            }
            let p1 = gen_packet(r, 5); let p2 = gen_packet(r, 20);
            let np = toks.len();
            packet_tokens(link, &p1, &mut toks); packet_tokens(link, &p2, &mut toks);
            let mut meta = vec![count_tokens(link, &toks[np..])]; show_packet(&p1, &mut meta); show_packet(&p2, &mut meta);
            emit_rcv(cx, link, &meta, &toks);
        }
    }
}

// ---------- LNK ----------
fn gap_at(gaps: &[u64], i: usize) -> usize { if gaps.is_empty() { 0 } else { gaps[i % gaps.len()] as usize } }
pub fn exec_lnk(case: &[u64]) -> L {
    let link = case[0]; let ng = case[1] as usize; let gaps = &case[2..2 + ng];
    let np = case[2 + ng] as usize; let mut rest = &case[3 + ng..];
    let mut pkts = vec![]; for _ in 0..np { let (p, r) = parse_packet(rest); pkts.push(p); rest = r; }
    let flags = if rest.len() == 1 { rest[0] } else { 0 }; let intr = flags & 2 != 0; let alt = flags & 4 != 0;
    // the wire image is what the real sender hands to an always-ready device
    let built = catch_unwind(AssertUnwindSafe(|| -> Option<L> {
        let mut toks: L = vec![];
        match link {
            0 => {
                let st = Rc::new(RefCell::new(CanSt { accept_all: true, ..Default::default() }));
                let mut tx = Can::new(ross_protocol::interface::can::verif_sim::Can::new(CanDev(st.clone())));
                for p in &pkts { if tx.try_send_packet(p).is_err() { return None; } }
                for (j, f) in st.borrow().tx.iter().enumerate() { for _ in 0..gap_at(gaps, j) { toks.push(if alt { 2 } else { 1 }); } toks.push(0); crate::s_frames::show_can_pub(f, &mut toks); }   // alt: the driver reports an overrun instead of 'no data yet'
            }
            1 => {
                let st = Rc::new(RefCell::new(UsartSt { accept_all: true, ..Default::default() }));
                let mut tx = Usart::new(UsartDev(st.clone()));
                for p in &pkts { if tx.try_send_packet(p).is_err() { return None; } }
                for (i, b) in st.borrow().tx.iter().enumerate() { for _ in 0..gap_at(gaps, i) { toks.push(256); } toks.push(*b as u64); }
            }
            _ => {
                let st = Arc::new(Mutex::new(SerSt { flush_ok: true, ..Default::default() }));
                let mut tx = Serial::new(Box::new(SerDev(st.clone())));
                for p in &pkts { if tx.try_send_packet(p).is_err() { return None; } }
                let tx_bytes = st.lock().unwrap().tx.clone();
                // 'no data yet' only between link frames: frame boundaries from the frames' own lengths
                let mut lens = vec![]; for p in &pkts { for f in p.to_frames().iter() { lens.push(f.to_usart_frame().len() + 2); } }
                if lens.iter().sum::<usize>() == tx_bytes.len() {
                    let mut pos = 0; let mut g = 0usize;
                    for (j, n) in lens.iter().enumerate() {
                        // 'no data yet' as TimedOut, or (alt) as the other ways a port can fail a read without data: Ok(0), WouldBlock, UnexpectedEof, BrokenPipe
                        for _ in 0..gap_at(gaps, j) { toks.push(if alt { [262u64, 259, 260, 261][g % 4] } else { 256 }); g += 1; }
                        for (i, b) in tx_bytes[pos..pos + n].iter().enumerate() {
                            if intr && (i == 1 || (i == 3 && *n >= 4)) { toks.push(258); }      // EINTR between delimiter and length byte, and inside the body
                            toks.push(*b as u64);
                        }
                        pos += n;
                    }
                } else { toks.extend(tx_bytes.iter().map(|b| *b as u64)); }
            }
        }
        Some(toks)
    }));
    let duplex = flags & 1 != 0;
    let echo = if flags & 16 != 0 { pkts.last().cloned() } else { None };
    // flag 32: real time passes (300 ms) at every scripted 'no data yet' answer - a marked case with one gap inside a multi-frame packet
    crate::mock::GAP_SLEEP_MS.store(if flags & 32 != 0 { 300 } else { 0 }, std::sync::atomic::Ordering::Relaxed);
    let res = match built { Ok(Some(toks)) => poll_tokens_opts(link, &toks, duplex || echo.is_some(), flags & 8 != 0, echo), _ => vec![3] };
    crate::mock::GAP_SLEEP_MS.store(0, std::sync::atomic::Ordering::Relaxed);
    res
}
pub fn gen_lnk(r: &mut Rng, thorough: bool, cx: &mut Ctx) {
    for link in 0..3u64 {
        for k in 0..(if thorough { 12000 } else { 700 }) {
            let long = k % 12 == 4;                        // very long idle periods (hundreds of polls) between bytes / frames of small packets
            let np = if long { r.range(1, 2) } else { r.range(1, 8) };
            // one long gap (260, 1200, thorough: 70000 'no data yet' answers in a row) or a moderate gap (70) before every byte / frame: retry budgets, idle counters
            let big = match (k / 12) % 4 { 0 => 260, 1 => 1200, 2 => 70, _ => if thorough && k / 12 == 3 { 5000 } else { 1200 } };     // one 5000-gap case per link in the thorough tier (the model's poll loop is quadratic in the gap: 70000 took 13 minutes and a deep recursion)
            let gaps: Vec<u64> = if long { if big == 70 { vec![70] } else if link == 1 { let mut g = vec![0u64; 23]; g[11] = big; g } else { vec![0, big, 0, 0, 0, 0] } } else { match k % 6 { 0 => vec![], 1 => vec![1], 2 => vec![0, 0, 2], 3 => (0..r.range(1, 7)).map(|_| r.below(3)).collect(), 4 => vec![0, 0, 0, 0, 0, 0, 0, 5], _ => (0..r.range(1, 12)).map(|_| if r.chance(1, 4) { r.range(1, 4) } else { 0 }).collect() } };
            let mut l = vec![link, gaps.len() as u64]; l.extend(&gaps); l.push(np);
            let mut prevp: Option<Packet> = None;
            for _ in 0..np {
                let n = if long { r.range(9, 30) as usize } else { match r.below(8) { 0 => r.below(9) as usize, 1 => 8, 2 => 9, 3 => r.range(14, 15) as usize, 4 => r.range(200, 400) as usize, _ => r.range(0, 64) as usize } };
                let mut p = gen_packet(r, n);
                // consecutive packets that are identical, or differ only in the error flag, or share the address
                if let Some(q) = prevp.clone() { match r.below(10) { 0 | 1 => { p = q; } 2 => { p = q; p.is_error = !p.is_error; } 3 => { p.device_address = q.device_address; } _ => {} } }
                show_packet(&p, &mut l); prevp = Some(p);
            }
            // flags: 1 = full duplex (the receiving node transmits before it polls); serial port: 2 = EINTR inside frames, 4 = other 'no data' read failures
            let fl = (if k % 5 == 3 { 1 } else { 0 }) | (if link == 2 && k % 7 == 2 { 2 } else { 0 }) | (if link != 1 && k % 7 == 5 { 4 } else { 0 }) | (if k % 9 == 4 { 16 } else { 0 });     // 16: the node has just sent a copy of the last packet it will receive
            if fl != 0 { l.push(fl); }
            cx.emit(&l);
        }
        // real time (flag 32): 300 ms pass between the first and the second frame (USART: inside the second frame) of a three-frame packet
        { let gaps: Vec<u64> = if link == 1 { let mut g = vec![0u64; 40]; g[17] = 1; g } else { vec![0, 1, 0, 0, 0, 0, 0, 0] };
          let mut l = vec![link, gaps.len() as u64]; l.extend(&gaps); l.push(2); for n in [18usize, 5] { let p = gen_packet(r, n); show_packet(&p, &mut l); } l.push(32); cx.emit(&l); }
        // a receiver object that has already received 70000 packets (flag 8; see poll_tokens_opts)
        { let mut l = vec![link, 1, 1, 3]; for n in [5usize, 20, 0] { let p = gen_packet(r, n); show_packet(&p, &mut l); } l.push(8); cx.emit(&l); }
        // long sequences of small packets (counters kept across packets)
        for &np in (if thorough { &[300u64, 5000][..] } else { &[300u64][..] }) {
            let mut l = vec![link, 0, np];
            for _ in 0..np { let n = r.below(13) as usize; let p = gen_packet(r, n); show_packet(&p, &mut l); }
            cx.emit(&l);
        }
        // large packets (4096 frames in the thorough tier)
        for &n in (if thorough { &[1792usize, 28672, 28666][..] } else if link == 0 { &[1792usize, 28672][..] } else { &[1792usize, 1799][..] }) {
            let mut l = vec![link, 3, 0, 1, 0, 2]; let p = gen_packet(r, n); show_packet(&p, &mut l); let q = gen_packet(r, 5); show_packet(&q, &mut l); cx.emit(&l);
        }
    }
}

// ---------- SND ----------
fn show_lists(ls: &[L], o: &mut L) { o.push(ls.len() as u64); for l in ls { o.push(l.len() as u64); o.extend(l); } }
pub fn exec_snd(case: &[u64]) -> L {
    let link = case[0];
    let (p, rest) = parse_packet(&case[1..]);
    let nenc = rest[0] as usize; let mut rest = &rest[1..];
    for _ in 0..nenc { let n = rest[0] as usize; rest = &rest[1 + n..]; }
    let flush_kind = rest[0]; let ans = &rest[1..];   // flush script in base 8, one digit per flush call: 1 = succeeds, anything else = fails with that kind of error
    let mut o = vec![];
    // The sender object is not fresh: it has already sent a related packet to an always-ready device (a sender keeps nothing from one
    // packet to the next, so this must not matter): none / the same packet / the same with the opposite error flag / same address, other payload.
    // Variants 4 and 5: that earlier send FAILED part-way (displaced CAN frame / serial write error and flush error / discarded USART write errors).
    let variant = (p.data.len() as u64 + p.device_address as u64) % 6;
    let prelude: Option<Packet> = match variant {
        0 => None, 1 | 4 => Some(p.clone()), 2 => { let mut q = p.clone(); q.is_error = !q.is_error; Some(q) }
        _ => { let mut q = p.clone(); q.data.reverse(); q.data.push(0x5a); q.data.extend_from_slice(&[7; 9]); Some(q) } };
    let failing = variant == 4 || variant == 5;
    // ... or (p.data.len() % 3 == 1) the receiving side of the same object has a half-received multi-frame packet pending when the send is made
    let pending_rx = p.data.len() % 3 == 1;
    let partial: Packet = Packet { is_error: p.is_error, device_address: p.device_address ^ 0x0101, data: vec![0x33; 20] };
    // ... or (marked case: address 0xbeef, 3 payload bytes) a long life: 17 packets of 4096 frames each, 69632 frames (a u16 counter wraps)
    let heavy = p.device_address == 0xbeef && p.data.len() == 3;
    let preludes: Vec<Packet> = if heavy { (0..17u8).map(|i| Packet { is_error: i % 2 == 0, device_address: 0x100 + i as u16, data: vec![i; 28672] }).collect() } else { prelude.into_iter().collect() };
    match link {
        0 => {
            let st = Rc::new(RefCell::new(CanSt { accept_all: true, ..Default::default() }));
            if failing { st.borrow_mut().ans = vec![1, 0, 2].into_iter().collect(); }       // would-block, sent, then a displaced-frame report
            let mut tx = Can::new(ross_protocol::interface::can::verif_sim::Can::new(CanDev(st.clone())));
            for q in preludes.iter() { let _ = catch_unwind(AssertUnwindSafe(|| tx.try_send_packet(q))); st.borrow_mut().tx.clear(); }
            if pending_rx { if let Some(f) = frames_of(&partial).first() { let mut t = vec![]; frame_tokens(0, f, &mut t); st.borrow_mut().rx = can_tokens(&t); let _ = catch_unwind(AssertUnwindSafe(|| tx.try_get_packet())); st.borrow_mut().rx.clear(); } }
            { let mut s = st.borrow_mut(); s.tx.clear(); s.spins = 0; s.accept_all = false; s.ans = ans.iter().map(|x| *x as u8).collect(); }
            let r = catch_unwind(AssertUnwindSafe(|| tx.try_send_packet(&p)));
            o.push(match r { Ok(Ok(())) => 0, Ok(Err(InterfaceError::CanError(CanError::MailboxFull))) => 1, Ok(Err(_)) => 9, Err(pl) => if pl.is::<Hang>() { 4 } else { 5 } });
            let sent: Vec<L> = st.borrow().tx.iter().map(|f| { let mut l = vec![]; crate::s_frames::show_can_pub(f, &mut l); l }).collect();
            show_lists(&sent, &mut o);
        }
        1 => {
            let st = Rc::new(RefCell::new(UsartSt { accept_all: true, ..Default::default() }));
            if failing { st.borrow_mut().ans = vec![0, 1, 2, 0, 2].into_iter().collect(); }       // two bytes are lost to hard write errors
            let mut tx = Usart::new(UsartDev(st.clone()));
            for q in preludes.iter() { let _ = catch_unwind(AssertUnwindSafe(|| tx.try_send_packet(q))); st.borrow_mut().tx.clear(); }
            if pending_rx { if let Some(f) = frames_of(&partial).first() { let mut t = vec![]; frame_tokens(1, f, &mut t); st.borrow_mut().rx = t.iter().map(|x| *x as u16).collect(); let _ = catch_unwind(AssertUnwindSafe(|| tx.try_get_packet())); st.borrow_mut().rx.clear(); } }
            { let mut s = st.borrow_mut(); s.tx.clear(); s.spins = 0; s.accept_all = false; s.ans = ans.iter().map(|x| *x as u8).collect(); }
            let r = catch_unwind(AssertUnwindSafe(|| tx.try_send_packet(&p)));
            o.push(match r { Ok(Ok(())) => 0, Ok(Err(_)) => 9, Err(pl) => if pl.is::<Hang>() { 4 } else { 5 } });
            let tx_bytes = st.borrow().tx.clone(); o.push(tx_bytes.len() as u64); o.extend(tx_bytes.iter().map(|b| *b as u64));
        }
        _ => {
            let st = Arc::new(Mutex::new(SerSt { flush_ok: true, ..Default::default() }));
            if failing { let mut s = st.lock().unwrap(); if p.data.len() % 2 == 0 { s.ans = vec![1, 1, 3, 0x1001].into_iter().collect(); } else { s.flush_ok = false; s.flush_kind = 0; } }   // a write error after a few bytes, or a failing flush
            let mut tx = Serial::new(Box::new(SerDev(st.clone())));
            for q in preludes.iter() { let _ = catch_unwind(AssertUnwindSafe(|| tx.try_send_packet(q))); st.lock().unwrap().tx.clear(); }
            if pending_rx { if let Some(f) = frames_of(&partial).first() { let mut t = vec![]; frame_tokens(2, f, &mut t); st.lock().unwrap().rx = t.iter().map(|x| *x as u16).collect(); let _ = catch_unwind(AssertUnwindSafe(|| tx.try_get_packet())); st.lock().unwrap().rx.clear(); } }
            { let mut s = st.lock().unwrap(); s.tx.clear(); s.spins = 0; s.flush_ok = false; s.flush_kind = flush_kind; s.ans = ans.iter().map(|x| *x as u32).collect(); }
            let r = catch_unwind(AssertUnwindSafe(|| tx.try_send_packet(&p)));
            o.push(match r {
                Ok(Ok(())) => 0,
                Ok(Err(InterfaceError::SerialError(SerialError::WriteError(e)))) => if e.to_string().contains("flush failed") { 3 } else { 2 },
                Ok(Err(_)) => 9, Err(pl) => if pl.is::<Hang>() { 4 } else { 5 } });
            let tx_bytes = st.lock().unwrap().tx.clone(); o.push(tx_bytes.len() as u64); o.extend(tx_bytes.iter().map(|b| *b as u64));
        }
    }
    o
}
fn emit_snd(cx: &mut Ctx, link: u64, p: &Packet, flush: u64, ans: &[u64]) {
    let mut l = vec![link]; show_packet(p, &mut l);
    let frames = frames_of(p);
    let _ = poisoned();      // fragmentation panicked: the case goes out with no frames, and the real sender then shows what it does with this packet
    l.push(frames.len() as u64);
    for f in frames.iter() {
        if link == 0 { let mut t = vec![]; crate::s_frames::show_can_pub(&f.to_bxcan_frame(), &mut t); l.push(t.len() as u64); l.extend(t); }
        else { let e = f.to_usart_frame(); l.push(e.len() as u64); l.extend(e.iter().map(|b| *b as u64)); }
    }
    l.push(flush); l.extend_from_slice(ans); cx.emit(&l);
}
pub fn gen_snd(r: &mut Rng, thorough: bool, cx: &mut Ctx) {
    for link in 0..3u64 {
        for k in 0..(if thorough { 20000 } else { 1200 }) {
            let n = match r.below(8) { 0 => r.below(9) as usize, 1 => 8, 2 => 9, 3 => 14, 4 => r.range(100, 300) as usize, _ => r.range(0, 50) as usize };
            let n = if link == 2 && k % 40 == 7 { r.range(440, 1000) as usize } else { n };      // a few packets of 63..143 frames on the serial port
            let p = gen_packet(r, n);
            let nframes = if n <= 8 { 1 } else { (n + 6) / 7 };
            let mut ans: Vec<u64> = vec![]; let mut flush = 1u64;
            match link {
                1 => {
                    let total = nframes * 10 + n + 8;     // upper bound on the number of byte writes
                    let maxwb = match k % 4 { 0 => 0, 1 => 1, 2 => 3, _ => 50 };
                    let cut = if k % 7 == 6 { r.below(total as u64) as usize } else { total + 4 };
                    for i in 0..total { if i >= cut { break; } for _ in 0..r.below(maxwb + 1) { ans.push(1); } ans.push(0); }
                }
                0 => {
                    let displaced_at = if k % 3 == 2 { r.below(nframes as u64 + 1) as usize } else { nframes + 1 };
                    let cut = if k % 11 == 10 { r.below(nframes as u64 + 1) as usize } else { nframes + 1 };
                    for i in 0..nframes { if i >= cut { break; } for _ in 0..r.below(if k % 2 == 0 { 1 } else { 6 }) { ans.push(1); } ans.push(if i == displaced_at { 2 } else { 0 }); }
                }
                _ => {
                    let writes = nframes * 3;
                    let mode = k % 6;
                    let err_at = if mode == 4 { r.below(writes as u64 * 2) as usize } else { usize::MAX };
                    let zero_at = if mode == 5 && r.coin() { r.below(writes as u64 * 2) as usize } else { usize::MAX };
                    if mode == 3 || (mode == 5 && r.coin()) { flush = r.pick(&[0, 2, 3, 4, 5, 6]); if r.coin() { flush += 8; } }    // the one flush fails (a second one, if the sender made it, would succeed)
                    else if k % 40 == 7 { flush = if r.coin() { 1 } else { 8 * 1 + r.pick(&[0, 2, 5]) }; }   // long packets: script (ok, fail..) or (fail, ok)
                    for i in 0..(writes * 14) {
                        if i == err_at { ans.push(0x1001 + r.below(4)); continue; }
                        if i == zero_at { ans.push(0); continue; }
                        match mode { 0 => break, 1 => ans.push(1), 2 => { if r.chance(1, 5) { ans.push(0x1000); } ans.push(r.range(1, 4)); } _ => { ans.push(r.range(1, 20)); } }
                    }
                }
            }
            emit_snd(cx, link, &p, flush, &ans);
        }
        if thorough { for &n in &[28672usize, 28666, 1792] { let p = gen_packet(r, n); emit_snd(cx, link, &p, 1, &[]); } }
        // the marked case: the sender object has already sent 69632 frames (see exec_snd)
        { let p = Packet { is_error: false, device_address: 0xbeef, data: vec![1, 2, 3] }; let ans: Vec<u64> = if link == 2 { vec![] } else { vec![0; 40] }; emit_snd(cx, link, &p, 1, &ans); }
    }
}
