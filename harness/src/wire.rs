// Line grammar shared with the model runner: space-separated lowercase hex numbers.
use ross_protocol::packet::Packet;
use ross_protocol::frame::{Frame, FrameId};
use std::io::Write;

pub type L = Vec<u64>;

pub fn parse_line(s: &str) -> L {
    s.split_whitespace().map(|t| u64::from_str_radix(t, 16).expect("bad hex token")).collect()
}
pub fn write_line<W: Write + ?Sized>(w: &mut W, l: &[u64]) {
    let mut s = String::with_capacity(l.len() * 3 + 1);
    for (i, x) in l.iter().enumerate() {
        if i > 0 { s.push(' '); }
        s.push_str(&format!("{:x}", x));
    }
    s.push('\n');
    w.write_all(s.as_bytes()).unwrap();
}
pub fn show_packet(p: &Packet, out: &mut L) {
    out.push(p.is_error as u64); out.push(p.device_address as u64); out.push(p.data.len() as u64);
    out.extend(p.data.iter().map(|b| *b as u64));
}
pub fn parse_packet(l: &[u64]) -> (Packet, &[u64]) {
    let n = l[2] as usize;
    (Packet { is_error: l[0] != 0, device_address: l[1] as u16, data: l[3..3 + n].iter().map(|x| *x as u8).collect() }, &l[3 + n..])
}
pub fn show_frame(f: &Frame, out: &mut L) {
    let (last, id) = match f.frame_id { FrameId::LastFrameId(i) => (1, i), FrameId::CurrentFrameId(i) => (0, i) };
    out.extend_from_slice(&[f.not_error_flag as u64, f.start_frame_flag as u64, f.multi_frame_flag as u64, last, id as u64,
        f.device_address as u64, f.data_len as u64]);
    out.extend(f.data.iter().map(|b| *b as u64));
}
pub fn parse_frame(l: &[u64]) -> (Frame, &[u64]) {
    let mut data = [0u8; 8];
    for i in 0..8 { data[i] = l[7 + i] as u8; }
    let id = l[4] as u16;
    (Frame { not_error_flag: l[0] != 0, start_frame_flag: l[1] != 0, multi_frame_flag: l[2] != 0,
             frame_id: if l[3] != 0 { FrameId::LastFrameId(id) } else { FrameId::CurrentFrameId(id) },
             device_address: l[5] as u16, data_len: l[6] as u8, data }, &l[15..])
}
