// Stream E2E (C01): the full stack, real on both ends.
use crate::ev::*;
use crate::mock::*;
use crate::rng::Rng;
use crate::wire::*;
use crate::Ctx;
use ross_protocol::interface::can::Can;
use ross_protocol::interface::serial::Serial;
use ross_protocol::interface::usart::Usart;
use ross_protocol::interface::Interface;
use ross_protocol::packet::Packet;
use ross_protocol::protocol::Protocol;
use std::cell::RefCell;
use std::panic::{catch_unwind, AssertUnwindSafe};
use std::rc::Rc;
use std::sync::{Arc, Mutex};

fn ret_class<T, E>(r: &std::thread::Result<Result<T, E>>) -> u64 { match r { Ok(Ok(_)) => 0, Ok(Err(_)) => 1, Err(_) => 2 } }

fn node_a<I: Interface>(own: u16, link: I, events: &[&[u64]]) -> Vec<u64> {
    let mut proto: Protocol<'static, I> = Protocol::new(own, link);
    events.iter().map(|e| { let p = ev_of(e).to_packet(); ret_class(&catch_unwind(AssertUnwindSafe(|| proto.send_packet(&p)))) }).collect()
}
type Log = Rc<RefCell<Vec<(u64, Packet)>>>;
fn node_b<I: Interface + 'static>(own: u16, link: I, handlers: &[&[u64]], remaining: &dyn Fn() -> usize, reset: &dyn Fn(), budget: usize) -> (Vec<u64>, Vec<u64>, Vec<(u64, u64, Packet)>) {
    let mut proto: Protocol<'static, I> = Protocol::new(own, link);
    let log: Log = Rc::new(RefCell::new(vec![]));
    let mut ids = vec![]; let mut idmap = std::collections::HashMap::new();
    for h in handlers {
        let label = h[0]; let lg = log.clone();
        // mode 1: transmit a fixed packet to another device on every invocation; mode 2: forward the packet (unless addressed to this node)
        let mode = if h.len() > 3 { h[3] } else { 0 };
        let hb: Box<dyn FnMut(&Packet, &mut Protocol<'static, I>)> = Box::new(move |p: &Packet, proto: &mut Protocol<'static, I>| {
            lg.borrow_mut().push((label, p.clone()));
            if mode == 1 { let q = Packet { is_error: false, device_address: own ^ 1, data: vec![0xab, label as u8] }; if q.device_address != own { let _ = proto.send_packet(&q); } }
            if mode == 2 && p.device_address != own { let _ = proto.send_packet(p); }
        });
        let id = proto.add_packet_handler(hb, h[1] != 0).map(|x| x as u64).unwrap_or(0xffff_ffff);
        ids.push(id); idmap.insert(label, id);
    }
    // handlers flagged as removed are unregistered again before any traffic arrives
    for (h, id) in handlers.iter().zip(ids.iter()) { if h.len() > 2 && h[2] != 0 { let _ = proto.remove_packet_handler(*id as u32); } }
    let mut rets = vec![];
    for _ in 0..(budget + 8) {
        let was_empty = remaining() == 0;
        reset();
        let r = catch_unwind(AssertUnwindSafe(|| proto.tick()));
        let bad = r.is_err();
        rets.push(ret_class(&r));
        if was_empty || bad { break; }
    }
    let entries = log.borrow().iter().map(|(label, p)| (*idmap.get(label).unwrap_or(&0xffff_ffff), *label, p.clone())).collect();
    (ids, rets, entries)
}
// the event a logged packet carries: decoded by the decoder of the kind its event code names (C01 asks that the packet
// decodes to the value sent; whether ANOTHER kind's decoder would also accept it is C12's question)
fn classify(p: &Packet) -> L {
    if p.data.len() < 2 || p.data[0] != 0 || p.data[1] > 15 { return vec![255]; }
    let k = p.data[1] as u64;
    match crate::guarded(|| decode(k, p)) { Some(Ok(e)) => e.fields().unwrap_or(vec![255]), _ => vec![255] }
}
fn gap_at(gaps: &[u64], i: usize) -> usize { if gaps.is_empty() { 0 } else { gaps[i % gaps.len()] as usize } }

pub fn exec_e2e(case: &[u64]) -> L {
    let link = case[0]; let own_a = case[1] as u16; let own_b = case[2] as u16; let ng = case[3] as usize; let gaps = &case[4..4 + ng];
    let mut rest = &case[4 + ng..];
    let nh = rest[0] as usize; rest = &rest[1..]; let mut hs = vec![]; for _ in 0..nh { let k = rest[0] as usize; hs.push(&rest[1..1 + k]); rest = &rest[1 + k..]; }
    let ne = rest[0] as usize; rest = &rest[1..]; let mut es = vec![]; for _ in 0..ne { let k = rest[0] as usize; es.push(&rest[1..1 + k]); rest = &rest[1 + k..]; }
    let (rets_a, ids, rets_b, entries) = match link {
        0 => {
            let st = Rc::new(RefCell::new(CanSt { accept_all: true, ..Default::default() }));
            let ra = node_a(own_a, Can::new(ross_protocol::interface::can::verif_sim::Can::new(CanDev(st.clone()))), &es);
            let mut rx = std::collections::VecDeque::new();
            for (j, f) in st.borrow().tx.iter().enumerate() { for _ in 0..gap_at(gaps, j) { rx.push_back(CanTok::WouldBlock); } rx.push_back(CanTok::Frame(f.clone())); }
            let n = rx.len();
            let sb = Rc::new(RefCell::new(CanSt { rx, accept_all: true, ans: (0..600).map(|i| if i % 3 == 2 { 0 } else { 1 }).collect(), ..Default::default() }));
            let (ids, rb, en) = node_b(own_b, Can::new(ross_protocol::interface::can::verif_sim::Can::new(CanDev(sb.clone()))), &hs, &|| sb.borrow().rx.len(), &|| sb.borrow_mut().spins = 0, n + 2);
            (ra, ids, rb, en)
        }
        1 => {
            let st = Rc::new(RefCell::new(UsartSt { accept_all: true, ..Default::default() }));
            let ra = node_a(own_a, Usart::new(UsartDev(st.clone())), &es);
            let mut rx = std::collections::VecDeque::new();
            for (i, b) in st.borrow().tx.iter().enumerate() { for _ in 0..gap_at(gaps, i) { rx.push_back(256u16); } rx.push_back(*b as u16); }
            let n = rx.len();
            let sb = Rc::new(RefCell::new(UsartSt { rx, accept_all: true, ans: (0..4000).map(|i| (i % 2 == 0) as u8).collect(), ..Default::default() }));
            let (ids, rb, en) = node_b(own_b, Usart::new(UsartDev(sb.clone())), &hs, &|| sb.borrow().rx.len(), &|| sb.borrow_mut().spins = 0, n + 2);
            (ra, ids, rb, en)
        }
        _ => {
            let st = Arc::new(Mutex::new(SerSt { flush_ok: true, ..Default::default() }));
            let ra = node_a(own_a, Serial::new(Box::new(SerDev(st.clone()))), &es);
            let tx = st.lock().unwrap().tx.clone();
            // frame boundaries: 0, len, len bytes
            let mut rx = std::collections::VecDeque::new(); let mut pos = 0; let mut j = 0;
            while pos < tx.len() {
                let flen = if pos + 1 < tx.len() && tx[pos] == 0 { 2 + tx[pos + 1] as usize } else { tx.len() - pos };
                let end = (pos + flen).min(tx.len());
                for _ in 0..gap_at(gaps, j) { rx.push_back(256u16); }
                for b in &tx[pos..end] { rx.push_back(*b as u16); }
                pos = end; j += 1;
            }
            let n = rx.len();
            let sb = Arc::new(Mutex::new(SerSt { rx, flush_ok: true, ..Default::default() }));
            let (ids, rb, en) = node_b(own_b, Serial::new(Box::new(SerDev(sb.clone()))), &hs, &|| sb.lock().unwrap().rx.len(), &|| sb.lock().unwrap().spins = 0, n + 2);
            (ra, ids, rb, en)
        }
    };
    let mut o = vec![ids.len() as u64]; o.extend(&ids);
    o.push(rets_a.len() as u64); o.extend(&rets_a);
    o.push(rets_b.len() as u64); o.extend(&rets_b);
    o.push(entries.len() as u64);
    for (id, label, p) in entries.iter() { let mut v = vec![*id, *label]; show_packet(p, &mut v); v.extend(classify(p)); o.push(v.len() as u64); o.extend(v); }
    o
}
pub fn gen_e2e(r: &mut Rng, thorough: bool, cx: &mut Ctx) {
    for link in 0..3u64 {
        for k in 0..(if thorough { 10000 } else { 500 }) {
            let own_a: u16 = match r.below(5) { 0 => 0xffff, 1 => 1, _ => r.u16b() as u16 };
            let own_b: u16 = match r.below(6) { 0 => 0xffff, 1 => 2, 2 => own_a, _ => r.u16b() as u16 };
            let gaps: Vec<u64> = if k % 25 == 9 { vec![0, 150] } else { match k % 5 { 0 => vec![], 1 => vec![1], 2 => vec![0, 0, 2], 3 => (0..r.range(1, 7)).map(|_| r.below(3)).collect(), _ => vec![0, 0, 0, 0, 3] } };     // now and then a long silence between two frames / bytes
            let mut l = vec![link, own_a as u64, own_b as u64, gaps.len() as u64]; l.extend(&gaps);
            let nh = r.below(5); l.push(nh);
            for i in 0..nh { l.push(4); l.push(700 + i); l.push(r.chance(1, 3) as u64); l.push(r.chance(1, 4) as u64); l.push(match r.below(4) { 0 => 1, 1 => 2, _ => 0 }); }
            let ne = if k == 0 { 300 } else { r.range(1, 8) }; l.push(ne);      // one long history per link
            let mut prev: Option<L> = None;
            for _ in 0..ne {
                // the same event twice in a row, now and then
                if let Some(pe) = prev.clone() { if r.chance(1, 4) { l.push(pe.len() as u64); l.extend(pe); continue; } }
                let kind = r.below(16);
                let md = if k == 0 { 8 } else if r.chance(1, 40) { 2400 } else if r.chance(1, 6) { 300 } else { 24 }; let mut e = gen_event(r, kind, md);
                // steer the receiver address: B's own address, broadcast, A's own address, or elsewhere
                if kind != 1 && kind != 5 { e[1] = match r.below(6) { 0 | 1 | 2 => own_b as u64, 3 => 0xffff, 4 => own_a as u64, _ => r.u16b() }; }
                l.push(e.len() as u64); l.extend(e.clone()); prev = Some(e);
            }
            cx.emit(&l);
        }
    }
}
