// Streams over the event codecs.
use crate::ev::*;
use crate::rng::Rng;
use crate::wire::*;
use crate::Ctx;

// ---- EV: event value -> packet produced by to_packet, then try_from_packet of the same kind ----
pub fn gen_ev(r: &mut Rng, thorough: bool, cx: &mut Ctx) {
    let per_kind = if thorough { 20000 } else { 1500 };
    let max_data = if thorough { 4000 } else { 300 };
    for kind in 0..16u64 {
        let n = if kind == 5 { 2 } else { per_kind };
        for _ in 0..n { let e = gen_event(r, kind, max_data); cx.emit(&e); }
    }
    // data events at the size limits
    let big: &[usize] = if thorough { &[65535, 65534, 65535, 32768, 28672, 28666] } else { &[65535, 28666] };
    for n in big { let mut v = vec![4, r.u16b(), r.u16b(), *n as u64]; v.extend(r.bytes(*n).iter().map(|b| *b as u64)); cx.emit(&v); }
}
pub fn exec_ev(case: &[u64]) -> L {
    let e = ev_of(case);
    let p = e.to_packet();
    let mut o = vec![];
    show_packet(&p, &mut o);
    let d = decode(case[0], &p);
    show_decode(&d, &mut o);
    o
}
