// Streams over the event codecs.
use crate::ev::*;
use crate::rng::Rng;
use crate::wire::*;
use crate::Ctx;

// ---- EV: event value -> packet produced by to_packet, then try_from_packet of the same kind ----
pub fn gen_ev(r: &mut Rng, thorough: bool, cx: &mut Ctx) {
    let per_kind = if thorough { 20000 } else { 1500 };
    let max_data = if thorough { 4000 } else { 300 };
    for kind in 0..16u64 {
        let n = if kind == 5 { 2 } else { per_kind };
        for _ in 0..n { let e = gen_event(r, kind, max_data); cx.emit(&e); }
    }
    // coincidences between independent fields: every scalar field of an event carrying the same value, or the event's own code, or the packet length
    {
        let widths: [&[u8]; 16] = [&[16, 16], &[16], &[16, 16, 32], &[16, 16], &[16, 16], &[], &[16, 16, 8], &[16, 16, 8], &[16, 16, 8], &[16], &[16, 16, 32], &[16, 16, 16], &[16, 16, 16], &[16, 16, 8, 32], &[16, 16, 8], &[16, 16]];
        for kind in 0..16u64 {
            for j in 0..(if thorough { 4000 } else { 300 }) {
                let mut e = gen_event(r, kind, 12);
                let v: u64 = match j % 4 { 0 => r.u16b(), 1 => kind, 2 => e.len() as u64 + 3, _ => r.below(65536) };
                for (i, w) in widths[kind as usize].iter().enumerate() {
                    if kind == 4 && i == 2 { continue; }
                    e[1 + i] = match *w { 8 => v & 0xff, 16 => v & 0xffff, _ => ((v & 0xffff) << 16) | (v & 0xffff) };
                }
                cx.emit(&e);
            }
        }
    }
    // systematic sweeps of the scalar fields: every u8 value, and u16 values on a lattice (thorough: every u16 value)
    let widths: [&[u8]; 16] = [&[16, 16], &[16], &[16, 16, 32], &[16, 16], &[16, 16], &[], &[16, 16, 8], &[16, 16, 8], &[16, 16, 8], &[16], &[16, 16, 32], &[16, 16, 16], &[16, 16, 16], &[16, 16, 8, 32], &[16, 16, 8], &[16, 16]];
    for kind in 0..16u64 {
        for (i, w) in widths[kind as usize].iter().enumerate() {
            let vals: Vec<u64> = match *w {
                8 => (0..256).collect(),
                16 => if thorough { (0..65536).collect() } else { (0..256).chain((0..256).map(|x| x << 8)).chain((0..256).map(|x| x * 257)).chain(65280..65536).collect() },
                _ => (0..32).map(|b| 1u64 << b).chain((0..32).map(|b| (1u64 << b) - 1)).chain((0..4).flat_map(|sh| (0..256u64).map(move |x| x << (8 * sh)))).collect(),
            };
            for v in vals { let mut e = gen_event(r, kind, 8); if kind == 4 && i == 2 { continue; } e[1 + i] = v; cx.emit(&e); }
        }
    }
    // data events whose declared length differs from the payload they hold (the encoder writes the declared length, then ALL payload bytes)
    for n in [0usize, 1, 2, 5, 8, 20, 300].iter() {
        for d in [0u64, 1, (*n as u64).wrapping_sub(1) & 0xffff, *n as u64 + 1, *n as u64 + 7, (*n as u64) / 2, 255, 256, 65535].iter() {
            if *d == *n as u64 { continue; }
            let mut v = vec![4, r.u16b(), r.u16b(), *d]; v.extend(r.bytes(*n).iter().map(|b| *b as u64)); cx.emit(&v);
        }
    }
    // data events whose payload begins with (a prefix of) their own packet header: code, transmitter, declared length
    for n in [6usize, 7, 10, 64, 300].iter() {
        for cut in [6usize, 4, 2].iter() {
            let t = r.u16b(); let mut pay: Vec<u64> = vec![0, 4, t >> 8, t & 0xff, (*n as u64) >> 8, (*n as u64) & 0xff]; pay.truncate(*cut);
            while pay.len() < *n { pay.push(r.below(256)); }
            let mut v = vec![4, r.u16b(), t, *n as u64]; v.extend(pay); cx.emit(&v);
        }
    }
    // data events at the size limits
    let big: &[usize] = if thorough { &[65535, 65534, 65535, 32768, 28672, 28666] } else { &[65535, 28666] };
    for n in big { let mut v = vec![4, r.u16b(), r.u16b(), *n as u64]; v.extend(r.bytes(*n).iter().map(|b| *b as u64)); cx.emit(&v); }
}
// A codec is a pure function: nothing an earlier decode (encode) did may show in a later encode (decode).  Before its first case the EV
// stream therefore lets the process 'hear traffic' - every decoder reads reference encodings of events of its kind and their perturbations
// (each byte after the event code set to 0xff, 0x02, 0x80 in turn), results discarded - and the DEC stream first encodes events of every kind.
fn heard_traffic() {
    static ONCE: std::sync::Once = std::sync::Once::new();
    ONCE.call_once(|| {
        let mut r = Rng::new(0x0072_6166_6669_6301);
        for kind in 0..16u64 { for _ in 0..12 {
            let p = ref_encode(&gen_event(&mut r, kind, 12));
            let _ = crate::guarded(|| { let _ = decode(kind, &p); });
            for i in 2..p.data.len().min(24) { for x in [0xffu8, 0x02, 0x80] {
                let mut q = p.clone(); q.data[i] = x;
                let _ = crate::guarded(move || { let _ = decode(kind, &q); });
            } }
        } }
    });
}
fn sent_traffic() {
    static ONCE: std::sync::Once = std::sync::Once::new();
    ONCE.call_once(|| {
        let mut r = Rng::new(0x0072_6166_6669_6302);
        for kind in 0..16u64 { for _ in 0..12 {
            let l = gen_event(&mut r, kind, 12);
            let _ = crate::guarded(move || { let _ = ev_of(&l).to_packet(); });
        } }
    });
}
pub fn exec_ev(case: &[u64]) -> L {
    heard_traffic();
    let e = ev_of(case);
    let p = e.to_packet();
    let mut o = vec![];
    show_packet(&p, &mut o);
    // the decoder is guarded separately: a panic there leaves the encoder's packet observable (C11) and shows as PANIC for C03
    match crate::guarded(|| { let mut t = vec![]; let d = decode(case[0], &p); show_decode(&d, &mut t); t }) {
        Some(t) => o.extend(t),
        None => o.push(crate::PANIC),
    }
    o
}

// ---- DEC: kind + packet -> try_from_packet, and for accepted values the decode of their re-encoding ----
use crate::layout::ref_encode;
use ross_protocol::packet::Packet;

fn emit_dec(cx: &mut Ctx, kind: u64, p: &Packet) {
    let mut l = vec![kind];
    show_packet(p, &mut l);
    cx.emit(&l);
}
fn rand_packet(r: &mut Rng, kind: u64, len: usize) -> Packet {
    let mut data = r.bytes(len);
    if r.chance(3, 4) && len >= 2 { data[0] = 0; data[1] = kind as u8; }     // get past the code check most of the time
    if r.chance(1, 3) { for b in data.iter_mut().skip(2) { if r.coin() { *b = r.below(7) as u8; } } }   // tag-like bytes
    Packet { is_error: r.chance(1, 8), device_address: r.u16b() as u16, data }
}
pub fn gen_packets(r: &mut Rng, thorough: bool, f: &mut dyn FnMut(u64, &Packet)) {
    let reps = if thorough { 40 } else { 3 };
    // 1. every decoder x every payload length 0..=70
    for kind in 0..16u64 { for len in 0..=70usize { for _ in 0..reps { let p = rand_packet(r, kind, len); f(kind, &p); } } }
    // 2. valid encodings and their typed perturbations
    let per_kind = if thorough { 400 } else { 25 };
    for kind in 0..16u64 {
        for n in 0..per_kind {
            let e = gen_event(r, kind, if thorough { 600 } else { 80 });
            let p = ref_encode(&e);
            f(kind, &p);
            { let mut q = p.clone(); q.is_error = true; f(kind, &q); }
            for c in (0..=0x12u16).chain([0xffffu16, 0x0100 | kind as u16, (kind as u16) << 8].iter().cloned()) {
                let mut q = p.clone(); q.data[0] = (c >> 8) as u8; q.data[1] = c as u8; f(kind, &q);
            }
            { let mut q = p.clone(); q.data.push(r.u8b() as u8); f(kind, &q); }
            { let mut q = p.clone(); q.data.pop(); f(kind, &q); }
            { let mut q = p.clone(); let k = r.below(q.data.len() as u64 + 1) as usize; q.data.truncate(k); f(kind, &q); }
            { let k2 = r.below(16); f(k2, &p); }
            { let mut q = p.clone(); if q.data.len() > 2 { let i = 2 + r.below(q.data.len() as u64 - 2) as usize; q.data[i] ^= 1 << r.below(8); } f(kind, &q); }
            // variant tags and flag bytes: the whole byte range, once per few events
            let sweep = n % 8 == 0;
            let tagpos = match kind { 6 => Some(5usize), 13 => Some(9), 14 => Some(5), _ => None };
            if let Some(tp) = tagpos {
                if sweep { for t in 0..=255u8 { let mut q = p.clone(); q.data[tp] = t; f(kind, &q); } }
                else { let mut q = p.clone(); q.data[tp] = r.below(9) as u8; f(kind, &q); }
                if kind != 14 && p.data[tp] == 0 && sweep { for t in 0..=255u8 { let mut q = p.clone(); q.data[tp + 1] = t; f(kind, &q); } }
            }
            if kind == 12 {
                let tags: [u32; 24] = [0, 1, 2, 3, 4, 5, 255, 256, 257, 0x0100_0003, 0xffff_ff03, 0x0001_0000, 0xffff_ffff, r.next() as u32,
                                       0x0100_0000, 0x0200_0000, 0x0300_0000, 0x0001_0000, 0x0002_0000, 0x0003_0000, 0x0000_0100, 0x0000_0200, 0x0000_0300, 0x8000_0001];   // byte-swapped and shifted images of the valid tags
                for t in tags.iter() { let mut q = p.clone(); q.data[6..10].copy_from_slice(&t.to_le_bytes()); f(kind, &q); }
                if sweep { for b in 0..=255u8 { let mut q = p.clone(); q.data[6..10].copy_from_slice(&3u32.to_le_bytes()); q.data[10] = b; f(kind, &q); } }
                { let mut q = p.clone(); let i = 11 + r.below(3) as usize; q.data[i] = r.range(1, 255) as u8; f(kind, &q); }   // non-zero padding
            }
            if kind == 4 {
                for dl in [0u16, 1, 0xffff, 0xfffa, 0xfffb, (p.data.len() as u16).wrapping_sub(5), (p.data.len() as u16).wrapping_sub(7)].iter() {
                    let mut q = p.clone(); q.data[4] = (dl >> 8) as u8; q.data[5] = *dl as u8; f(kind, &q);
                }
            }
        }
    }
    // data events whose declared length is near the u16 limit, with short and with full bodies
    for dl in [0xfffau32, 0xfffb, 0xfffc, 0xfffd, 0xfffe, 0xffff].iter() {
        let mut d = vec![0u8, 4, 0, 1, (dl >> 8) as u8, *dl as u8];
        f(4, &Packet { is_error: false, device_address: 1, data: d.clone() });
        if thorough { for extra in [-1i64, 0, 1].iter() { let n = (*dl as i64 + extra) as usize; d.truncate(6); d.extend(r.bytes(n)); f(4, &Packet { is_error: false, device_address: 2, data: d.clone() }); } }
    }
    if !thorough { let mut d = vec![0u8, 4, 0, 1, 0xff, 0xff]; d.extend(r.bytes(65535)); f(4, &Packet { is_error: false, device_address: 2, data: d.clone() }); d.push(0); f(4, &Packet { is_error: false, device_address: 2, data: d }); }
    // 2b. sizes that collide with a valid size modulo 256 (a length kept in a u8, or packed next to the code in a u16):
    //     every decoder k x every code c x the size of k's own valid encoding + 256*m; plus k's valid encoding with 256*m (and once 65536) extra bytes
    for kind in 0..16u64 {
        let base = ref_encode(&gen_event(r, kind, 0));
        let lk = base.data.len();
        for c in 0..16u64 {
            let mut ms = vec![1usize, 2, 3]; if kind > c + 3 { ms.push((kind - c) as usize); }
            for m in ms { let mut q = rand_packet(r, c, lk + 256 * m); q.data[0] = 0; q.data[1] = c as u8; f(kind, &q); }
        }
        for extra in [256usize, 512, 768, 1024].iter() { let mut q = base.clone(); q.data.extend(r.bytes(*extra)); f(kind, &q); }
        { let mut q = base.clone(); q.data.extend(r.bytes(65536)); f(kind, &q); }       // a length kept in 16 bits
    }
    // 2c. every code x every packet size 0..=600 (random content behind the code), each offered to the decoder of that code
    for c in 0..16u64 { for len in 71..=600usize { let mut q = rand_packet(r, c, len); q.data[0] = 0; q.data[1] = c as u8; f(c, &q); } }
    // 2d. data events of every payload size 0..=600, valid encodings
    for n in 0..=600usize { let e = gen_event(r, 4, 0); let mut p = ref_encode(&e); p.data.truncate(4); p.data.push((n >> 8) as u8); p.data.push(n as u8); p.data.extend(r.bytes(n)); f(4, &p); }
    // 3. entirely random packets against random decoders
    for _ in 0..(if thorough { 200000 } else { 8000 }) {
        let len = if r.chance(1, 20) { r.below(300) as usize } else { r.below(20) as usize };
        let kind = r.below(16);
        let mut p = rand_packet(r, kind, len);
        if r.coin() && len >= 2 { p.data[0] = 0; p.data[1] = r.below(20) as u8; }
        f(r.below(16), &p);
    }
}
pub fn gen_dec(r: &mut Rng, thorough: bool, cx: &mut Ctx) {
    // the marked veteran-decoders case (see exec_dec)
    emit_dec(cx, 12, &Packet { is_error: false, device_address: 0xbeef, data: vec![0, 12, 0, 7, 0xbe, 0xef, 2, 0, 0, 0, 1, 2, 3, 4] });
    gen_packets(r, thorough, &mut |k, p| emit_dec(cx, k, p));
}
pub fn exec_dec(case: &[u64]) -> L {
    sent_traffic();
    let (p, _) = parse_packet(&case[1..]);
    // marked case (a message event from 0xbeef with code 0xbeef): the decoders have a long life behind them in this process - 70000 rejections of each
    // reason and 70000 acceptances before this decode (a pure function keeps nothing from them)
    if case[0] == 12 && p.device_address == 0xbeef && p.data.len() == 14 && p.data[4] == 0xbe && p.data[5] == 0xef {
        let mk = |d: Vec<u8>, err: bool| Packet { is_error: err, device_address: 3, data: d };
        for i in 0..70000u32 {
            let b = (i % 200) as u8 + 9;
            let _ = crate::guarded(move || { let _ = decode(6, &mk(vec![0, 6, 0, 1, 2, b, 1], false)); });                       // unknown brightness tag
            let _ = crate::guarded(move || { let _ = decode(14, &mk(vec![0, 14, 0, 1, 2, b], false)); });                        // unknown relay value
            let _ = crate::guarded(move || { let _ = decode(12, &mk(vec![0, 12, 0, 1, 0, 2, b, 0, 0, 0, 1, 0, 0, 0], false)); }); // unknown message tag
            let _ = crate::guarded(move || { let _ = decode(12, &mk(vec![0, 12, 0, 1, 0, 2, 3, 0, 0, 0, b, 0, 0, 0], false)); }); // non-boolean flag
            let _ = crate::guarded(move || { let _ = decode(3, &mk(vec![0, 3, 0], false)); });                                    // wrong size
            let _ = crate::guarded(move || { let _ = decode(3, &mk(vec![0, 3, 0, 1], true)); });                                  // error packet
            let _ = crate::guarded(move || { let _ = decode(3, &mk(vec![0, 7, 0, 1], false)); });                                 // wrong code
            let _ = crate::guarded(move || { let _ = decode(3, &mk(vec![0, 3, 0, 1], false)); });                                 // accepted
        }
    }
    let mut o = vec![];
    let d = decode(case[0], &p);
    if show_decode(&d, &mut o) {
        if let Ok(e) = d {
            let p2 = e.to_packet();
            let d2 = decode(case[0], &p2);
            show_decode(&d2, &mut o);
        }
    }
    o
}

// ---- AMB: packet (or event) -> which of the 16 decoders accept it ----
pub fn gen_amb(r: &mut Rng, thorough: bool, cx: &mut Ctx) {
    let mut n = 0u64;
    gen_packets(r, false, &mut |_, p| { n += 1; if thorough || n % 3 == 0 { let mut l = vec![0]; show_packet(p, &mut l); cx.emit(&l); } });
    let per_kind = if thorough { 20000 } else { 1200 };
    for kind in 0..16u64 { for _ in 0..(if kind == 5 { 1 } else { per_kind }) { let mut l = vec![1]; l.extend(gen_event(r, kind, 40)); cx.emit(&l); } }    // data events of every payload size 0..=600 (a size that, packed with the code, looks like another kind's header)
    for n in 0..=600u64 { let mut l = vec![1, 4, r.u16b(), r.u16b(), n]; l.extend(r.bytes(n as usize).iter().map(|b| *b as u64)); cx.emit(&l); }
}
pub fn exec_amb(case: &[u64]) -> L {
    let p = if case[0] == 0 { parse_packet(&case[1..]).0 } else { ev_of(&case[1..]).to_packet() };
    (0..16u64).map(|k| match crate::guarded(|| decode(k, &p).is_ok()) { Some(true) => 1, Some(false) => 0, None => 2 }).collect()
}
