// The published event layouts, written once more for the generators (independent of the crate's
// encoders): used to produce valid encodings that are then perturbed.  Not an oracle.
use ross_protocol::packet::Packet;

fn be16(v: u64, d: &mut Vec<u8>) { d.push((v >> 8) as u8); d.push(v as u8); }
fn be32(v: u64, d: &mut Vec<u8>) { d.push((v >> 24) as u8); d.push((v >> 16) as u8); d.push((v >> 8) as u8); d.push(v as u8); }
fn bytes(l: &[u64], d: &mut Vec<u8>) { d.extend(l.iter().map(|x| *x as u8)); }

// fields as in the line grammar (kind code first)
pub fn ref_encode(l: &[u64]) -> Packet {
    let mut d = vec![];
    be16(l[0], &mut d);
    let addr = match l[0] {
        0 => { be16(l[2], &mut d); l[1] }
        1 => { be16(l[1], &mut d); 0xffff }
        2 | 10 => { be16(l[2], &mut d); be32(l[3], &mut d); l[1] }
        3 | 15 => { be16(l[2], &mut d); l[1] }
        4 => { be16(l[2], &mut d); be16(l[3], &mut d); bytes(&l[4..], &mut d); l[1] }
        5 => 0xffff,
        6 => { be16(l[2], &mut d); d.push(l[3] as u8); bytes(&l[4..], &mut d); l[1] }
        7 | 8 => { be16(l[2], &mut d); d.push(l[3] as u8); l[1] }
        9 => l[1],
        11 => { be16(l[2], &mut d); be16(l[3], &mut d); l[1] }
        12 => { be16(l[2], &mut d); be16(l[3], &mut d);
                d.extend_from_slice(&(l[4] as u32).to_le_bytes());
                match l[4] { 0 | 3 => { d.push(l[5] as u8); d.extend_from_slice(&[0, 0, 0]); }
                             1 => { d.extend_from_slice(&(l[5] as u16).to_le_bytes()); d.extend_from_slice(&[0, 0]); }
                             _ => d.extend_from_slice(&(l[5] as u32).to_le_bytes()) }
                l[1] }
        13 => { be16(l[2], &mut d); d.push(l[3] as u8); be32(l[4], &mut d); bytes(&l[5..], &mut d); l[1] }
        14 => { be16(l[2], &mut d); d.push(l[3] as u8);
                d.push(match l[4] { 0 => if l[5] != 0 { 0 } else { 1 }, 1 => 2, 2 => 3, _ => 4 }); l[1] }
        _ => panic!("harness: ref_encode of unknown kind"),
    };
    Packet { is_error: false, device_address: addr as u16, data: d }
}
