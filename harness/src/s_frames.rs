// Streams over the frame codecs (USD, USE, CAD, CAE).
use crate::rng::Rng;
use crate::wire::*;
use crate::{guarded, Ctx, PANIC};
use bxcan::{Data, ExtendedId, Frame as BxFrame, Id, StandardId};
use ross_protocol::frame::{Frame, FrameError, FrameId};
use ross_protocol::packet::PacketBuilder;

pub fn ferr_code(e: &FrameError) -> u64 {
    match e { FrameError::FrameIsStandard => 0, FrameError::FrameIsRemote => 1, FrameError::FrameIdMissing => 2, FrameError::WrongSize => 3, FrameError::CobsError => 4 }
}
pub fn copy_frame(f: &Frame) -> Frame { let mut l = vec![]; show_frame(f, &mut l); parse_frame(&l).0 }

// independent COBS encoder (for generating valid encodings only)
pub fn cobs_enc(src: &[u8]) -> Vec<u8> {
    let mut out = vec![0u8]; let mut code_idx = 0usize; let mut code = 1u8;
    for &b in src {
        if b == 0 { out[code_idx] = code; code_idx = out.len(); out.push(0); code = 1; }
        else { out.push(b); code += 1; if code == 0xff { out[code_idx] = code; code_idx = out.len(); out.push(0); code = 1; } }
    }
    out[code_idx] = code; out
}

// ---------- frame generators ----------
pub fn gen_frame(r: &mut Rng, shaped: bool) -> Frame {
    let dlen = r.below(9) as usize;
    let mut data = [0u8; 8];
    let body = r.bytes(8);
    for i in 0..dlen { data[i] = body[i]; }
    let id = match r.below(8) { 0 => 0, 1 => 1, 2 => 255, 3 => 256, 4 => 0xfff, 5 => 0x100 * r.below(16) as u16, _ => r.below(4096) as u16 };
    let ne = r.coin(); let mut addr = r.u16b() as u16;
    // coincidences between independent fields: address = frame id, payload bytes = id / address / length bytes
    match r.below(10) { 0 => { addr = id; } 1 => { for i in 0..dlen { data[i] = id as u8; } } 2 => { for i in 0..dlen { data[i] = if i % 2 == 0 { (addr >> 8) as u8 } else { addr as u8 }; } }
                        3 => { for i in 0..dlen { data[i] = dlen as u8; } } 4 => { addr = ((id & 0xff) << 8) | (id >> 8); } _ => {} }
    if shaped {
        if r.coin() {
            let dlen = dlen.max(1); let st = r.coin(); data[0] = (id & 0xff) as u8;
            Frame { not_error_flag: ne, start_frame_flag: st, multi_frame_flag: true, frame_id: if st { FrameId::LastFrameId(id) } else { FrameId::CurrentFrameId(id) }, device_address: addr, data_len: dlen as u8, data }
        } else {
            Frame { not_error_flag: ne, start_frame_flag: true, multi_frame_flag: false, frame_id: FrameId::LastFrameId(0), device_address: addr, data_len: dlen as u8, data }
        }
    } else {
        let st = r.coin();
        let last = if r.chance(3, 4) { st } else { !st };
        Frame { not_error_flag: ne, start_frame_flag: st, multi_frame_flag: r.coin(), frame_id: if last { FrameId::LastFrameId(id) } else { FrameId::CurrentFrameId(id) }, device_address: addr, data_len: dlen as u8, data }
    }
}
fn emit_frame(cx: &mut Ctx, f: &Frame) { let mut l = vec![]; show_frame(f, &mut l); cx.emit(&l); }

pub fn gen_frames(r: &mut Rng, thorough: bool, cx: &mut Ctx) {
    // all 8 flag combinations x both id kinds x boundary ids x zero-byte addresses x every data length
    for flags in 0..8u8 { for last in 0..2 { for &id in &[0u16, 1, 255, 256, 0x0fff, 0x0a5a] { for &addr in &[0u16, 0x00ff, 0xff00, 0xffff, 0x1234] { for dlen in 0..=8usize {
        let mut data = [0u8; 8]; let b = r.bytes(8); for i in 0..dlen { data[i] = b[i]; }
        let f = Frame { not_error_flag: flags & 4 != 0, start_frame_flag: flags & 2 != 0, multi_frame_flag: flags & 1 != 0,
                        frame_id: if last == 1 { FrameId::LastFrameId(id) } else { FrameId::CurrentFrameId(id) }, device_address: addr, data_len: dlen as u8, data };
        emit_frame(cx, &f);
    } } } } }
    // every frame id 0..=4095 (both id kinds) and a lattice of addresses (thorough: every address)
    for id in 0..4096u16 { for last in 0..2 {
        let sh = r.coin(); let mut f = gen_frame(r, sh);
        f.frame_id = if last == 1 { FrameId::LastFrameId(id) } else { FrameId::CurrentFrameId(id) };
        if sh { if f.multi_frame_flag { f.data[0] = id as u8; f.start_frame_flag = last == 1; } else { continue; } }
        emit_frame(cx, &f);
    } }
    let addrs: Vec<u16> = if thorough { (0..=65535u16).collect() } else { (0..256u16).chain((0..256).map(|x| x << 8)).chain((0..256).map(|x| x * 257)).collect() };
    for a in addrs { let sh = r.coin(); let mut f = gen_frame(r, sh); f.device_address = a; emit_frame(cx, &f); }
    for _ in 0..(if thorough { 400000 } else { 20000 }) { let shaped = r.chance(2, 3); let f = gen_frame(r, shaped); emit_frame(cx, &f); }
}

fn reencode_flags(f: &Frame, o: &mut L) {
    let a = copy_frame(f); o.push(match guarded(move || { a.to_usart_frame(); }) { Some(_) => 0, None => PANIC });
    let a = copy_frame(f); o.push(match guarded(move || { a.to_bxcan_frame(); }) { Some(_) => 0, None => PANIC });
    let a = copy_frame(f); o.push(match guarded(move || { let _ = PacketBuilder::new(a); }) { Some(_) => 0, None => PANIC });
    let start = Frame { not_error_flag: f.not_error_flag, start_frame_flag: true, multi_frame_flag: true, frame_id: FrameId::LastFrameId(4095),
                        device_address: f.device_address, data_len: 1, data: [255, 0, 0, 0, 0, 0, 0, 0] };
    let a = copy_frame(f);
    o.push(match guarded(move || { let mut b = PacketBuilder::new(start).unwrap(); let _ = b.add_frame(a); }) { Some(_) => 0, None => PANIC });
    // a small packet completed around f and built (Glue/StreamFrame.v `around`): f as start frame of <= 3 frames, or as the last continuation frame (id 1 or 2)
    let (id, is_last) = match f.frame_id { FrameId::LastFrameId(i) => (i, true), FrameId::CurrentFrameId(i) => (i, false) };
    let cont = |i: u16| Frame { not_error_flag: f.not_error_flag, start_frame_flag: false, multi_frame_flag: true, frame_id: FrameId::CurrentFrameId(i), device_address: f.device_address, data_len: 1, data: [i as u8, 0, 0, 0, 0, 0, 0, 0] };
    let seq: Option<Vec<Frame>> = if f.start_frame_flag {
        if is_last && id <= 2 { let mut v = vec![copy_frame(f)]; for i in 1..=id { v.push(cont(i)); } Some(v) } else { None }
    } else if id >= 1 && id <= 2 {
        let mut v = vec![Frame { not_error_flag: f.not_error_flag, start_frame_flag: true, multi_frame_flag: true, frame_id: FrameId::LastFrameId(id), device_address: f.device_address, data_len: 1, data: [id as u8, 0, 0, 0, 0, 0, 0, 0] }];
        for i in 1..id { v.push(cont(i)); } v.push(copy_frame(f)); Some(v)
    } else { None };
    o.push(match seq {
        None => 0,
        Some(v) => match guarded(move || { let mut it = v.into_iter(); if let Ok(mut b) = PacketBuilder::new(it.next().unwrap()) { let mut ok = true; for g in it { if b.add_frame(g).is_err() { ok = false; break; } } if ok { let _ = b.build(); } } }) { Some(_) => 0, None => PANIC },
    });
}
fn show_fres(r: Option<Result<Frame, FrameError>>, o: &mut L, with_flags: bool) {
    match r {
        None => o.push(PANIC),
        Some(Err(e)) => { o.push(1); o.push(ferr_code(&e)); }
        Some(Ok(f)) => { let mut l = vec![]; show_frame(&f, &mut l); o.push(0); o.push(l.len() as u64); o.extend(l); if with_flags { reencode_flags(&f, o); } }
    }
}

// ---------- USE / USD ----------
// A frame codec is a pure function: nothing an earlier decode (encode) did may show in a later encode (decode).  Before their first case
// the encoder streams (USE, CAE) let the process 'hear traffic' - well-formed link frames of every shape, bodies with a byte forced to 0x00 / 0xff,
// over-long and empty bodies, CAN frames of every kind - and the decoder streams (USD, CAD) first encode frames of every shape; results discarded.
fn frames_heard() {
    static ONCE: std::sync::Once = std::sync::Once::new();
    ONCE.call_once(|| {
        let mut r = Rng::new(0x0066_7261_6d65_7301);
        for n in 0..400u32 {
            let f = gen_frame(&mut r, n % 2 == 0);
            let mut body = vec![0xe0 & (r.below(256) as u8) | ((n % 16) as u8), (n & 0xff) as u8, (n >> 3) as u8, n as u8, f.data_len];
            body.extend_from_slice(&f.data[..f.data_len as usize]);
            let enc = cobs_enc(&body);
            { let e = enc.clone(); let _ = guarded(move || Frame::from_usart_frame(e)); }
            for x in [0x00u8, 0xff] { let mut e = enc.clone(); let i = r.below(e.len() as u64) as usize; e[i] = x; let _ = guarded(move || Frame::from_usart_frame(e)); }
            { let mut b = body.clone(); b[4] = r.range(9, 255) as u8; let e = cobs_enc(&b); let _ = guarded(move || Frame::from_usart_frame(e)); }
            { let k = r.below(40) as usize; let e = r.bytes(k); let _ = guarded(move || Frame::from_usart_frame(e)); }
            let dl = r.below(9); let mut l = vec![(n % 8 != 0) as u64, (n % 11 == 0) as u64, 0, dl, dl];
            l[2] = if l[0] != 0 { r.below(1 << 29) } else { r.below(2048) };
            if l[1] != 0 { l[4] = 0; }
            let nb = l[4] as usize; l.extend(r.bytes(nb).iter().map(|b| *b as u64));
            let _ = guarded(move || Frame::from_bxcan_frame(parse_can(&l)));
        }
    });
}
fn frames_sent() {
    static ONCE: std::sync::Once = std::sync::Once::new();
    ONCE.call_once(|| {
        let mut r = Rng::new(0x0066_7261_6d65_7302);
        for n in 0..400u32 {
            let f = gen_frame(&mut r, true);
            { let g = copy_frame(&f); let _ = guarded(move || g.to_usart_frame()); }
            let _ = guarded(move || f.to_bxcan_frame());
            let _ = n;
        }
    });
}
pub fn exec_use(case: &[u64]) -> L {
    frames_heard();
    let (f, _) = parse_frame(case);
    let mut o = vec![];
    match guarded(move || f.to_usart_frame()) {
        None => o.push(PANIC),
        Some(enc) => {
            o.push(0); o.push(enc.len() as u64); o.extend(enc.iter().map(|b| *b as u64));
            show_fres(guarded(move || Frame::from_usart_frame(enc)), &mut o, false);
        }
    }
    o
}
pub fn exec_usd(case: &[u64]) -> L {
    frames_sent();
    let enc: Vec<u8> = case.iter().map(|x| *x as u8).collect();
    // marked case (be ef 01 01 01): the decoder has a long life behind it in this process - 70000 malformed, 70000 wrongly sized and 70000 good
    // frames decoded before this one (a pure function keeps nothing from them)
    if enc == [0xbe, 0xef, 0x01, 0x01, 0x01] {
        let good = Frame { not_error_flag: true, start_frame_flag: true, multi_frame_flag: false, frame_id: FrameId::LastFrameId(0), device_address: 7, data_len: 2, data: [1, 2, 0, 0, 0, 0, 0, 0] }.to_usart_frame();
        for i in 0..70000u32 {
            let _ = guarded(move || Frame::from_usart_frame(vec![5, 1, (i % 250) as u8 + 1]));
            let _ = guarded(move || Frame::from_usart_frame(vec![3, (i % 250) as u8 + 1, 9]));
            let g = good.clone(); let _ = guarded(move || Frame::from_usart_frame(g));
        }
    }
    let mut o = vec![];
    show_fres(guarded(move || Frame::from_usart_frame(enc)), &mut o, true);
    o
}
fn emit_bytes(cx: &mut Ctx, b: &[u8]) { let l: L = b.iter().map(|x| *x as u64).collect(); cx.emit(&l); }
fn frame_body(f: &Frame) -> Vec<u8> {
    let (_, id) = match f.frame_id { FrameId::LastFrameId(i) => (1, i), FrameId::CurrentFrameId(i) => (0, i) };
    let mut b = vec![((f.not_error_flag as u8) << 7) | ((f.start_frame_flag as u8) << 6) | ((f.multi_frame_flag as u8) << 5) | ((id >> 8) & 0xf) as u8,
                     id as u8, (f.device_address >> 8) as u8, f.device_address as u8, f.data_len];
    b.extend_from_slice(&f.data[..f.data_len as usize]); b
}
pub fn gen_usd(r: &mut Rng, thorough: bool, cx: &mut Ctx) {
    emit_bytes(cx, &[0xbe, 0xef, 0x01, 0x01, 0x01]);     // the marked veteran-decoder case (see exec_usd)
    emit_bytes(cx, &[]);
    // every 1- and 2-byte string over a small alphabet, then random strings of every length 0..=255
    let alpha = [0u8, 1, 2, 3, 5, 6, 0xe, 0xf, 0xfe, 0xff];
    for &a in &alpha { emit_bytes(cx, &[a]); for &b in &alpha { emit_bytes(cx, &[a, b]); for &c in &alpha { emit_bytes(cx, &[a, b, c]); } } }
    for len in 0..=255usize { for _ in 0..(if thorough { 40 } else { 4 }) { let mut b = r.bytes(len); if r.coin() && len > 0 { b[0] = (len as u8).min(254).max(1); } emit_bytes(cx, &b); } }
    // valid encodings and typed mutations
    let n = if thorough { 6000 } else { 500 };
    for i in 0..n {
        let sh = r.coin(); let f = gen_frame(r, sh);
        let body = frame_body(&f);
        let enc = cobs_enc(&body);
        emit_bytes(cx, &enc);
        for &dl in &[0u8, 1, 7, 8, 9, 20, 0x14, 255, f.data_len.wrapping_add(1), f.data_len.wrapping_sub(1)] { let mut b = body.clone(); b[4] = dl; emit_bytes(cx, &cobs_enc(&b)); }
        { let mut b = body.clone(); b.push(r.u8b() as u8); emit_bytes(cx, &cobs_enc(&b)); }
        { let mut b = body.clone(); let k = r.range(1, 30) as usize; b.extend(r.bytes(k)); emit_bytes(cx, &cobs_enc(&b)); }
        { let k = r.below(body.len() as u64 + 1) as usize; emit_bytes(cx, &cobs_enc(&body[..k])); }
        let all_pos = thorough || i % 10 == 0;
        for pos in 0..=enc.len() {
            if !all_pos && !r.chance(1, 4) { continue; }
            emit_bytes(cx, &enc[..pos]);                                               // truncated
            { let mut e = enc.clone(); e.insert(pos, 0); emit_bytes(cx, &e); }        // injected delimiter byte
            if pos < enc.len() {
                { let mut e = enc.clone(); e[pos] ^= 1 << r.below(8); emit_bytes(cx, &e); }
                { let mut e = enc.clone(); e[pos] = 0; emit_bytes(cx, &e); }
                { let mut e = enc.clone(); e[pos] = 0xff; emit_bytes(cx, &e); }
                if thorough { for v in [1u8, 2, 0xfe].iter() { let mut e = enc.clone(); e[pos] = *v; emit_bytes(cx, &e); } }
            }
        }
    }
    // COBS encodings of random bodies of 0..=20 bytes (and a few long ones)
    for _ in 0..(if thorough { 100000 } else { 6000 }) {
        let len = if r.chance(1, 50) { r.range(21, 300) as usize } else { r.below(21) as usize };
        let mut b = r.bytes(len);
        if len > 4 && r.chance(2, 3) { b[4] = (len - 5) as u8; }
        emit_bytes(cx, &cobs_enc(&b));
    }
}

// ---------- CAE / CAD ----------
fn show_can(f: &BxFrame, o: &mut L) {
    let (ext, id) = match f.id() { Id::Standard(s) => (0, s.as_raw() as u64), Id::Extended(e) => (1, e.as_raw() as u64) };
    let data: Vec<u64> = match f.data() { Some(d) => d.iter().map(|b| *b as u64).collect(), None => vec![] };
    o.extend_from_slice(&[ext, f.is_remote_frame() as u64, id, f.dlc() as u64, data.len() as u64]); o.extend(data);
}
pub fn show_can_pub(f: &BxFrame, o: &mut L) { show_can(f, o) }
pub fn parse_can(l: &[u64]) -> BxFrame {
    let n = l[4] as usize;
    let data: Vec<u8> = l[5..5 + n].iter().map(|x| *x as u8).collect();
    let id: Id = if l[0] != 0 { Id::Extended(ExtendedId::new(l[2] as u32).expect("harness: bad ext id")) } else { Id::Standard(StandardId::new(l[2] as u16).expect("harness: bad std id")) };
    if l[1] != 0 { BxFrame::new_remote(id, l[3] as u8) } else { BxFrame::new_data(id, Data::new(&data).expect("harness: bad data")) }
}
pub fn exec_cae(case: &[u64]) -> L {
    frames_heard();
    let (f, _) = parse_frame(case);
    let mut o = vec![];
    match guarded(move || f.to_bxcan_frame()) {
        None => o.push(PANIC),
        Some(c) => {
            let mut l = vec![]; show_can(&c, &mut l); o.push(0); o.push(l.len() as u64); o.extend(l);
            show_fres(guarded(move || Frame::from_bxcan_frame(c)), &mut o, false);
        }
    }
    o
}
pub fn exec_cad(case: &[u64]) -> L {
    frames_sent();
    let c = parse_can(case);
    let mut o = vec![];
    show_fres(guarded(move || Frame::from_bxcan_frame(c)), &mut o, true);
    o
}
fn emit_can(cx: &mut Ctx, ext: bool, remote: bool, id: u32, dlc: u8, data: &[u8]) {
    let mut l = vec![ext as u64, remote as u64, id as u64, if remote { dlc as u64 } else { data.len() as u64 }, data.len() as u64];
    l.extend(data.iter().map(|b| *b as u64)); cx.emit(&l);
}
pub fn gen_cad(r: &mut Rng, thorough: bool, cx: &mut Ctx) {
    // all 8192 patterns of identifier bits 28..16 (flags, all 64 reserved patterns of bits 25..20, id nibble)
    let addrs = [0u32, 1, 0x00ff, 0xff00, 0xfffe, 0xffff];
    for hi in 0..8192u32 {
        let reps = if thorough { 12 } else { 3 };
        for k in 0..reps {
            let addr = if k < 2 { addrs[r.below(6) as usize] } else { r.below(65536) as u32 };
            let dlc = if k == 0 { (hi % 9) as usize } else { r.below(9) as usize };
            let data = r.bytes(dlc);
            emit_can(cx, true, false, (hi << 16) | addr, 0, &data);
        }
    }
    // every data length for multi-frame and single-frame ids, incl. multi-frame without data
    for &id in &[0x1400_0001u32, 0x1c0f_ffff, 0x0400_1234, 0x1000_0000, 0x0000_0000, 0x1fff_ffff, 0x1bf0_0000] { for dlc in 0..=8usize { let d = r.bytes(dlc); emit_can(cx, true, false, id, 0, &d); } }
    // standard-id and remote frames of every length
    for dlc in 0..=8u8 { for _ in 0..4 {
        let d = r.bytes(dlc as usize);
        emit_can(cx, false, false, r.below(2048) as u32, 0, &d);
        emit_can(cx, false, true, r.below(2048) as u32, dlc, &[]);
        emit_can(cx, true, true, r.below(1 << 29) as u32, dlc, &[]);
        emit_can(cx, true, true, 0x1400_0000 | r.below(65536) as u32, dlc, &[]);
    } }
    for _ in 0..(if thorough { 1000000 } else { 30000 }) { let dlc = r.below(9) as usize; let d = r.bytes(dlc); emit_can(cx, true, false, r.below(1 << 29) as u32, 0, &d); }
}
