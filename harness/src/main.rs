// rp-harness: runs the real ross-protocol code on generated cases and prints raw observations.
//   rp-harness gen  <stream> <seed> <tier>   > cases.txt     (one case per line)
//   rp-harness exec <stream>                 < cases.txt > impl.txt
// Each case line fully determines the execution, so a case file is also a replay file.
mod rng;
mod wire;
mod ev;
mod layout;
mod s_events;
mod s_frames;
mod s_packets;
mod mock;
mod s_links;
mod s_proto;
mod s_e2e;

#[global_allocator]
static ALLOC: mock::Counting = mock::Counting;

use std::io::{BufRead, Write};
use wire::*;

pub struct Ctx<'a> { pub out: &'a mut dyn Write, pub n: u64 }
impl<'a> Ctx<'a> { pub fn emit(&mut self, l: &[u64]) { write_line(self.out, l); self.n += 1; } }

pub const PANIC: u64 = 2;
pub const HANG: u64 = 3;

// run a closure, mapping a panic to None
pub fn guarded<T, F: FnOnce() -> T + std::panic::UnwindSafe>(f: F) -> Option<T> { std::panic::catch_unwind(f).ok() }

fn main() {
    let args: Vec<String> = std::env::args().collect();
    if args.len() < 3 { eprintln!("usage: rp-harness gen <stream> <seed> <tier> | exec <stream>"); std::process::exit(2); }
    std::panic::set_hook(Box::new(|_| {}));
    let stdout = std::io::stdout();
    let mut out = std::io::BufWriter::with_capacity(1 << 16, stdout.lock());
    match args[1].as_str() {
        "gen" => {
            let seed: u64 = args[3].parse().expect("seed");
            let thorough = args[4] == "thorough";
            let mut r = rng::Rng::new(seed);
            let mut cx = Ctx { out: &mut out, n: 0 };
            // the generators use the implementation's own encoders to build wire images; should one of them panic (a changed tree), the cases
            // generated so far are kept and the run goes on with those
            let stream = args[2].clone();
            let res = std::panic::catch_unwind(std::panic::AssertUnwindSafe(|| match stream.as_str() {
                "EV" => s_events::gen_ev(&mut r, thorough, &mut cx),
                "DEC" => s_events::gen_dec(&mut r, thorough, &mut cx),
                "AMB" => s_events::gen_amb(&mut r, thorough, &mut cx),
                "USE" | "CAE" => s_frames::gen_frames(&mut r, thorough, &mut cx),
                "USD" => s_frames::gen_usd(&mut r, thorough, &mut cx),
                "CAD" => s_frames::gen_cad(&mut r, thorough, &mut cx),
                "FRG" | "REA" => s_packets::gen_packets(&mut r, thorough, &mut cx),
                "BLD" => s_packets::gen_bld(&mut r, thorough, &mut cx),
                "RCV" => s_links::gen_rcv(&mut r, thorough, &mut cx),
                "LNK" => s_links::gen_lnk(&mut r, thorough, &mut cx),
                "SND" => s_links::gen_snd(&mut r, thorough, &mut cx),
                "PRO" => s_proto::gen_pro(&mut r, thorough, &mut cx),
                "EXC" => s_proto::gen_exc(&mut r, thorough, &mut cx),
                "E2E" => s_e2e::gen_e2e(&mut r, thorough, &mut cx),
                s => { eprintln!("unknown stream {}", s); std::process::exit(2); }
            }));
            if res.is_err() { eprintln!("harness gen {}: the implementation panicked inside a case generator; keeping the cases generated so far", args[2]); }
        }
        "exec" => {
            let f: fn(&[u64]) -> L = match args[2].as_str() {
                "EV" => s_events::exec_ev,
                "DEC" => s_events::exec_dec,
                "AMB" => s_events::exec_amb,
                "USE" => s_frames::exec_use,
                "USD" => s_frames::exec_usd,
                "CAE" => s_frames::exec_cae,
                "CAD" => s_frames::exec_cad,
                "FRG" => s_packets::exec_frg,
                "REA" => s_packets::exec_rea,
                "BLD" => s_packets::exec_bld,
                "RCV" => s_links::exec_rcv,
                "LNK" => s_links::exec_lnk,
                "SND" => s_links::exec_snd,
                "PRO" => s_proto::exec_pro,
                "EXC" => s_proto::exec_exc,
                "E2E" => s_e2e::exec_e2e,
                s => { eprintln!("unknown stream {}", s); std::process::exit(2); }
            };
            let stdin = std::io::stdin();
            for line in stdin.lock().lines() {
                let line = line.unwrap();
                let case = parse_line(&line);
                let obs = match std::panic::catch_unwind(|| f(&case)) { Ok(o) => o, Err(_) => vec![PANIC] };
                write_line(&mut out, &obs);
                out.flush().unwrap();   // a crash is then attributable to the first case without an output line
            }
        }
        _ => { eprintln!("unknown mode"); std::process::exit(2); }
    }
    out.flush().unwrap();
}
