// Bridge between number lists and the 16 event types of the implementation.
use crate::wire::L;
use ross_protocol::convert_packet::*;
use ross_protocol::event::bcm::*;
use ross_protocol::event::bootloader::*;
use ross_protocol::event::button::*;
use ross_protocol::event::configurator::*;
use ross_protocol::event::gateway::*;
use ross_protocol::event::general::*;
use ross_protocol::event::internal::*;
use ross_protocol::event::message::*;
use ross_protocol::event::programmer::*;
use ross_protocol::event::relay::*;
use ross_protocol::packet::Packet;

fn bcm_of(l: &[u64]) -> BcmValue {
    match l[0] { 0 => BcmValue::Binary(l[1] != 0), 1 => BcmValue::Single(l[1] as u8), 2 => BcmValue::Rgb(l[1] as u8, l[2] as u8, l[3] as u8),
        3 => BcmValue::RgbB(l[1] as u8, l[2] as u8, l[3] as u8, l[4] as u8), 4 => BcmValue::Rgbw(l[1] as u8, l[2] as u8, l[3] as u8, l[4] as u8),
        _ => BcmValue::RgbwB(l[1] as u8, l[2] as u8, l[3] as u8, l[4] as u8, l[5] as u8) }
}
fn bcm_fields(v: &BcmValue) -> Vec<u64> {
    match *v { BcmValue::Binary(b) => vec![0, b as u64], BcmValue::Single(x) => vec![1, x as u64], BcmValue::Rgb(r, g, b) => vec![2, r as u64, g as u64, b as u64],
        BcmValue::RgbB(r, g, b, x) => vec![3, r as u64, g as u64, b as u64, x as u64], BcmValue::Rgbw(r, g, b, x) => vec![4, r as u64, g as u64, b as u64, x as u64],
        BcmValue::RgbwB(r, g, b, w, x) => vec![5, r as u64, g as u64, b as u64, w as u64, x as u64] }
}
fn relay_of(l: &[u64]) -> RelayValue {
    match l[0] { 0 => RelayValue::Single(l[1] != 0), 1 => RelayValue::DoubleExclusive(RelayDoubleExclusiveValue::FirstChannelOn),
        2 => RelayValue::DoubleExclusive(RelayDoubleExclusiveValue::SecondChannelOn), _ => RelayValue::DoubleExclusive(RelayDoubleExclusiveValue::NoChannelOn) }
}
fn relay_fields(v: &RelayValue) -> Vec<u64> {
    match *v { RelayValue::Single(b) => vec![0, b as u64], RelayValue::DoubleExclusive(RelayDoubleExclusiveValue::FirstChannelOn) => vec![1],
        RelayValue::DoubleExclusive(RelayDoubleExclusiveValue::SecondChannelOn) => vec![2], RelayValue::DoubleExclusive(RelayDoubleExclusiveValue::NoChannelOn) => vec![3] }
}
fn msg_of(l: &[u64]) -> MessageValue {
    match l[0] { 0 => MessageValue::U8(l[1] as u8), 1 => MessageValue::U16(l[1] as u16), 2 => MessageValue::U32(l[1] as u32), _ => MessageValue::Bool(l[1] != 0) }
}
// None = the value is outside the type's domain (invalid discriminant or non-boolean byte): inspected
// through the raw repr(C) image before the value is ever matched on.
fn msg_fields(v: &MessageValue) -> Option<Vec<u64>> {
    let raw: [u8; 8] = unsafe { core::mem::transmute_copy(v) };
    let tag = u32::from_ne_bytes([raw[0], raw[1], raw[2], raw[3]]);
    match tag {
        0 => Some(vec![0, raw[4] as u64]),
        1 => Some(vec![1, u16::from_ne_bytes([raw[4], raw[5]]) as u64]),
        2 => Some(vec![2, u32::from_ne_bytes([raw[4], raw[5], raw[6], raw[7]]) as u64]),
        3 => if raw[4] <= 1 { Some(vec![3, raw[4] as u64]) } else { None },
        _ => None,
    }
}

pub enum Ev {
    BootloaderHello(BootloaderHelloEvent), ProgrammerHello(ProgrammerHelloEvent), StartFirmware(ProgrammerStartFirmwareUpgradeEvent),
    Ack(AckEvent), Data(DataEvent), ConfiguratorHello(ConfiguratorHelloEvent), BcmChange(BcmChangeBrightnessEvent),
    ButtonPressed(ButtonPressedEvent), ButtonReleased(ButtonReleasedEvent), SystemTick(SystemTickEvent),
    StartConfig(ProgrammerStartConfigUpgradeEvent), SetAddress(ProgrammerSetDeviceAddressEvent), Message(MessageEvent),
    BcmAnimate(BcmAnimateBrightnessEvent), RelaySet(RelaySetValueEvent), GatewayDiscover(GatewayDiscoverEvent),
}

pub fn ev_of(l: &[u64]) -> Ev {
    let a = |i: usize| l[i] as u16;
    match l[0] {
        0 => Ev::BootloaderHello(BootloaderHelloEvent { programmer_address: a(1), bootloader_address: a(2) }),
        1 => Ev::ProgrammerHello(ProgrammerHelloEvent { programmer_address: a(1) }),
        2 => Ev::StartFirmware(ProgrammerStartFirmwareUpgradeEvent { receiver_address: a(1), programmer_address: a(2), firmware_size: l[3] as u32 }),
        3 => Ev::Ack(AckEvent { receiver_address: a(1), transmitter_address: a(2) }),
        4 => Ev::Data(DataEvent { receiver_address: a(1), transmitter_address: a(2), data_len: a(3), data: l[4..].iter().map(|x| *x as u8).collect() }),
        5 => Ev::ConfiguratorHello(ConfiguratorHelloEvent {}),
        6 => Ev::BcmChange(BcmChangeBrightnessEvent { bcm_address: a(1), transmitter_address: a(2), index: l[3] as u8, value: bcm_of(&l[4..]) }),
        7 => Ev::ButtonPressed(ButtonPressedEvent { receiver_address: a(1), button_address: a(2), index: l[3] as u8 }),
        8 => Ev::ButtonReleased(ButtonReleasedEvent { receiver_address: a(1), button_address: a(2), index: l[3] as u8 }),
        9 => Ev::SystemTick(SystemTickEvent { receiver_address: a(1) }),
        10 => Ev::StartConfig(ProgrammerStartConfigUpgradeEvent { receiver_address: a(1), programmer_address: a(2), config_size: l[3] as u32 }),
        11 => Ev::SetAddress(ProgrammerSetDeviceAddressEvent { receiver_address: a(1), programmer_address: a(2), new_address: a(3) }),
        12 => Ev::Message(MessageEvent { receiver_address: a(1), transmitter_address: a(2), code: a(3), value: msg_of(&l[4..]) }),
        13 => Ev::BcmAnimate(BcmAnimateBrightnessEvent { bcm_address: a(1), transmitter_address: a(2), index: l[3] as u8, duration: l[4] as u32, target_value: bcm_of(&l[5..]) }),
        14 => Ev::RelaySet(RelaySetValueEvent { relay_address: a(1), transmitter_address: a(2), index: l[3] as u8, value: relay_of(&l[4..]) }),
        15 => Ev::GatewayDiscover(GatewayDiscoverEvent { device_address: a(1), gateway_address: a(2) }),
        k => panic!("harness: unknown event kind {}", k),
    }
}

impl Ev {
    pub fn to_packet(&self) -> Packet {
        let mut p = match self {
            Ev::BootloaderHello(e) => e.to_packet(), Ev::ProgrammerHello(e) => e.to_packet(), Ev::StartFirmware(e) => e.to_packet(),
            Ev::Ack(e) => e.to_packet(), Ev::Data(e) => e.to_packet(), Ev::ConfiguratorHello(e) => e.to_packet(), Ev::BcmChange(e) => e.to_packet(),
            Ev::ButtonPressed(e) => e.to_packet(), Ev::ButtonReleased(e) => e.to_packet(), Ev::SystemTick(e) => e.to_packet(),
            Ev::StartConfig(e) => e.to_packet(), Ev::SetAddress(e) => e.to_packet(), Ev::Message(e) => e.to_packet(),
            Ev::BcmAnimate(e) => e.to_packet(), Ev::RelaySet(e) => e.to_packet(), Ev::GatewayDiscover(e) => e.to_packet(),
        };
        if let Ev::Message(_) = self { mask_msg_padding(&mut p.data); }
        p
    }
    // None = value outside the domain of its type
    pub fn fields(&self) -> Option<L> {
        Some(match self {
            Ev::BootloaderHello(e) => vec![0, e.programmer_address as u64, e.bootloader_address as u64],
            Ev::ProgrammerHello(e) => vec![1, e.programmer_address as u64],
            Ev::StartFirmware(e) => vec![2, e.receiver_address as u64, e.programmer_address as u64, e.firmware_size as u64],
            Ev::Ack(e) => vec![3, e.receiver_address as u64, e.transmitter_address as u64],
            Ev::Data(e) => { let mut v = vec![4, e.receiver_address as u64, e.transmitter_address as u64, e.data_len as u64]; v.extend(e.data.iter().map(|b| *b as u64)); v }
            Ev::ConfiguratorHello(_) => vec![5],
            Ev::BcmChange(e) => { let mut v = vec![6, e.bcm_address as u64, e.transmitter_address as u64, e.index as u64]; v.extend(bcm_fields(&e.value)); v }
            Ev::ButtonPressed(e) => vec![7, e.receiver_address as u64, e.button_address as u64, e.index as u64],
            Ev::ButtonReleased(e) => vec![8, e.receiver_address as u64, e.button_address as u64, e.index as u64],
            Ev::SystemTick(e) => vec![9, e.receiver_address as u64],
            Ev::StartConfig(e) => vec![10, e.receiver_address as u64, e.programmer_address as u64, e.config_size as u64],
            Ev::SetAddress(e) => vec![11, e.receiver_address as u64, e.programmer_address as u64, e.new_address as u64],
            Ev::Message(e) => { let mut v = vec![12, e.receiver_address as u64, e.transmitter_address as u64, e.code as u64]; v.extend(msg_fields(&e.value)?); v }
            Ev::BcmAnimate(e) => { let mut v = vec![13, e.bcm_address as u64, e.transmitter_address as u64, e.index as u64, e.duration as u64]; v.extend(bcm_fields(&e.target_value)); v }
            Ev::RelaySet(e) => { let mut v = vec![14, e.relay_address as u64, e.transmitter_address as u64, e.index as u64]; v.extend(relay_fields(&e.value)); v }
            Ev::GatewayDiscover(e) => vec![15, e.device_address as u64, e.gateway_address as u64],
        })
    }
}

// The padding bytes of the MessageValue image (offsets 5..7 for U8/Bool, 6..7 for U16) are whatever the
// compiler left there; they are unspecified and masked to zero before anything is printed or compared.
pub fn mask_msg_padding(d: &mut Vec<u8>) {
    if d.len() == 14 && d[7] == 0 && d[8] == 0 && d[9] == 0 {
        match d[6] { 0 | 3 => { d[11] = 0; d[12] = 0; d[13] = 0; } 1 => { d[12] = 0; d[13] = 0; } _ => {} }
    }
}

pub fn err_code(e: &ConvertPacketError) -> u64 {
    match e { ConvertPacketError::WrongSize => 0, ConvertPacketError::UnknownEnumVariant => 1, ConvertPacketError::WrongType => 2, ConvertPacketError::Event(_) => 3 }
}

// try_from_packet of the given kind
pub fn decode(kind: u64, p: &Packet) -> Result<Ev, ConvertPacketError> {
    Ok(match kind {
        0 => Ev::BootloaderHello(BootloaderHelloEvent::try_from_packet(p)?), 1 => Ev::ProgrammerHello(ProgrammerHelloEvent::try_from_packet(p)?),
        2 => Ev::StartFirmware(ProgrammerStartFirmwareUpgradeEvent::try_from_packet(p)?), 3 => Ev::Ack(AckEvent::try_from_packet(p)?),
        4 => Ev::Data(DataEvent::try_from_packet(p)?), 5 => Ev::ConfiguratorHello(ConfiguratorHelloEvent::try_from_packet(p)?),
        6 => Ev::BcmChange(BcmChangeBrightnessEvent::try_from_packet(p)?), 7 => Ev::ButtonPressed(ButtonPressedEvent::try_from_packet(p)?),
        8 => Ev::ButtonReleased(ButtonReleasedEvent::try_from_packet(p)?), 9 => Ev::SystemTick(SystemTickEvent::try_from_packet(p)?),
        10 => Ev::StartConfig(ProgrammerStartConfigUpgradeEvent::try_from_packet(p)?), 11 => Ev::SetAddress(ProgrammerSetDeviceAddressEvent::try_from_packet(p)?),
        12 => Ev::Message(MessageEvent::try_from_packet(p)?), 13 => Ev::BcmAnimate(BcmAnimateBrightnessEvent::try_from_packet(p)?),
        14 => Ev::RelaySet(RelaySetValueEvent::try_from_packet(p)?), 15 => Ev::GatewayDiscover(GatewayDiscoverEvent::try_from_packet(p)?),
        k => panic!("harness: unknown event kind {}", k),
    })
}

// observation of a decode: 0 n fields.. | 1 code | 4 (INVALID); the decoded value is handed back for re-encoding
pub fn show_decode(r: &Result<Ev, ConvertPacketError>, out: &mut L) -> bool {
    match r {
        Ok(e) => match e.fields() { Some(f) => { out.push(0); out.push(f.len() as u64); out.extend(f); true } None => { out.push(4); false } },
        Err(e) => { out.push(1); out.push(err_code(e)); false }
    }
}

// ---------------- generators ----------------
use crate::rng::Rng;
fn gen_bcm(r: &mut Rng, variant: u64) -> Vec<u64> {
    match variant { 0 => vec![0, r.below(2)], 1 => vec![1, r.u8b()], 2 => vec![2, r.u8b(), r.u8b(), r.u8b()], 3 => vec![3, r.u8b(), r.u8b(), r.u8b(), r.u8b()],
        4 => vec![4, r.u8b(), r.u8b(), r.u8b(), r.u8b()], _ => vec![5, r.u8b(), r.u8b(), r.u8b(), r.u8b(), r.u8b()] }
}
pub fn gen_event(r: &mut Rng, kind: u64, max_data: usize) -> L {
    match kind {
        0 => vec![0, r.u16b(), r.u16b()], 1 => vec![1, r.u16b()], 2 => vec![2, r.u16b(), r.u16b(), r.u32b()], 3 => vec![3, r.u16b(), r.u16b()],
        4 => { let n = match r.below(6) { 0 => r.below(3) as usize, 1 => r.below(20) as usize, 2 => [1usize, 2, 3, 7, 8, 9, 255, 256, 257][r.below(9) as usize].min(max_data), _ => r.below(max_data as u64 + 1) as usize };
               let mut v = vec![4, r.u16b(), r.u16b(), n as u64]; v.extend(r.bytes(n).iter().map(|b| *b as u64)); v }
        5 => vec![5],
        6 => { let mut v = vec![6, r.u16b(), r.u16b(), r.u8b()]; let t = r.below(6); v.extend(gen_bcm(r, t)); v }
        7 => vec![7, r.u16b(), r.u16b(), r.u8b()], 8 => vec![8, r.u16b(), r.u16b(), r.u8b()], 9 => vec![9, r.u16b()],
        10 => vec![10, r.u16b(), r.u16b(), r.u32b()], 11 => vec![11, r.u16b(), r.u16b(), r.u16b()],
        12 => { let mut v = vec![12, r.u16b(), r.u16b(), r.u16b()]; match r.below(4) { 0 => { v.push(0); v.push(r.u8b()) } 1 => { v.push(1); v.push(r.u16b()) } 2 => { v.push(2); v.push(r.u32b()) } _ => { v.push(3); v.push(r.below(2)) } }; v }
        13 => { let mut v = vec![13, r.u16b(), r.u16b(), r.u8b(), r.u32b()]; let t = r.below(6); v.extend(gen_bcm(r, t)); v }
        14 => { let mut v = vec![14, r.u16b(), r.u16b(), r.u8b()]; match r.below(4) { 0 => { v.push(0); v.push(r.below(2)) } k => v.push(k) }; v }
        _ => vec![15, r.u16b(), r.u16b()],
    }
}
