// SplitMix64: every random choice of the harness derives from one state seeded by VERIF_SEED.
pub struct Rng(pub u64);
impl Rng {
    pub fn new(seed: u64) -> Self { Rng(seed ^ 0x9e3779b97f4a7c15) }
    pub fn next(&mut self) -> u64 {
        self.0 = self.0.wrapping_add(0x9e3779b97f4a7c15);
        let mut z = self.0;
        z = (z ^ (z >> 30)).wrapping_mul(0xbf58476d1ce4e5b9);
        z = (z ^ (z >> 27)).wrapping_mul(0x94d049bb133111eb);
        z ^ (z >> 31)
    }
    pub fn below(&mut self, n: u64) -> u64 { if n == 0 { 0 } else { self.next() % n } }
    pub fn range(&mut self, lo: u64, hi: u64) -> u64 { lo + self.below(hi - lo + 1) }
    pub fn coin(&mut self) -> bool { self.next() & 1 == 1 }
    pub fn pick<T: Copy>(&mut self, xs: &[T]) -> T { xs[self.below(xs.len() as u64) as usize] }
    pub fn chance(&mut self, num: u64, den: u64) -> bool { self.below(den) < num }
    // values whose bytes look like variant tags (0..=6): provoke confusion between layouts
    pub fn tagish(&mut self, nbytes: u32) -> u64 { let mut v = 0u64; for _ in 0..nbytes { v = (v << 8) | self.below(7); } v }
    // boundary-biased values
    pub fn u8b(&mut self) -> u64 { match self.below(9) { 8 => self.tagish(1), 0 => 0, 1 => 1, 2 => 0xff, 3 => 0xfe, 4 => 0x80, _ => self.below(256) } }
    pub fn u16b(&mut self) -> u64 { match self.below(11) { 10 => self.tagish(2), 0 => 0, 1 => 1, 2 => 0xffff, 3 => 0xfffe, 4 => 0x00ff, 5 => 0xff00, 6 => 0x0100, _ => self.below(65536) } }
    pub fn u32b(&mut self) -> u64 { match self.below(12) { 10 | 11 => self.tagish(4), 0 => 0, 1 => 1, 2 => 0xffff_ffff, 3 => 0x0000_ffff, 4 => 0xffff_0000, 5 => 0x0100_0000, 6 => 0x00ff_00ff, _ => self.next() & 0xffff_ffff } }
    // payload bytes: constant runs, index-coloured, uniform
    pub fn bytes(&mut self, n: usize) -> Vec<u8> {
        match self.below(7) {
            0 => vec![0x00; n],
            1 => vec![0xff; n],
            2 => vec![0x01; n],
            3 => (0..n).map(|i| (i % 251) as u8).collect(),
            4 => (0..n).map(|i| if i % 3 == 0 { 0 } else { 0xff }).collect(),
            _ => (0..n).map(|_| self.below(256) as u8).collect(),
        }
    }
}
