// Streams over the Protocol dispatcher (PRO, EXC).
use crate::ev::*;
use crate::layout::ref_encode;
use crate::rng::Rng;
use crate::s_links::ierr_code;
use crate::wire::*;
use crate::Ctx;
use ross_protocol::event::bcm::*;
use ross_protocol::event::bootloader::*;
use ross_protocol::event::button::*;
use ross_protocol::event::configurator::*;
use ross_protocol::event::gateway::*;
use ross_protocol::event::general::*;
use ross_protocol::event::internal::*;
use ross_protocol::event::message::*;
use ross_protocol::event::programmer::*;
use ross_protocol::event::relay::*;
use ross_protocol::frame::FrameError;
use ross_protocol::interface::can::CanError;
use ross_protocol::interface::serial::SerialError;
use ross_protocol::interface::usart::UsartError;
use ross_protocol::interface::{Interface, InterfaceError};
use ross_protocol::packet::{Packet, PacketBuilderError};
use ross_protocol::protocol::{Protocol, ProtocolError};
use std::cell::RefCell;
use std::collections::VecDeque;
use std::panic::{catch_unwind, AssertUnwindSafe};
use std::rc::Rc;

pub fn ierr_of(code: u64) -> InterfaceError {
    match code {
        10 => InterfaceError::BuilderError(PacketBuilderError::OutOfOrder), 11 => InterfaceError::BuilderError(PacketBuilderError::SingleFramePacket),
        12 => InterfaceError::BuilderError(PacketBuilderError::TooManyFrames), 13 => InterfaceError::BuilderError(PacketBuilderError::WrongFrameType),
        14 => InterfaceError::BuilderError(PacketBuilderError::DeviceAddressMismatch), 15 => InterfaceError::BuilderError(PacketBuilderError::MissingFrames),
        20 => InterfaceError::FrameError(FrameError::FrameIsStandard), 21 => InterfaceError::FrameError(FrameError::FrameIsRemote),
        22 => InterfaceError::FrameError(FrameError::FrameIdMissing), 23 => InterfaceError::FrameError(FrameError::WrongSize), 24 => InterfaceError::FrameError(FrameError::CobsError),
        30 => InterfaceError::UsartError(UsartError::ReadError),
        31 => InterfaceError::SerialError(SerialError::ReadError(std::io::Error::new(std::io::ErrorKind::Other, "x"))),
        32 => InterfaceError::SerialError(SerialError::WriteError(std::io::Error::new(std::io::ErrorKind::Other, "x"))),
        40 => InterfaceError::CanError(CanError::BufferOverrun),
        34 => InterfaceError::SerialError(SerialError::ReadError(std::io::Error::new(std::io::ErrorKind::Interrupted, "x"))),
        35 => InterfaceError::SerialError(SerialError::ReadError(std::io::Error::new(std::io::ErrorKind::TimedOut, "x"))),
        36 => InterfaceError::SerialError(SerialError::WriteError(std::io::Error::new(std::io::ErrorKind::TimedOut, "x"))),
        37 => InterfaceError::SerialError(SerialError::WriteError(std::io::Error::new(std::io::ErrorKind::WouldBlock, "x"))),
        99 => InterfaceError::NoPacketReceived,        // only as an answer to try_send_packet (a link that misuses the 'nothing received' value)
        _ => InterfaceError::CanError(CanError::MailboxFull),
    }
}
pub const ERR_CODES: [u64; 20] = [10, 11, 12, 13, 14, 15, 20, 21, 22, 23, 24, 30, 31, 32, 34, 35, 36, 37, 40, 41];
pub const SEND_ERR_CODES: [u64; 21] = [10, 11, 12, 13, 14, 15, 20, 21, 22, 23, 24, 30, 31, 32, 34, 35, 36, 37, 40, 41, 99];
// link errors as the protocol layer sees them: the serial port's io errors keep their kind (a layer above must not treat one kind specially)
fn ierr_code_pro(i: &InterfaceError) -> u64 {
    use std::io::ErrorKind::*;
    match i {
        InterfaceError::SerialError(SerialError::ReadError(e)) => match e.kind() { Interrupted => 34, TimedOut => 35, _ => 31 },
        InterfaceError::SerialError(SerialError::WriteError(e)) => match e.kind() { TimedOut => 36, WouldBlock => 37, _ => 32 },
        _ => ierr_code(i),
    }
}
fn perr_code(e: &ProtocolError) -> u64 { match e { ProtocolError::InterfaceError(i) => 100 + ierr_code_pro(i), ProtocolError::NoSuchHandler => 1, ProtocolError::PacketTimeout => 2 } }

pub enum Gres { Pkt(Packet), None, Err(u64) }
#[derive(Default)]
pub struct IfSt { pub gets: VecDeque<Gres>, pub answers: VecDeque<u64>, pub sent: Vec<Packet>, pub trace: Vec<L> }
#[derive(Clone)]
pub struct MockIf(pub Rc<RefCell<IfSt>>);
impl Interface for MockIf {
    fn try_get_packet(&mut self) -> Result<Packet, InterfaceError> {
        let mut s = self.0.borrow_mut();
        s.trace.push(vec![3]);
        match s.gets.pop_front() { None | Some(Gres::None) => Err(InterfaceError::NoPacketReceived), Some(Gres::Pkt(p)) => Ok(p), Some(Gres::Err(c)) => Err(ierr_of(c)) }
    }
    fn try_send_packet(&mut self, p: &Packet) -> Result<(), InterfaceError> {
        let mut s = self.0.borrow_mut();
        let mut t = vec![1]; show_packet(p, &mut t); s.trace.push(t);
        s.sent.push(p.clone());
        match s.answers.pop_front() { None | Some(0) => Ok(()), Some(c) => Err(ierr_of(c)) }
    }
}
fn parse_gres(l: &[u64]) -> (Gres, &[u64]) {
    match l[0] { 0 => { let (p, r) = parse_packet(&l[1..]); (Gres::Pkt(p), r) } 1 => (Gres::None, &l[1..]), _ => (Gres::Err(l[1]), &l[2..]) }
}
fn show_pret<T>(r: &Result<T, ProtocolError>, o: &mut L) { match r { Ok(_) => o.push(0), Err(e) => { o.push(1); o.push(perr_code(e)); } } }
type Log = Rc<RefCell<Vec<(u64, Packet)>>>;
thread_local! { static DEPTH: std::cell::Cell<u32> = std::cell::Cell::new(0); }
// A scripted handler: logs what it was given and, when invoked by a top-level dispatch, sends its packets through the protocol
// handle.  A packet it sends to the device's own address re-enters the dispatcher; from such a nested dispatch the handlers only
// log (otherwise the recursion would never end, in the library as well).
fn make_handler(label: u64, sends: Vec<Packet>, log: Log) -> Box<dyn FnMut(&Packet, &mut Protocol<'static, MockIf>)> {
    Box::new(move |p: &Packet, proto: &mut Protocol<'static, MockIf>| {
        log.borrow_mut().push((label, p.clone()));
        let d = DEPTH.with(|c| c.get());
        if d == 0 {
            DEPTH.with(|c| c.set(1));
            for s in sends.iter() { let _ = proto.send_packet(s); }
            DEPTH.with(|c| c.set(0));
        }
    })
}
fn show_log(log: &Log, ids: &std::collections::HashMap<u64, u64>, o: &mut L) {
    let l = log.borrow();
    o.push(l.len() as u64);
    for (label, p) in l.iter() { o.push(*ids.get(label).unwrap_or(&0xffff_ffff)); o.push(*label); show_packet(p, o); }
}
fn show_packets(ps: &[Packet], o: &mut L) { o.push(ps.len() as u64); for p in ps { show_packet(p, o); } }
fn split_lists(l: &[u64], n: usize) -> (Vec<&[u64]>, &[u64]) {
    let mut v = vec![]; let mut r = l;
    for _ in 0..n { let k = r[0] as usize; v.push(&r[1..1 + k]); r = &r[1 + k..]; }
    (v, r)
}
fn parse_add(body: &[u64]) -> (u64, bool, Vec<Packet>) {      // label cap n packets (after the op tag)
    let label = body[0]; let cap = body[1] != 0; let n = body[2] as usize; let mut r = &body[3..]; let mut ps = vec![];
    for _ in 0..n { let (p, r2) = parse_packet(r); ps.push(p); r = r2; }
    (label, cap, ps)
}

pub fn exec_pro(case: &[u64]) -> L {
    DEPTH.with(|c| c.set(0));
    let own = case[0] as u16; let nops = case[1] as usize;
    let (ops, _) = split_lists(&case[2..], nops);
    let st = Rc::new(RefCell::new(IfSt::default()));
    let mut proto: Protocol<'static, MockIf> = Protocol::new(own, MockIf(st.clone()));
    let log: Log = Rc::new(RefCell::new(vec![]));
    let mut ids = std::collections::HashMap::new();
    let mut out: Vec<L> = vec![];
    // marked case (own address 0xbeef): the protocol object has a long life behind it - 70000 packets received (no handler registered yet),
    // 70000 sent, 70000 link errors seen - which must not matter to anything that follows
    if own == 0xbeef {
        for i in 0..70000u32 {
            { let mut s = st.borrow_mut(); s.gets.clear(); s.answers.clear(); s.sent.clear(); s.trace.clear();
              s.gets.push_back(Gres::Pkt(Packet { is_error: i % 2 == 0, device_address: if i % 3 == 0 { own } else { (i % 65536) as u16 }, data: vec![i as u8, 1] })); }
            let _ = catch_unwind(AssertUnwindSafe(|| proto.tick()));
            let _ = catch_unwind(AssertUnwindSafe(|| proto.send_packet(&Packet { is_error: false, device_address: 7, data: vec![i as u8] })));
            { let mut s = st.borrow_mut(); s.gets.clear(); s.gets.push_back(Gres::Err(40)); }
            let _ = catch_unwind(AssertUnwindSafe(|| proto.tick()));
        }
        let mut s = st.borrow_mut(); s.gets.clear(); s.answers.clear(); s.sent.clear(); s.trace.clear();
    }
    for op in ops {
        let mut o = vec![];
        match op[0] {
            0 => { let (label, cap, sends) = parse_add(&op[1..]);
                   match proto.add_packet_handler(make_handler(label, sends, log.clone()), cap) { Ok(id) => { ids.insert(label, id as u64); o.push(0); o.push(id as u64); } Err(e) => { o.push(1); o.push(perr_code(&e)); } } }
            1 => { let r = proto.remove_packet_handler(op[1] as u32); show_pret(&r, &mut o); }
            2 | 3 => {
                { let mut s = st.borrow_mut(); s.gets.clear(); s.answers.clear(); s.sent.clear(); s.trace.clear(); }
                log.borrow_mut().clear();
                let r = if op[0] == 2 {
                    let (gls, ans) = split_lists(&op[2..], op[1] as usize);
                    { let mut s = st.borrow_mut(); for g in gls { s.gets.push_back(parse_gres(g).0); } s.answers = ans.iter().cloned().collect(); }
                    catch_unwind(AssertUnwindSafe(|| proto.tick()))
                } else {
                    let (p, ans) = parse_packet(&op[1..]);
                    st.borrow_mut().answers = ans.iter().cloned().collect();
                    catch_unwind(AssertUnwindSafe(|| proto.send_packet(&p)))
                };
                match r { Ok(r) => show_pret(&r, &mut o), Err(_) => o.push(2) }
                show_log(&log, &ids, &mut o);
                show_packets(&st.borrow().sent, &mut o);
                o.push(st.borrow().gets.len() as u64);
            }
            4 => {
                { let mut s = st.borrow_mut(); s.gets.clear(); s.answers.clear(); s.sent.clear(); s.trace.clear(); }
                log.borrow_mut().clear();
                let cap = op[1] != 0; let kind = op[2]; let multi = op[3] != 0;
                let (p, rest) = parse_packet(&op[4..]);
                let (gls, ans) = split_lists(&rest[1..], rest[0] as usize);
                { let mut s = st.borrow_mut(); for g in gls { s.gets.push_back(parse_gres(g).0); } s.answers = ans.iter().cloned().collect(); }
                o = do_exchange(&mut proto, &st, &log, &ids, kind, cap, multi, p);
            }
            _ => panic!("harness: bad op"),
        }
        out.push(o);
    }
    let mut res = vec![out.len() as u64]; for o in out { res.push(o.len() as u64); res.extend(o); } res
}

// a valid encoding of `kind` addressed to `own` whose value tag / flag byte is then made invalid (right code, right size, undecodable content);
// for kinds without such a byte, a valid encoding with the error flag set
fn bad_variant(r: &mut Rng, kind: u64, own: u16) -> Packet {
    let mut p = ref_encode(&gen_event(r, kind, 12)); p.device_address = own;
    match kind { 6 | 14 => { if p.data.len() > 5 { p.data[5] = r.range(6, 255) as u8; } } 13 => { if p.data.len() > 9 { p.data[9] = r.range(6, 255) as u8; } }
                 12 => { if p.data.len() > 6 { p.data[6] = r.range(4, 255) as u8; } } _ => { p.is_error = true; } }
    p
}
fn other_addr(r: &mut Rng, own: u16) -> u16 { loop { let a = r.u16b() as u16; if a != own { return a; } } }
fn small_packet(r: &mut Rng, addr: u16) -> Packet { let n = r.below(12) as usize; Packet { is_error: r.chance(1, 5), device_address: addr, data: r.bytes(n) } }
fn push_list(l: &mut L, body: &[u64]) { l.push(body.len() as u64); l.extend_from_slice(body); }
pub fn gen_pro(r: &mut Rng, thorough: bool, cx: &mut Ctx) {
    // large handler tables: many registrations, a few removals in the middle, then deliveries to everybody and more registrations
    for &nh in (if thorough { &[33u64, 40, 65, 100, 129, 257, 300, 1000][..] } else { &[33u64, 40, 65, 100, 129, 257, 300][..] }) {
        let own: u16 = if r.coin() { 0xffff } else { r.u16b() as u16 };
        let mut ops: Vec<L> = vec![];
        for i in 0..nh { ops.push(vec![0, 1000 + i, r.chance(1, 3) as u64, 0]); }
        for _ in 0..5 { ops.push(vec![1, r.below(nh)]); }
        for a in [own, other_addr(r, own)] { let mut b: L = vec![2, 1]; let mut g: L = vec![0]; let p = small_packet(r, a); show_packet(&p, &mut g); push_list(&mut b, &g); ops.push(b); }
        for i in 0..8 { ops.push(vec![0, 5000 + i, 0, 0]); }
        { let mut b: L = vec![3]; let p = small_packet(r, own); show_packet(&p, &mut b); ops.push(b); }
        let mut l = vec![own as u64, ops.len() as u64]; for o in ops.iter() { push_list(&mut l, o); }
        cx.emit(&l);
    }
    // sends of large packets (up to the 4096-frame limit) to another device, to broadcast and to the own address
    for &n in &[1793usize, 28665, 28666, 28672] {
        let own: u16 = if n == 28666 { 0xffff } else { r.u16b() as u16 };
        let mut ops: Vec<L> = vec![vec![0, 1, 0, 0], vec![0, 2, 1, 0]];
        for a in [other_addr(r, own), 0xffff, own] { let mut b: L = vec![3]; let p = Packet { is_error: r.coin(), device_address: a, data: r.bytes(n) }; show_packet(&p, &mut b); ops.push(b); }
        let mut l = vec![own as u64, ops.len() as u64]; for o in ops.iter() { push_list(&mut l, o); }
        cx.emit(&l);
    }
    // the marked veteran case (see exec_pro): a short ordinary history on an object that has already handled 70000 packets each way
    {
        let own = 0xbeefu16; let mut ops: Vec<L> = vec![vec![0, 1, 0, 0], vec![0, 2, 1, 0]];
        for a in [own, 0xffff, 9u16] { let mut b: L = vec![2, 1]; let mut g: L = vec![0]; let p = small_packet(r, a); show_packet(&p, &mut g); push_list(&mut b, &g); ops.push(b);
                                       let mut b: L = vec![3]; let p = small_packet(r, a); show_packet(&p, &mut b); ops.push(b); }
        let mut l = vec![own as u64, ops.len() as u64]; for o in ops.iter() { push_list(&mut l, o); }
        cx.emit(&l);
    }
    // a protocol object with a long life: hundreds of ticks and sends on one object (counters kept in the object)
    for &n in (if thorough { &[300u64, 5000][..] } else { &[300u64][..] }) {
        let own: u16 = r.u16b() as u16;
        let mut ops: Vec<L> = vec![vec![0, 1, 0, 0], vec![0, 2, 1, 0]];
        for i in 0..n {
            let a = match i % 3 { 0 => own, 1 => 0xffff, _ => other_addr(r, own) };
            let mut b: L = vec![2, 1]; let mut g: L = vec![0]; let p = small_packet(r, a); show_packet(&p, &mut g); push_list(&mut b, &g); ops.push(b);
            let a2 = if i % 2 == 0 { own } else { other_addr(r, own) }; let mut b: L = vec![3]; let p = small_packet(r, a2); show_packet(&p, &mut b); ops.push(b);
        }
        let mut l = vec![own as u64, ops.len() as u64]; for o in ops.iter() { push_list(&mut l, o); }
        cx.emit(&l);
    }
    for _ in 0..(if thorough { 60000 } else { 4000 }) {
        let own: u16 = match r.below(6) { 0 => 0, 1 => 1, 2 => 0xfffe, 3 | 4 => 0xffff, _ => r.u16b() as u16 };
        let nops = r.range(1, 60);
        let mut l = vec![own as u64, nops];
        let mut issued: Vec<u64> = vec![]; let mut label = 100u64;
        let mut prev_op: Option<L> = None;
        for _ in 0..nops {
            let mut b: L = vec![];
            // the previous tick / send / exchange once more, verbatim (the same packet sent or received twice in a row)
            if let Some(po) = prev_op.clone() { if r.chance(1, 8) { push_list(&mut l, &po); continue; } }
            match r.below(12) {
                10 | 11 => {
                    // an exchange in the middle of the history: a few replies, packets that do not match (skipped), now and then a link error after a match
                    let kind = r.below(16); let cap = r.chance(1, 3); let multi = r.coin();
                    let dest = match r.below(4) { 0 => own, 1 => 0xffff, _ => other_addr(r, own) };
                    b.extend_from_slice(&[4, cap as u64, kind, multi as u64]); let req = small_packet(r, dest); show_packet(&req, &mut b);
                    let mut gets: Vec<L> = vec![];
                    for _ in 0..r.below(6) {
                        let mut g: L = vec![0];
                        let pk = match r.below(6) {
                            5 => bad_variant(r, kind, own),
                            0 | 1 => { let mut p = ref_encode(&gen_event(r, kind, 12)); if kind != 1 && kind != 5 { p.device_address = if r.coin() { own } else { 0xffff }; } else if r.coin() { p.device_address = own; } p }
                            2 => { let k2 = r.below(16); let mut p = ref_encode(&gen_event(r, k2, 12)); p.device_address = own; p }
                            _ => { let a = if r.coin() { own } else { other_addr(r, own) }; small_packet(r, a) }
                        };
                        show_packet(&pk, &mut g); gets.push(g);
                    }
                    match r.below(4) { 0 => gets.push(vec![2, r.pick(&ERR_CODES)]), 1 => gets.push(vec![1]), _ => {} }
                    b.push(gets.len() as u64); for g in gets.iter() { push_list(&mut b, g); }
                    for _ in 0..r.below(2) { b.push(if r.chance(1, 4) { r.pick(&SEND_ERR_CODES) } else { 0 }); }
                }
                0 | 1 | 2 => { b.extend_from_slice(&[0, label, r.chance(1, 3) as u64]); label += 1;
                               let ns = if r.chance(1, 4) { r.range(1, 2) } else { 0 }; b.push(ns);
                               for _ in 0..ns { let a = match r.below(6) { 0 | 1 => 0xffff, 2 => own, _ => other_addr(r, own) }; let p = small_packet(r, a); show_packet(&p, &mut b); }
                               issued.push(issued.len() as u64); }
                3 | 4 => { let live = if issued.is_empty() { 0 } else { r.below(issued.len() as u64 + 1) };
                           let id = match r.below(7) { 0 => r.below(8), 1 => 1000 + r.below(5), 2 => live + 32 * r.range(1, 3), 3 => live + (1u64 << r.range(5, 31)), 4 => 0xffff_ffff - r.below(3), _ => live }; b.extend_from_slice(&[1, id & 0xffff_ffff]); }
                5 | 6 | 7 => { b.push(2);
                               // one to three incoming results are queued; a tick must consume exactly one
                               let ng = match r.below(4) { 0 => 1, 1 | 2 => 2, _ => 3 }; b.push(ng);
                               for _ in 0..ng {
                                   let mut g: L = vec![];
                                   match r.below(8) { 0 => g.push(1), 1 => { g.push(2); g.push(r.pick(&ERR_CODES)); }
                                       k => { let a = match k { 2 | 3 => own, 4 => 0xffff, _ => other_addr(r, own) }; g.push(0); let p = small_packet(r, a); show_packet(&p, &mut g); } }
                                   push_list(&mut b, &g);
                               }
                               for _ in 0..r.below(3) { b.push(if r.chance(1, 4) { r.pick(&SEND_ERR_CODES) } else { 0 }); } }
                _ => { b.push(3); let a = match r.below(4) { 0 | 1 => own, 2 => 0xffff, _ => other_addr(r, own) }; let p = small_packet(r, a); show_packet(&p, &mut b);
                       for _ in 0..r.below(4) { b.push(if r.chance(1, 3) { r.pick(&SEND_ERR_CODES) } else { 0 }); } }
            }
            push_list(&mut l, &b);
            prev_op = if b[0] >= 2 { Some(b) } else { None };
        }
        cx.emit(&l);
    }
}

// ---------- EXC ----------
macro_rules! exch {
    ($proto:expr, $p:expr, $cap:expr, $w:expr, $multi:expr, $T:ty, $V:path) => {
        if $multi { $proto.exchange_packets::<_, $T>($p, $cap, $w).map(|v| v.into_iter().map(|e| $V(e).fields().unwrap_or(vec![0xbad])).collect::<Vec<L>>()) }
        else { $proto.exchange_packet::<_, $T>($p, $cap, $w).map(|e| vec![$V(e).fields().unwrap_or(vec![0xbad])]) }
    };
}
// one exchange call on proto; returns the observation (result, handler log, trace, incoming results left)
fn do_exchange(proto: &mut Protocol<'static, MockIf>, st: &Rc<RefCell<IfSt>>, log: &Log, ids: &std::collections::HashMap<u64, u64>, kind: u64, cap: bool, multi: bool, p: Packet) -> L {
    let stw = st.clone();
    let wait = move || { stw.borrow_mut().trace.push(vec![2]); };
    let r = catch_unwind(AssertUnwindSafe(|| match kind {
        0 => exch!(proto, p, cap, wait, multi, BootloaderHelloEvent, Ev::BootloaderHello), 1 => exch!(proto, p, cap, wait, multi, ProgrammerHelloEvent, Ev::ProgrammerHello),
        2 => exch!(proto, p, cap, wait, multi, ProgrammerStartFirmwareUpgradeEvent, Ev::StartFirmware), 3 => exch!(proto, p, cap, wait, multi, AckEvent, Ev::Ack),
        4 => exch!(proto, p, cap, wait, multi, DataEvent, Ev::Data), 5 => exch!(proto, p, cap, wait, multi, ConfiguratorHelloEvent, Ev::ConfiguratorHello),
        6 => exch!(proto, p, cap, wait, multi, BcmChangeBrightnessEvent, Ev::BcmChange), 7 => exch!(proto, p, cap, wait, multi, ButtonPressedEvent, Ev::ButtonPressed),
        8 => exch!(proto, p, cap, wait, multi, ButtonReleasedEvent, Ev::ButtonReleased), 9 => exch!(proto, p, cap, wait, multi, SystemTickEvent, Ev::SystemTick),
        10 => exch!(proto, p, cap, wait, multi, ProgrammerStartConfigUpgradeEvent, Ev::StartConfig), 11 => exch!(proto, p, cap, wait, multi, ProgrammerSetDeviceAddressEvent, Ev::SetAddress),
        12 => exch!(proto, p, cap, wait, multi, MessageEvent, Ev::Message), 13 => exch!(proto, p, cap, wait, multi, BcmAnimateBrightnessEvent, Ev::BcmAnimate),
        14 => exch!(proto, p, cap, wait, multi, RelaySetValueEvent, Ev::RelaySet), _ => exch!(proto, p, cap, wait, multi, GatewayDiscoverEvent, Ev::GatewayDiscover),
    }));
    let mut o = vec![];
    match r {
        Err(_) => o.push(2),
        Ok(Err(e)) => { o.push(1); o.push(perr_code(&e)); }
        Ok(Ok(evs)) => { o.push(0); o.push(evs.len() as u64); for e in evs { o.push(e.len() as u64); o.extend(e); } }
    }
    show_log(log, ids, &mut o);
    let s = st.borrow();
    o.push(s.trace.len() as u64); for t in s.trace.iter() { o.extend(t); }
    o.push(s.gets.len() as u64);
    o
}
pub fn exec_exc(case: &[u64]) -> L {
    DEPTH.with(|c| c.set(0));
    let own = case[0] as u16; let cap = case[1] != 0; let kind = case[2]; let multi = case[3] != 0;
    let (p, rest) = parse_packet(&case[4..]);
    let nh = rest[0] as usize; let (hls, rest) = split_lists(&rest[1..], nh);
    let ng = rest[0] as usize; let (gls, ans) = split_lists(&rest[1..], ng);
    let st = Rc::new(RefCell::new(IfSt::default()));
    let mut proto: Protocol<'static, MockIf> = Protocol::new(own, MockIf(st.clone()));
    let log: Log = Rc::new(RefCell::new(vec![]));
    let mut ids = std::collections::HashMap::new();
    for h in hls { let (label, c, sends) = parse_add(&h[1..]); if let Ok(id) = proto.add_packet_handler(make_handler(label, sends, log.clone()), c) { ids.insert(label, id as u64); } }
    { let mut s = st.borrow_mut(); for g in gls { s.gets.push_back(parse_gres(g).0); } s.answers = ans.iter().cloned().collect(); }
    do_exchange(&mut proto, &st, &log, &ids, kind, cap, multi, p)
}
pub fn gen_exc(r: &mut Rng, thorough: bool, cx: &mut Ctx) {
    for kind in 0..16u64 {
        for it in 0..(if thorough { 6000 } else { 300 }) {
            // long incoming queues (a match only behind many packets that do not match): the first few cases of every kind
            let long: u64 = match it { 0 => 60 + r.below(10), 1 => 250 + r.below(20), 2 => 1000 + r.below(100), 3 if thorough && kind % 5 == 0 => 5000, _ => 0 };      // (a queue of 66000 made the thorough check run for hours: the model's trace is built by appending)
            let own: u16 = match r.below(5) { 0 => 0xffff, 1 => 1, _ => r.u16b() as u16 };
            let cap = r.chance(1, 3); let multi = if long > 0 { it % 2 == 0 || r.coin() } else { r.coin() };
            let dest = match r.below(4) { 0 => own, 1 => 0xffff, _ => other_addr(r, own) };
            let req = small_packet(r, dest);
            let mut l = vec![own as u64, cap as u64, kind, multi as u64]; show_packet(&req, &mut l);
            let nh = r.below(4); l.push(nh);
            for i in 0..nh { let mut b = vec![0, 500 + i, r.chance(1, 3) as u64]; let ns = r.below(2); b.push(ns); for _ in 0..ns { let a = if r.chance(1, 4) { own } else { other_addr(r, own) }; let p = small_packet(r, a); show_packet(&p, &mut b); } push_list(&mut l, &b); }
            let ng = if long > 0 { long } else { r.below(13) }; let mut gets: Vec<L> = vec![];
            for gi in 0..ng {
                let mut g: L = vec![0];
                let pk = match if long > 0 && gi + 3 < ng { 4 + r.below(6) } else { r.below(10) } {
                    9 => bad_variant(r, kind, own),
                    0 | 1 | 2 => { let mut p = ref_encode(&gen_event(r, kind, 20)); if kind != 1 && kind != 5 { p.device_address = match r.below(3) { 0 => own, 1 => 0xffff, _ => other_addr(r, own) }; } else if r.coin() { p.device_address = own; } p }
                    3 => { let k2 = r.below(16); let mut p = ref_encode(&gen_event(r, k2, 20)); p.device_address = own; p }
                    4 => { let mut p = ref_encode(&gen_event(r, kind, 20)); p.device_address = own; p.is_error = true; p }
                    5 => { let mut p = ref_encode(&gen_event(r, kind, 20)); p.device_address = own; p.data.pop(); p }
                    _ => { let a = if r.coin() { own } else { other_addr(r, own) }; small_packet(r, a) }
                };
                show_packet(&pk, &mut g); gets.push(g);
            }
            match if long > 0 { 4 * r.below(2) + r.below(2) } else { r.below(6) } { 0 => gets.push(vec![2, r.pick(&ERR_CODES)]), 1 => gets.push(vec![1]), 2 => { let i = r.below(gets.len() as u64 + 1) as usize; gets.insert(i, vec![1]); } 3 => { let i = r.below(gets.len() as u64 + 1) as usize; gets.insert(i, vec![2, r.pick(&ERR_CODES)]); } _ => {} }
            l.push(gets.len() as u64); for g in gets.iter() { push_list(&mut l, g); }
            for _ in 0..r.below(3) { l.push(if r.chance(1, 4) { r.pick(&SEND_ERR_CODES) } else { 0 }); }
            cx.emit(&l);
        }
    }
}
