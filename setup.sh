#!/bin/bash
# setup.sh - build the whole framework offline from files on disk: Coq development (full .vo build),
# extraction + OCaml runner, Rust harness (debug profile) against /repo's working tree.
set -e
cd "$(dirname "$0")"
export CARGO_NET_OFFLINE=true
mkdir -p build
python3 tools/gen_consts.py
python3 tools/gen_guards.py
( cd coq && coq_makefile -f _CoqProject -o Makefile >/dev/null && timeout 3000 make -j16 )
mkdir -p build/extract
( cd build/extract && timeout 1200 coqc -Q ../../coq RP ../../coq/Extract.v && cp ../../runner/*.ml . \
  && timeout 1200 ocamlfind ocamlopt -w -a -inline 100 rp.mli rp.ml table.ml driver.ml -o ../runner )
( cd harness && CARGO_TARGET_DIR="$(pwd)/../build/cargo-target" timeout 1800 cargo build --offline && CARGO_TARGET_DIR="$(pwd)/../build/cargo-target" timeout 1800 cargo build --offline --release )
echo "setup done"
