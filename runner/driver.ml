(* driver.ml - moves lines between files and the extracted Gallina functions; no logic of its own.
   A line is a list of numbers in lowercase hex separated by single spaces. *)
open Rp

let rec pos_of_int i = if i = 1 then XH else if i land 1 = 0 then XO (pos_of_int (i lsr 1)) else XI (pos_of_int (i lsr 1))
let n_of_int i = if i = 0 then N0 else Npos (pos_of_int i)
let rec int_of_pos = function XH -> 1 | XO p -> 2 * int_of_pos p | XI p -> 2 * int_of_pos p + 1
let int_of_n = function N0 -> 0 | Npos p -> int_of_pos p
let small = Array.init 65536 n_of_int
let n_of i = if i >= 0 && i < 65536 then small.(i) else n_of_int i

let parse_line (s: string) : n list =
  let len = String.length s in
  let rec go i acc cur have =
    if i < 0 then (if have then n_of cur :: acc else acc)
    else
      let c = s.[i] in
      if c = ' ' || c = '\r' || c = '\t' then go (i - 1) (if have then n_of cur :: acc else acc) 0 false
      else go (i - 1) acc cur have
  in
  (* right-to-left so the list is built in order; digits are accumulated per token left-to-right below *)
  ignore go;
  let toks = ref [] in
  let i = ref (len - 1) in
  while !i >= 0 do
    while !i >= 0 && (s.[!i] = ' ' || s.[!i] = '\r' || s.[!i] = '\t') do decr i done;
    if !i >= 0 then begin
      let e = !i in
      while !i >= 0 && not (s.[!i] = ' ' || s.[!i] = '\r' || s.[!i] = '\t') do decr i done;
      let b = !i + 1 in
      let v = ref 0 in
      for j = b to e do
        let c = s.[j] in
        let d = if c >= '0' && c <= '9' then Char.code c - 48
                else if c >= 'a' && c <= 'f' then Char.code c - 87
                else failwith ("bad hex digit in line: " ^ s) in
        v := !v * 16 + d
      done;
      toks := n_of !v :: !toks
    end
  done;
  !toks

let print_line (oc: out_channel) (l: n list) : unit =
  let b = Buffer.create 256 in
  let first = ref true in
  List.iter (fun x -> if !first then first := false else Buffer.add_char b ' ';
                      Buffer.add_string b (Printf.sprintf "%x" (int_of_n x))) l;
  Buffer.add_char b '\n';
  output_string oc (Buffer.contents b)

let runs : (string * (n list -> n list)) list = Table.runs
let twos : (string * (n list -> n list -> n list)) list = Table.twos

let () =
  let usage () = prerr_endline "usage: runner run <stream> < cases | runner two <fn> <cases> <obs> | runner list"; exit 2 in
  if Array.length Sys.argv < 2 then usage ();
  match Sys.argv.(1) with
  | "list" -> List.iter (fun (k, _) -> print_endline ("run " ^ k)) runs; List.iter (fun (k, _) -> print_endline ("two " ^ k)) twos
  | "run" ->
      let f = try List.assoc Sys.argv.(2) runs with Not_found -> (prerr_endline "unknown stream"; exit 2) in
      (try while true do
         let line = input_line stdin in
         print_line stdout (f (parse_line line))
       done with End_of_file -> ())
  | "two" ->
      let f = try List.assoc Sys.argv.(2) twos with Not_found -> (prerr_endline "unknown function"; exit 2) in
      let c = open_in Sys.argv.(3) and o = open_in Sys.argv.(4) in
      (try while true do
         let lc = input_line c in
         let lo = (try input_line o with End_of_file -> "bee") in
         print_line stdout (f (parse_line lc) (parse_line lo))
       done with End_of_file -> ())
  | _ -> usage ()
