(* table.ml - names under which the extracted functions are reachable from the command line *)
open Rp
let runs : (string * (n list -> n list)) list = [
  "EV", run_EV;
  "DEC", run_DEC;
  "AMB", run_AMB;
  "USD", run_USD;
  "USE", run_USE;
  "CAD", run_CAD;
  "CAE", run_CAE;
  "FRG", run_FRG;
  "REA", run_REA;
  "BLD", run_BLD;
  "RCV", run_RCV;
  "LNK", run_LNK;
  "SND", run_SND;
]
let twos : (string * (n list -> n list -> n list)) list = [
  "view_C03", view_C03;
  "ok_C03", ok_C03;
  "view_C05", view_C05;
  "ok_C05", ok_C05;
  "view_C11_DEC", view_C11_DEC;
  "ok_C11_DEC", ok_C11_DEC;
  "view_C11_EV", view_C11_EV;
  "ok_C11_EV", ok_C11_EV;
  "view_C12", view_C12;
  "ok_C12", ok_C12;
  "view_C06", view_C06;
  "ok_C06", ok_C06;
  "view_C13", view_C13;
  "ok_C13", ok_C13;
  "view_C19", view_C19;
  "ok_C19", ok_C19;
  "view_C14", view_C14;
  "ok_C14", ok_C14;
  "view_C10", view_C10;
  "ok_C10", ok_C10;
  "view_C02", view_C02;
  "ok_C02", ok_C02;
  "view_C07", view_C07;
  "ok_C07", ok_C07;
  "view_C04_USD", view_C04_USD;
  "ok_C04_USD", ok_C04_USD;
  "view_C04_CAD", view_C04_CAD;
  "ok_C04_CAD", ok_C04_CAD;
  "view_C09_USE", view_C09_USE;
  "ok_C09_USE", ok_C09_USE;
  "view_C09_USD", view_C09_USD;
  "ok_C09_USD", ok_C09_USD;
  "view_C08_CAE", view_C08_CAE;
  "ok_C08_CAE", ok_C08_CAE;
  "view_C08_CAD", view_C08_CAD;
  "ok_C08_CAD", ok_C08_CAD;
]
