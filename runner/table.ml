(* table.ml - names under which the extracted functions are reachable from the command line *)
open Rp
let runs : (string * (n list -> n list)) list = [
  "EV", run_EV;
]
let twos : (string * (n list -> n list -> n list)) list = [
  "view_C03", view_C03;
  "ok_C03", ok_C03;
]
