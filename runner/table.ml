(* table.ml - names under which the extracted functions are reachable from the command line *)
open Rp
let runs : (string * (n list -> n list)) list = [
  "EV", run_EV;
  "DEC", run_DEC;
  "AMB", run_AMB;
]
let twos : (string * (n list -> n list -> n list)) list = [
  "view_C03", view_C03;
  "ok_C03", ok_C03;
  "view_C05", view_C05;
  "ok_C05", ok_C05;
  "view_C11_DEC", view_C11_DEC;
  "ok_C11_DEC", ok_C11_DEC;
  "view_C11_EV", view_C11_EV;
  "ok_C11_EV", ok_C11_EV;
  "view_C12", view_C12;
  "ok_C12", ok_C12;
]
